#!/bin/bash
# usage: check.sh <ID> <quick|thorough>
# Rebuilds the simulator against /repo's current working tree (hooks enabled through
# /verif/sim/.cargo/config.toml), then runs the check. Exit 0 / 1 (VIOLATION) / 2 (harness error).
set -u
ID="$1"; TIER="${2:-${VERIF_TIER:-quick}}"
cd /verif/sim || exit 2
export CARGO_NET_OFFLINE=true
if ! cargo build --release --offline >/verif/sim/target/build.log 2>&1; then
  if ! cargo build --release --offline 2>&1 | tail -40 >&2; then
    echo "harness error: build failed (see above)" >&2
    exit 2
  fi
fi
cd /verif || exit 2
exec /verif/sim/target/release/kverif check "$ID" --tier "$TIER"
