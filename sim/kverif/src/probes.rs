//! Probe `Sound` / `Effect` / `Modulator` implementations built on kira's public
//! traits: they emit known signals and log every call made to them.

use std::sync::{
	atomic::{AtomicBool, AtomicU64, Ordering},
	Arc, Mutex,
};

use kira::{
	effect::{Effect, EffectBuilder},
	info::Info,
	sound::{Sound, SoundData},
	Frame,
};

use crate::monitor::{self, Disarm, Role};

/// Number of the device callback currently executing (set by the harness).
pub static CURRENT_CALLBACK: AtomicU64 = AtomicU64::new(0);

#[derive(Clone, Debug)]
pub struct Call {
	pub callback: u64,
	pub len: usize,
	pub dt: f64,
	/// frame counter of the probe at the start of the call
	pub start: u64,
	/// what a probe sound emitted (empty for effects)
	pub frames: Vec<Frame>,
	pub role: Role,
	/// effects: the sample rate the effect was last told (init / on_change_sample_rate), 0 = never
	pub told_rate: u32,
}

#[derive(Default)]
pub struct ProbeShared {
	pub calls: Mutex<Vec<Call>>,
	pub on_start_processing_calls: AtomicU64,
	pub stop: AtomicBool,
	pub dropped: AtomicBool,
	pub dropped_by: Mutex<Option<Role>>,
	pub init_rate: Mutex<Vec<(&'static str, u32)>>,
}

impl ProbeShared {
	pub fn take_calls(&self) -> Vec<Call> {
		std::mem::take(&mut self.calls.lock().unwrap())
	}
}

/// Deterministic positive sample in (0, amp) for (probe id, channel, frame).
pub fn probe_sample(id: u32, channel: u32, frame: u64, amp: f32) -> f32 {
	let mut x = (id as u64) << 40 ^ (channel as u64) << 36 ^ frame;
	let h = crate::rng::splitmix64(&mut x);
	(((h >> 40) as f32 + 1.0) / (1u64 << 24) as f32) * amp
}

pub struct ProbeSound {
	pub id: u32,
	pub amp: f32,
	pub counter: u64,
	/// finishes by itself after this many frames (u64::MAX = never)
	pub finish_after: u64,
	pub shared: Arc<ProbeShared>,
}

impl Sound for ProbeSound {
	fn on_start_processing(&mut self) {
		self.shared.on_start_processing_calls.fetch_add(1, Ordering::SeqCst);
	}

	fn process(&mut self, out: &mut [Frame], dt: f64, _info: &Info) {
		let _d = Disarm::new();
		let start = self.counter;
		let mut frames = Vec::with_capacity(out.len());
		for o in out.iter_mut() {
			let f = Frame::new(
				probe_sample(self.id, 0, self.counter, self.amp),
				probe_sample(self.id, 1, self.counter, self.amp),
			);
			*o = f;
			frames.push(f);
			self.counter += 1;
		}
		self.shared.calls.lock().unwrap().push(Call {
			callback: CURRENT_CALLBACK.load(Ordering::SeqCst),
			len: out.len(),
			dt,
			start,
			frames,
			role: monitor::role(),
			told_rate: 0,
		});
	}

	fn finished(&self) -> bool {
		self.shared.stop.load(Ordering::SeqCst) || self.counter >= self.finish_after
	}
}

impl Drop for ProbeSound {
	fn drop(&mut self) {
		let _d = Disarm::new();
		*self.shared.dropped_by.lock().unwrap() = Some(monitor::role());
		self.shared.dropped.store(true, Ordering::SeqCst);
	}
}

pub struct ProbeSoundData {
	pub id: u32,
	pub amp: f32,
	pub finish_after: u64,
}

impl SoundData for ProbeSoundData {
	type Error = ();
	type Handle = Arc<ProbeShared>;

	fn into_sound(self) -> Result<(Box<dyn Sound>, Self::Handle), Self::Error> {
		let shared = Arc::new(ProbeShared::default());
		Ok((
			Box::new(ProbeSound {
				id: self.id,
				amp: self.amp,
				counter: 0,
				finish_after: self.finish_after,
				shared: shared.clone(),
			}),
			shared,
		))
	}
}

/// Sound data whose `into_sound` fails.
pub struct FailingSoundData;

impl SoundData for FailingSoundData {
	type Error = ();
	type Handle = ();

	fn into_sound(self) -> Result<(Box<dyn Sound>, Self::Handle), Self::Error> {
		Err(())
	}
}

/// Stateless affine effect `x -> x * gain + offset` (per channel offsets), so
/// order and placement in a chain are observable; logs every call.
pub struct ProbeEffect {
	pub gain: f32,
	pub offset: (f32, f32),
	pub told_rate: u32,
	pub counter: u64,
	pub shared: Arc<ProbeShared>,
}

impl Effect for ProbeEffect {
	fn init(&mut self, sample_rate: u32, _internal_buffer_size: usize) {
		let _d = Disarm::new();
		self.told_rate = sample_rate;
		self.shared.init_rate.lock().unwrap().push(("init", sample_rate));
	}

	fn on_change_sample_rate(&mut self, sample_rate: u32) {
		let _d = Disarm::new();
		self.told_rate = sample_rate;
		self.shared.init_rate.lock().unwrap().push(("change", sample_rate));
	}

	fn on_start_processing(&mut self) {
		self.shared.on_start_processing_calls.fetch_add(1, Ordering::SeqCst);
	}

	fn process(&mut self, input: &mut [Frame], dt: f64, _info: &Info) {
		let _d = Disarm::new();
		for f in input.iter_mut() {
			f.left = f.left * self.gain + self.offset.0;
			f.right = f.right * self.gain + self.offset.1;
		}
		self.shared.calls.lock().unwrap().push(Call {
			callback: CURRENT_CALLBACK.load(Ordering::SeqCst),
			len: input.len(),
			dt,
			start: self.counter,
			frames: Vec::new(),
			role: monitor::role(),
			told_rate: self.told_rate,
		});
		self.counter += input.len() as u64;
	}
}

impl Drop for ProbeEffect {
	fn drop(&mut self) {
		let _d = Disarm::new();
		*self.shared.dropped_by.lock().unwrap() = Some(monitor::role());
		self.shared.dropped.store(true, Ordering::SeqCst);
	}
}

pub struct ProbeEffectBuilder {
	pub gain: f32,
	pub offset: (f32, f32),
}

impl EffectBuilder for ProbeEffectBuilder {
	type Handle = Arc<ProbeShared>;

	fn build(self) -> (Box<dyn Effect>, Self::Handle) {
		let shared = Arc::new(ProbeShared::default());
		(
			Box::new(ProbeEffect {
				gain: self.gain,
				offset: self.offset,
				told_rate: 0,
				counter: 0,
				shared: shared.clone(),
			}),
			shared,
		)
	}
}
