//! C02, scheduled stream: a route must find its send track however the adds interleave.
//!
//! The caller necessarily creates a send track before the track routed to it
//! (the route needs its id). A gameplay task does `add_send_track`,
//! `add_sub_track(with_send)`, `play(DC sound)` while an audio task runs
//! callbacks, both preempted at the yield points of the resource rings by the
//! seeded scheduler. Whatever the interleaving, every output frame is either
//! silence (the track is not with the audio thread yet) or the full documented
//! sum - direct path plus send path; the direct path alone means the route was
//! skipped although its send track exists.

use std::sync::{Arc, Mutex};

use kira::{
	sound::static_sound::StaticSoundData,
	track::{SendTrackBuilder, TrackBuilder},
	AudioManager, AudioManagerSettings, Frame,
};
use serde::{Deserialize, Serialize};

use crate::{
	backend::{SimBackend, SimBackendSettings},
	core::*,
	monitor::{self, panic_signature, Role},
	rng::{Hasher64, Rng},
	sched::Sim,
};

#[derive(Clone, Debug, Serialize, Deserialize)]
pub struct SchedCase {
	pub seed: u64,
	/// send tracks the track is routed to (1 or 2)
	pub sends: usize,
	/// the routed track is a child of another (plain) track
	pub nested: bool,
	pub warm: usize,
	pub callbacks: usize,
	pub switch_prob: f64,
}

pub fn gen(rng: &mut Rng, _tier: Tier) -> SchedCase {
	SchedCase {
		seed: rng.next_u64(),
		sends: rng.urange(1, 3),
		nested: rng.chance(0.3),
		warm: rng.usize_below(2),
		callbacks: rng.urange(2, 6),
		switch_prob: *rng.pick(&[0.03, 0.1, 0.3, 0.6, 0.9]),
	}
}

const DC: f32 = 0.125;

pub fn run(case: &SchedCase) -> CaseResult {
	let mut res = CaseResult::default();
	let mut beh = Hasher64::new();
	let sim = Sim::new(case.seed);
	sim.set_random_params(case.switch_prob, 0.1, 60_000);
	let manager = monitor::catch(|| {
		AudioManager::<SimBackend>::new(AudioManagerSettings {
			internal_buffer_size: 8,
			backend_settings: SimBackendSettings { sample_rate: 8000 },
			..Default::default()
		})
		.unwrap()
	});
	let Ok(mut manager) = manager else {
		sim.shutdown();
		return res;
	};
	let device = manager.backend_mut().device.clone();
	let mut out = Vec::new();
	for _ in 0..case.warm {
		let _ = device.callback(8, 2, &mut out);
	}
	let keep: Arc<Mutex<Vec<Box<dyn std::any::Any + Send>>>> = Arc::new(Mutex::new(vec![]));
	let manager = Arc::new(Mutex::new(Some(manager)));
	{
		let (keep, manager, sends, nested) = (keep.clone(), manager.clone(), case.sends, case.nested);
		sim.spawn_task(
			"gameplay",
			Role::Gameplay,
			Box::new(move || {
				let mut g = manager.lock().unwrap();
				let m = g.as_mut().unwrap();
				let mut b = TrackBuilder::new();
				for _ in 0..sends {
					let s = m.add_send_track(SendTrackBuilder::new()).unwrap();
					b = b.with_send(s.id(), 0.0);
					keep.lock().unwrap().push(Box::new(s));
					kira::verif::yield_point("gameplay.between_ops");
				}
				let mut t = if nested {
					let mut p = m.add_sub_track(TrackBuilder::new()).unwrap();
					kira::verif::yield_point("gameplay.between_ops");
					let t = p.add_sub_track(b).unwrap();
					keep.lock().unwrap().push(Box::new(p));
					t
				} else {
					m.add_sub_track(b).unwrap()
				};
				kira::verif::yield_point("gameplay.between_ops");
				let h = t
					.play(
						StaticSoundData {
							sample_rate: 8000,
							frames: vec![Frame::new(DC, DC); 8].into(),
							settings: Default::default(),
							slice: None,
						}
						.loop_region(0.0..),
					)
					.unwrap();
				keep.lock().unwrap().push(Box::new(t));
				keep.lock().unwrap().push(Box::new(h));
			}),
		);
	}
	let outputs: Arc<Mutex<Vec<Vec<f32>>>> = Arc::new(Mutex::new(vec![]));
	{
		let (device, n, outputs) = (device.clone(), case.callbacks, outputs.clone());
		sim.spawn_task(
			"audio",
			Role::Audio,
			Box::new(move || {
				let mut out = Vec::new();
				for _ in 0..n {
					let rep = device.callback(8, 2, &mut out);
					if let Some(p) = rep.panic {
						panic!("{p}");
					}
					outputs.lock().unwrap().push(out.clone());
					kira::verif::yield_point("audio.between_callbacks");
				}
			}),
		);
	}
	sim.run_random();
	res.count("context_switches", sim.switches());
	if sim.capped() {
		res.inconclusive = true;
	}
	for (role, name, msg) in sim.take_panics() {
		res.fail(Violation::new("no-panic", format!("task-panic: {}", panic_signature(&msg)), format!("{role:?} task {name} panicked: {msg}")));
	}
	for _ in 0..2 {
		let rep = device.callback(8, 2, &mut out);
		if let Some(p) = rep.panic {
			res.fail(Violation::new("no-panic", format!("audio-panic: {}", panic_signature(&p)), p));
		}
		outputs.lock().unwrap().push(out.clone());
	}
	let full = DC * (1.0 + case.sends as f32);
	let outs = outputs.lock().unwrap();
	let mut audible = 0u64;
	if res.violation.is_none() && !res.inconclusive {
		'o: for (cb, o) in outs.iter().enumerate() {
			for (i, s) in o.iter().enumerate() {
				if *s == 0.0 {
					continue;
				}
				audible += 1;
				if !((*s - full).abs() <= 1e-6) {
					res.fail(Violation::new(
						"reference-mixer",
						"send-route-skipped",
						format!(
							"callback {cb} sample {i}: output {s}; the track (DC {DC}, {} send route(s) at 0 dB to send tracks created before it{}) contributes either nothing (not picked up yet) or {full} (direct + sends): part of the documented sum is missing",
							case.sends,
							if case.nested { ", nested in a plain track" } else { "" }
						),
					));
					break 'o;
				}
			}
		}
		if res.violation.is_none() && outs.last().map(|o| o.iter().all(|s| *s == 0.0)).unwrap_or(true) {
			res.fail(Violation::new("reference-mixer", "track-never-audible", "two undisturbed callbacks after the adds the routed track is still silent".to_string()));
		}
	}
	res.count("audible_samples_checked", audible);
	beh.u64(sim.trace_hash());
	res.nontrivial = audible > 0;
	res.callbacks = (case.warm + case.callbacks + 2) as u64;
	res.hit("type.sched_route");
	res.trace_hash = sim.trace_hash();
	res.behaviour_sig = beh.finish();
	drop(outs);
	drop(keep);
	drop(manager);
	sim.shutdown();
	res
}
