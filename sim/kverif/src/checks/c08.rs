//! C08 - resource life cycle: exact capacity accounting, prompt removal, no stale ids.
//!
//! Stream "ops": long create / drop / finish histories over all six resource
//! kinds at capacities 0, 1, 2, k, interleaved with callbacks, checked against a
//! counter model (creation succeeds iff alive + awaiting removal < capacity, else
//! the documented error and never a panic; reported counts; removal at the next
//! callback, the one after if not yet picked up; payloads destroyed exactly once,
//! never in the audio role).
//! Stream "stale": a sound / parameter / route / spatial track refers to a clock /
//! modulator / send track / listener that is removed while a newcomer takes its
//! slot: the old id must resolve to "missing", never to the newcomer.
//! Stream "sched": a gameplay task creating / dropping / counting against an
//! audio task running callbacks, preempted inside insert_with_key and
//! remove_and_add; interval-based accounting over the stamped history.

use std::sync::{atomic::Ordering, Arc, Mutex};

use kira::{
	modulator::tweener::TweenerBuilder,
	sound::PlaybackState,
	track::{SendTrackBuilder, TrackBuilder, TrackHandle},
	AudioManager, AudioManagerSettings, Capacities, PlaySoundError,
};
use serde::{Deserialize, Serialize};
use serde_json::Value as Json;

use crate::{
	backend::{SimBackend, SimBackendSettings},
	core::*,
	monitor::{self, panic_signature, Role},
	probes::*,
	rng::{derive_seed, Hasher64, Rng},
	sched::Sim,
	spec::*,
	world::*,
};

#[derive(Clone, Copy, Debug, Serialize, Deserialize, PartialEq, Eq, Hash)]
pub enum K {
	SubTrack,
	NestedTrack,
	Send,
	Clock,
	Modulator,
	Listener,
	MainSound,
	TrackSound,
}

#[derive(Clone, Copy, Debug, Serialize, Deserialize, PartialEq)]
pub enum ROp {
	Create(K, usize),
	Drop(K, usize),
	/// make a probe sound finish (`MainSound` / `TrackSound`)
	Finish(K, usize),
	Callback { frames: usize },
	/// play a sound whose `into_sound` fails (`MainSound` / `TrackSound`): an error, and no slot is used up
	PlayFailing(K, usize),
}

#[derive(Clone, Debug, Serialize, Deserialize)]
pub enum Stream {
	Ops { caps: [usize; 7], ops: Vec<ROp> },
	Stale { kind: u8, gaps: [usize; 4], ibs: usize },
	Sched { cap: usize, kind: u8, steps: Vec<u8>, callbacks: usize, switch_prob: f64 },
	/// plays that fail inside `into_sound` on every kind of track handle (0 main, 1 sub-track,
	/// 2 spatial sub-track, 3 spatial track nested in a sub-track), then the track is filled
	FailingPlays { target: u8, n: usize, cap: usize, callbacks_between: usize },
}

#[derive(Clone, Debug, Serialize, Deserialize)]
pub struct Case {
	pub seed: u64,
	pub stream: Stream,
}

fn gen_case(seed: u64, index: u64, tier: Tier) -> Case {
	let mut rng = Rng::new(seed);
	let zero_ok = !crate::known::is_open("C08-capacity-zero-panics");
	let cap = |rng: &mut Rng| -> usize {
		if zero_ok {
			*rng.pick(&[0usize, 1, 1, 2, 2, 3, 5])
		} else {
			*rng.pick(&[1usize, 1, 2, 2, 3, 5])
		}
	};
	let stream = match if index % 16 == 15 { 9 } else { index % 4 } {
		9 => Stream::FailingPlays {
			target: rng.below(4) as u8,
			n: rng.urange(1, 6),
			cap: *rng.pick(&[1usize, 2, 3]),
			callbacks_between: rng.usize_below(2),
		},
		0 | 1 => {
			let caps = [cap(&mut rng), cap(&mut rng), cap(&mut rng), cap(&mut rng), cap(&mut rng), cap(&mut rng), cap(&mut rng)];
			let n = rng.urange(10, if tier == Tier::Quick { 70 } else { 200 });
			let kinds = [K::SubTrack, K::NestedTrack, K::Send, K::Clock, K::Modulator, K::Listener, K::MainSound, K::TrackSound];
			let mut ops = vec![];
			let focus = *rng.pick(&kinds);
			while ops.len() < n {
				let k = if rng.chance(0.5) { focus } else { *rng.pick(&kinds) };
				let op = match rng.below(10) {
					0..=3 => ROp::Create(k, rng.usize_below(6)),
					4..=5 => ROp::Drop(k, rng.usize_below(8)),
					6 => ROp::Finish(if rng.chance(0.5) { K::MainSound } else { K::TrackSound }, rng.usize_below(8)),
					7 if rng.chance(0.35) => ROp::PlayFailing(if rng.chance(0.5) { K::MainSound } else { K::TrackSound }, rng.usize_below(6)),
					_ => ROp::Callback { frames: rng.urange(0, 30) },
				};
				ops.push(op);
			}
			ops.push(ROp::Callback { frames: 4 });
			ops.push(ROp::Callback { frames: 4 });
			Stream::Ops { caps, ops }
		}
		2 => Stream::Stale {
			kind: rng.below(4) as u8,
			gaps: [rng.usize_below(3), rng.usize_below(3), rng.usize_below(3), rng.urange(1, 4)],
			ibs: *rng.pick(&[1usize, 16, 128]),
		},
		_ => Stream::Sched {
			cap: *rng.pick(&[1usize, 1, 2, 3]),
			kind: rng.below(3) as u8,
			steps: (0..rng.urange(4, 14)).map(|_| rng.below(4) as u8).collect(),
			callbacks: rng.urange(2, 7),
			switch_prob: *rng.pick(&[0.03, 0.1, 0.3, 0.6, 0.9]),
		},
	};
	Case { seed, stream }
}

// ---------------------------------------------------------------------------
// stream ops
// ---------------------------------------------------------------------------

struct Item {
	first_cb: u64,
	/// gap (number of the next callback) at which it was marked for removal
	gone_gap: Option<u64>,
	/// the arena this item owns (tracks): index into `arenas`
	owns: Vec<usize>,
	handle: Option<Res>,
	probes: Vec<Arc<ProbeShared>>,
	/// index of the track this item lives in (nested tracks / track sounds)
	parent_item: Option<(usize, usize)>,
	/// a track is not removed before every track below it has been picked up
	removal_floor: u64,
}

enum Res {
	Track(TrackHandle),
	Send(kira::track::SendTrackHandle),
	Clock(kira::clock::ClockHandle),
	Mod(kira::modulator::tweener::TweenerHandle),
	Listener(kira::listener::ListenerHandle),
	Sound(Arc<ProbeShared>),
}

struct Arena {
	cap: usize,
	items: Vec<Item>,
	kind: K,
}

impl Item {
	fn removed_at(&self) -> u64 {
		match self.gone_gap {
			None => u64::MAX,
			Some(d) => d.max(self.first_cb + 1).max(self.removal_floor),
		}
	}
}

fn run_ops(case: &Case, caps: &[usize; 7], ops: &[ROp]) -> CaseResult {
	let mut res = CaseResult::default();
	let mut trace = Hasher64::new();
	let mut beh = Hasher64::new();
	let (c_sub, c_nested, c_send, c_clock, c_mod, c_listener, c_sound) = (caps[0], caps[1], caps[2], caps[3], caps[4], caps[5], caps[6]);
	let manager = monitor::catch(move || {
		AudioManager::<SimBackend>::new(AudioManagerSettings {
			capacities: Capacities {
				sub_track_capacity: c_sub,
				send_track_capacity: c_send,
				clock_capacity: c_clock,
				modulator_capacity: c_mod,
				listener_capacity: c_listener,
			},
			main_track_builder: kira::track::MainTrackBuilder::new().sound_capacity(c_sound),
			internal_buffer_size: 16,
			backend_settings: SimBackendSettings { sample_rate: 8000 },
		})
		.unwrap()
	});
	let Ok(mut manager) = manager else {
		res.fail(Violation::new("no-panic", "manager-construction-panicked", format!("AudioManager::new panicked with capacities {caps:?}")));
		return res;
	};
	let device = manager.backend_mut().device.clone();
	// arena 0: manager sub-tracks, 1: sends, 2: clocks, 3: modulators, 4: listeners, 5: main sounds; further: per track (sounds, nested)
	let mut arenas: Vec<Arena> = vec![
		Arena { cap: c_sub, items: vec![], kind: K::SubTrack },
		Arena { cap: c_send, items: vec![], kind: K::Send },
		Arena { cap: c_clock, items: vec![], kind: K::Clock },
		Arena { cap: c_mod, items: vec![], kind: K::Modulator },
		Arena { cap: c_listener, items: vec![], kind: K::Listener },
		Arena { cap: c_sound, items: vec![], kind: K::MainSound },
	];
	let mut cb = 0u64;
	let mut out = Vec::new();
	let mut all_probes: Vec<(Arc<ProbeShared>, u64 /* removed_at */, &'static str)> = vec![];
	let mut next_id = 1u32;
	let mut creations = 0u64;
	let mut limits = 0u64;

	// is the item (and everything above it) still with the audio thread's arenas at gap `cb`?
	fn occupies(arenas: &[Arena], a: usize, i: usize, cb: u64) -> bool {
		// at gap `cb` (callbacks 0..cb-1 have run) a slot is still taken iff the callback
		// that removes the item has not run yet
		arenas[a].items[i].removed_at() >= cb
	}
	fn len_of(arenas: &[Arena], a: usize, cb: u64) -> usize {
		(0..arenas[a].items.len()).filter(|i| occupies(arenas, a, *i, cb)).count()
	}
	// a track that has been removed takes its own arenas with it; nothing can be created in them
	fn track_alive(arenas: &[Arena], a: usize, i: usize) -> bool {
		arenas[a].items[i].handle.is_some()
	}

	'ops: for (oi, op) in ops.iter().enumerate() {
		match op {
			ROp::Create(k, sel) => {
				// which arena?
				let tracks: Vec<(usize, usize)> = (0..arenas.len())
					.filter(|a| matches!(arenas[*a].kind, K::SubTrack | K::NestedTrack))
					.flat_map(|a| (0..arenas[a].items.len()).map(move |i| (a, i)))
					.filter(|(a, i)| track_alive(&arenas, *a, *i))
					.collect();
				let (arena_idx, parent): (usize, Option<(usize, usize)>) = match k {
					K::SubTrack => (0, None),
					K::Send => (1, None),
					K::Clock => (2, None),
					K::Modulator => (3, None),
					K::Listener => (4, None),
					K::MainSound => (5, None),
					K::NestedTrack | K::TrackSound => {
						if tracks.is_empty() {
							continue;
						}
						let (a, i) = tracks[*sel % tracks.len()];
						let owns = &arenas[a].items[i].owns;
						(if *k == K::TrackSound { owns[0] } else { owns[1] }, Some((a, i)))
					}
				};
				let expected_ok = len_of(&arenas, arena_idx, cb) < arenas[arena_idx].cap;
				let probe_id = next_id;
				next_id += 1;
				let mut new_probes = vec![];
				let mut new_owns = vec![];
				let created: Result<Option<Res>, String> = monitor::catch(|| -> Option<Res> {
					match k {
						K::SubTrack | K::NestedTrack => {
							let mut b = TrackBuilder::new().sound_capacity(c_sound).sub_track_capacity(c_nested);
							let p = b.add_effect(ProbeEffectBuilder {
								gain: 1.0,
								offset: (0.0, 0.0),
							});
							new_probes.push(p);
							let r = match parent {
								None => manager.add_sub_track(b),
								Some((a, i)) => match arenas[a].items[i].handle.as_mut() {
									Some(Res::Track(h)) => h.add_sub_track(b),
									_ => unreachable!(),
								},
							};
							r.ok().map(Res::Track)
						}
						K::Send => {
							let mut b = SendTrackBuilder::new();
							let p = b.add_effect(ProbeEffectBuilder {
								gain: 1.0,
								offset: (0.0, 0.0),
							});
							new_probes.push(p);
							manager.add_send_track(b).ok().map(Res::Send)
						}
						K::Clock => manager.add_clock(kira::clock::ClockSpeed::TicksPerSecond(10.0)).ok().map(Res::Clock),
						K::Modulator => manager.add_modulator(TweenerBuilder { initial_value: 0.0 }).ok().map(Res::Mod),
						K::Listener => manager.add_listener(glam::Vec3::ZERO, glam::Quat::IDENTITY).ok().map(Res::Listener),
						K::MainSound | K::TrackSound => {
							let data = ProbeSoundData {
								id: probe_id,
								amp: 0.01,
								finish_after: u64::MAX,
							};
							let r = match parent {
								None => manager.play(data),
								Some((a, i)) => match arenas[a].items[i].handle.as_mut() {
									Some(Res::Track(h)) => h.play(data),
									_ => unreachable!(),
								},
							};
							match r {
								Ok(p) => {
									new_probes.push(p.clone());
									Some(Res::Sound(p))
								}
								Err(PlaySoundError::SoundLimitReached) => None,
								Err(_) => None,
							}
						}
					}
				});
				let created = match created {
					Ok(c) => c,
					Err(p) => {
						res.fail(Violation::new(
							"no-panic",
							format!("creation-panicked: {}", panic_signature(&p)),
							format!("op {oi}: creating a {k:?} (capacity {}, {} in use) panicked instead of returning the limit error: {p}", arenas[arena_idx].cap, len_of(&arenas, arena_idx, cb)),
						));
						break 'ops;
					}
				};
				if created.is_some() != expected_ok {
					res.fail(Violation::new(
						"capacity-accounting",
						if created.is_some() { "created-beyond-capacity" } else { "refused-below-capacity" },
						format!(
							"op {oi} (gap before callback {cb}): creating a {k:?} {} but {} of {} slots are alive or awaiting removal",
							if created.is_some() { "succeeded" } else { "was refused" },
							len_of(&arenas, arena_idx, cb),
							arenas[arena_idx].cap
						),
					));
					break 'ops;
				}
				match created {
					Some(h) => {
						creations += 1;
						if matches!(k, K::SubTrack | K::NestedTrack) {
							arenas.push(Arena { cap: c_sound, items: vec![], kind: K::TrackSound });
							arenas.push(Arena { cap: c_nested, items: vec![], kind: K::NestedTrack });
							new_owns = vec![arenas.len() - 2, arenas.len() - 1];
						}
						arenas[arena_idx].items.push(Item {
							first_cb: cb,
							gone_gap: None,
							owns: new_owns,
							handle: Some(h),
							probes: new_probes,
							parent_item: parent,
							removal_floor: 0,
						});
					}
					None => {
						limits += 1;
						// a refused resource is handed back to the caller's thread at once
						for p in new_probes {
							all_probes.push((p, 0, "refused"));
						}
					}
				}
			}
			ROp::PlayFailing(k, sel) => {
				let tracks: Vec<(usize, usize)> = (0..arenas.len())
					.filter(|a| matches!(arenas[*a].kind, K::SubTrack | K::NestedTrack))
					.flat_map(|a| (0..arenas[a].items.len()).map(move |i| (a, i)))
					.filter(|(a, i)| track_alive(&arenas, *a, *i))
					.collect();
				let parent = if *k == K::MainSound || tracks.is_empty() { None } else { Some(tracks[*sel % tracks.len()]) };
				let r = monitor::catch(|| match parent {
					None => manager.play(FailingSoundData).is_err(),
					Some((a, i)) => match arenas[a].items[i].handle.as_mut() {
						Some(Res::Track(h)) => h.play(FailingSoundData).is_err(),
						_ => unreachable!(),
					},
				});
				match r {
					Ok(true) => res.hit("failed_into_sound_plays"),
					Ok(false) => {
						res.fail(Violation::new("capacity-accounting", "failing-sound-accepted", format!("op {oi}: playing a sound whose into_sound() fails returned Ok")));
						break 'ops;
					}
					Err(p) => {
						res.fail(Violation::new("no-panic", format!("creation-panicked: {}", panic_signature(&p)), format!("op {oi}: playing a sound whose into_sound() fails panicked: {p}")));
						break 'ops;
					}
				}
				// (nothing was created: the model does not change, so a slot used up by the failed
				// play shows up in the counts below and in later creations)
			}
			ROp::Drop(k, sel) => {
				let a_sel: Vec<usize> = (0..arenas.len()).filter(|a| arenas[*a].kind == *k).collect();
				let mut cands: Vec<(usize, usize)> = vec![];
				for a in a_sel {
					for i in 0..arenas[a].items.len() {
						if arenas[a].items[i].handle.is_some() {
							cands.push((a, i));
						}
					}
				}
				if cands.is_empty() || matches!(k, K::MainSound | K::TrackSound) {
					continue;
				}
				let (a, i) = cands[*sel % cands.len()];
				// a track is dropped together with its (handle-wise) live nested tracks, children first
				let mut order = vec![(a, i)];
				let mut q = 0;
				while q < order.len() {
					let (pa, pi) = order[q];
					if let Some(na) = arenas[pa].items[pi].owns.get(1).copied() {
						for ci in 0..arenas[na].items.len() {
							if arenas[na].items[ci].handle.is_some() {
								order.push((na, ci));
							}
						}
					}
					q += 1;
				}
				// every track below (whatever the state of its handle) that the audio thread has
				// not picked up yet keeps its ancestors for one more callback
				fn floor_of(arenas: &[Arena], a: usize, i: usize, cb: u64) -> u64 {
					let mut f = arenas[a].items[i].first_cb + 1;
					if let Some(na) = arenas[a].items[i].owns.get(1).copied() {
						for ci in 0..arenas[na].items.len() {
							if arenas[na].items[ci].removed_at() > cb {
								f = f.max(floor_of(arenas, na, ci, cb));
							}
						}
					}
					f
				}
				for (da, di) in order.iter().rev() {
					let floor = floor_of(&arenas, *da, *di, cb);
					let it = &mut arenas[*da].items[*di];
					it.handle = None;
					it.gone_gap = Some(cb);
					it.removal_floor = floor;
				}
			}
			ROp::Finish(k, sel) => {
				let mut cands: Vec<(usize, usize)> = vec![];
				for a in 0..arenas.len() {
					if arenas[a].kind == *k {
						for i in 0..arenas[a].items.len() {
							if arenas[a].items[i].gone_gap.is_none() {
								cands.push((a, i));
							}
						}
					}
				}
				if cands.is_empty() {
					continue;
				}
				let (a, i) = cands[*sel % cands.len()];
				if let Some(Res::Sound(p)) = &arenas[a].items[i].handle {
					p.stop.store(true, Ordering::SeqCst);
					arenas[a].items[i].gone_gap = Some(cb);
				}
			}
			ROp::Callback { frames } => {
				CURRENT_CALLBACK.store(cb, Ordering::SeqCst);
				let rep = device.callback(*frames, 2, &mut out);
				if let Some(p) = rep.panic {
					res.fail(Violation::new("no-panic", format!("audio-panic: {}", panic_signature(&p)), format!("op {oi} (callback {cb}): {p}")));
					break 'ops;
				}
				if rep.allocs > 0 || rep.frees > 0 {
					res.fail(Violation::new("audio-thread-frees", "heap-traffic-in-callback", format!("op {oi}: {} allocations, {} frees in the audio role", rep.allocs, rep.frees)));
					break 'ops;
				}
				cb += 1;
				beh.u64((0..arenas.len().min(6)).map(|a| len_of(&arenas, a, cb) as u64).sum());
			}
		}
		// a removed track's own arenas die with it: items inside are gone when the track is
		for a in 0..arenas.len() {
			for i in 0..arenas[a].items.len() {
				if let Some((pa, pi)) = arenas[a].items[i].parent_item {
					let parent_removed_at = arenas[pa].items[pi].removed_at();
					let parent_gap = arenas[pa].items[pi].gone_gap;
					let it = &mut arenas[a].items[i];
					if it.gone_gap.is_none() && parent_removed_at != u64::MAX {
						// the parent was dropped: the child's slot lives in the parent's arena and
						// disappears with it (no separate accounting once the parent is removed)
						it.gone_gap = parent_gap;
						it.handle = None;
					}
				}
			}
		}
		// ---- counts reported by the public API, after every op -------------------
		let n = |a: usize| len_of(&arenas, a, cb);
		let got = [manager.num_sub_tracks(), manager.num_send_tracks(), manager.num_clocks(), manager.num_modulators(), manager.main_track().num_sounds()];
		let want = [n(0), n(1), n(2), n(3), n(5)];
		let caps_got = [manager.sub_track_capacity(), manager.send_track_capacity(), manager.clock_capacity(), manager.modulator_capacity(), manager.main_track().sound_capacity()];
		let caps_want = [c_sub, c_send, c_clock, c_mod, c_sound];
		for j in 0..5 {
			trace.u64(got[j] as u64);
			if got[j] != want[j] || caps_got[j] != caps_want[j] || got[j] > caps_got[j] {
				res.fail(Violation::new(
					"capacity-accounting",
					"reported-count-wrong",
					format!(
						"after op {oi} ({op:?}, gap before callback {cb}): manager reports {} of {} for {}, the model has {} of {}",
						got[j],
						caps_got[j],
						["sub-tracks", "send tracks", "clocks", "modulators", "main-track sounds"][j],
						want[j],
						caps_want[j]
					),
				));
				break 'ops;
			}
		}
		for a in 0..arenas.len() {
			for i in 0..arenas[a].items.len() {
				if let Some(Res::Track(h)) = &arenas[a].items[i].handle {
					let owns = &arenas[a].items[i].owns;
					let (gs, gt) = (h.num_sounds(), h.num_sub_tracks());
					let (ws, wt) = (len_of(&arenas, owns[0], cb), len_of(&arenas, owns[1], cb));
					if gs != ws || gt != wt || gs > h.sound_capacity() || gt > h.sub_track_capacity() {
						res.fail(Violation::new(
							"capacity-accounting",
							"reported-count-wrong",
							format!("after op {oi} ({op:?}): a track reports {gs} sounds / {gt} sub-tracks, the model has {ws} / {wt}"),
						));
						break 'ops;
					}
				}
			}
		}
	}
	// ---- destruction: every payload exactly once, on a caller's thread -------------
	for a in 0..arenas.len() {
		for it in arenas[a].items.iter_mut() {
			let r = it.removed_at();
			for p in it.probes.drain(..) {
				all_probes.push((p, r, "resource"));
			}
			it.handle = None;
		}
	}
	drop(arenas);
	drop(manager);
	drop(device); // the simulated device holds the renderer
	for (p, _, what) in &all_probes {
		if !p.dropped.load(Ordering::SeqCst) {
			res.fail(Violation::new("destruction", "payload-never-destroyed", format!("a probe payload ({what}) was never dropped although the manager and all handles are gone")));
			break;
		}
		if *p.dropped_by.lock().unwrap() == Some(Role::Audio) {
			res.fail(Violation::new("destruction", "payload-destroyed-on-audio-thread", format!("a probe payload ({what}) was dropped in the audio role")));
			break;
		}
	}
	res.count("resources_created", creations);
	res.count("limit_errors", limits);
	res.count("payloads_tracked", all_probes.len() as u64);
	res.callbacks = cb;
	res.nontrivial = creations > 0;
	beh.u64(limits.min(10));
	res.behaviour_sig = beh.finish();
	res.trace_hash = trace.finish();
	res
}

// ---------------------------------------------------------------------------
// stream stale
// ---------------------------------------------------------------------------

fn run_stale(case: &Case, kind: u8, gaps: &[usize; 4], ibs: usize) -> CaseResult {
	let mut res = CaseResult::default();
	let mut trace = Hasher64::new();
	let cfg = WorldConfig {
		sample_rate: 8000,
		internal_buffer_size: ibs,
		// one slot per arena: the newcomer is certain to reuse the slot
		caps: CapsSpec {
			sub_tracks: 4,
			send_tracks: 1,
			clocks: 1,
			modulators: 1,
			listeners: 1,
		},
		..Default::default()
	};
	let Ok(mut w) = World::new(&cfg, None) else { return res };
	let cbs = |w: &mut World, n: usize, res: &mut CaseResult| -> bool {
		for _ in 0..n {
			let rep = w.callback(40, 2);
			if let Some(p) = rep.panic {
				res.fail(Violation::new("no-panic", format!("audio-panic: {}", panic_signature(&p)), p));
				return false;
			}
		}
		true
	};
	let dc = |v: f32| DataSpec {
		len: 4,
		sample_rate: 8000,
		signal: Signal::Dc(v),
	};
	let looped = SoundSettingsSpec {
		loop_region: Some(RegionSpec { start: Pos::Samples(0), end: None }),
		..Default::default()
	};
	let fixed0 = Val::Fixed(Db(0.0));
	match kind {
		0 => {
			// a sound waits for clock A; A is removed; clock B takes the slot and runs past the time
			w.exec(&Op::AddClock { speed: Val::Fixed(Speed::TicksPerSecond(200.0)) });
			w.exec(&Op::PlayStatic {
				track: None,
				data: dc(0.5),
				slice: None,
				settings: SoundSettingsSpec {
					start: StartSpec::Clock { clock: 0, ticks: 3, fraction: 0.0 },
					..looped.clone()
				},
			});
			if !cbs(&mut w, gaps[0], &mut res) {
				return res;
			}
			w.exec(&Op::Drop { kind: Kind::Clock, index: 0 });
			if !cbs(&mut w, gaps[1] + 1, &mut res) {
				return res;
			}
			// may need a second callback before the slot is free (not yet picked up)
			let mut o = w.exec(&Op::AddClock { speed: Val::Fixed(Speed::TicksPerSecond(400.0)) });
			if !o.created {
				if !cbs(&mut w, 1, &mut res) {
					return res;
				}
				o = w.exec(&Op::AddClock { speed: Val::Fixed(Speed::TicksPerSecond(400.0)) });
			}
			if !o.created {
				res.fail(Violation::new("stale-id", "slot-not-freed", "the only clock was dropped two callbacks ago but a new clock is refused".to_string()));
				return res;
			}
			w.exec(&Op::Clock { clock: 1, cmd: ClockCmd::Start });
			for _ in 0..gaps[3] + 6 {
				if !cbs(&mut w, 1, &mut res) {
					return res;
				}
				if w.out.iter().any(|s| *s != 0.0) {
					res.fail(Violation::new(
						"stale-id",
						"stale-clock-id-resolved-to-newcomer",
						"a sound waiting for a removed clock started when a new clock in the same slot reached the time".to_string(),
					));
					return res;
				}
			}
			let st = w.sounds[0].handle.as_ref().map(|h| h.state());
			if st != Some(PlaybackState::Stopped) {
				res.fail(Violation::new("stale-id", "waiting-sound-not-stopped", format!("the sound's clock is gone but it reports {st:?}")));
			}
		}
		1 => {
			// a sound's volume follows tweener M (silence); M is removed; tweener M' (unity) takes the slot
			w.exec(&Op::AddTweener { initial: 0.0 });
			w.exec(&Op::PlayStatic {
				track: None,
				data: dc(0.5),
				slice: None,
				settings: SoundSettingsSpec {
					volume: Val::Mod {
						m: 0,
						map: MapSpec {
							input: (0.0, 1.0),
							output: (Db(-60.0), Db(0.0)),
							easing: EasingSpec::Linear,
						},
					},
					..looped.clone()
				},
			});
			if !cbs(&mut w, gaps[0] + 1, &mut res) {
				return res;
			}
			w.exec(&Op::Drop { kind: Kind::Modulator, index: 0 });
			if !cbs(&mut w, gaps[1] + 1, &mut res) {
				return res;
			}
			let mut o = w.exec(&Op::AddTweener { initial: 1.0 });
			if !o.created {
				if !cbs(&mut w, 1, &mut res) {
					return res;
				}
				o = w.exec(&Op::AddTweener { initial: 1.0 });
			}
			if !o.created {
				res.fail(Violation::new("stale-id", "slot-not-freed", "the only modulator was dropped two callbacks ago but a new one is refused".to_string()));
				return res;
			}
			for _ in 0..gaps[3] + 3 {
				if !cbs(&mut w, 1, &mut res) {
					return res;
				}
				// linked to the old modulator at value 0 -> -60 dB -> silence; must hold that
				if w.out.iter().any(|s| *s != 0.0) {
					res.fail(Violation::new(
						"stale-id",
						"stale-modulator-id-resolved-to-newcomer",
						format!("a parameter linked to a removed modulator (last value: silence) follows the new modulator in its slot: output {}", w.out.iter().find(|s| **s != 0.0).unwrap()),
					));
					return res;
				}
			}
		}
		2 => {
			// track routed to send S (with a +offset probe... here: plain) ; S removed; S' takes the slot
			w.exec(&Op::AddSend { volume: fixed0, effects: vec![] });
			w.exec(&Op::AddTrack {
				parent: None,
				spec: TrackSpec {
					sends: vec![(0, fixed0)],
					..Default::default()
				},
				spatial: None,
			});
			w.exec(&Op::PlayStatic { track: Some(0), data: dc(0.25), slice: None, settings: looped.clone() });
			if !cbs(&mut w, gaps[0] + 1, &mut res) {
				return res;
			}
			// dry 0.25 + send 0.25
			if w.out.last().copied() != Some(0.5) {
				res.hit("stale_send_precondition_failed");
				return res;
			}
			w.exec(&Op::Drop { kind: Kind::Send, index: 0 });
			if !cbs(&mut w, gaps[1] + 1, &mut res) {
				return res;
			}
			let mut o = w.exec(&Op::AddSend { volume: fixed0, effects: vec![] });
			if !o.created {
				if !cbs(&mut w, 1, &mut res) {
					return res;
				}
				o = w.exec(&Op::AddSend { volume: fixed0, effects: vec![] });
			}
			if !o.created {
				res.fail(Violation::new("stale-id", "slot-not-freed", "the only send track was dropped two callbacks ago but a new one is refused".to_string()));
				return res;
			}
			for _ in 0..gaps[3] + 2 {
				if !cbs(&mut w, 1, &mut res) {
					return res;
				}
				if w.out.iter().any(|s| *s != 0.25) {
					res.fail(Violation::new(
						"stale-id",
						"stale-send-id-resolved-to-newcomer",
						format!("a route to a removed send track feeds the new send track in its slot: output {} instead of the dry 0.25", w.out[0]),
					));
					return res;
				}
			}
		}
		_ => {
			// spatial track bound to listener L; L removed; L' takes the slot: the track stays silent
			w.exec(&Op::AddListener {
				position: Val::Fixed(V3([0.0, 0.0, 0.0])),
				orientation: Val::Fixed(Q4([0.0, 0.0, 0.0, 1.0])),
			});
			w.exec(&Op::AddTrack {
				parent: None,
				spec: TrackSpec::default(),
				spatial: Some(SpatialSpec {
					listener: 0,
					position: Val::Fixed(V3([0.0, 0.0, 0.5])),
					distances: (1.0, 10.0),
					attenuation: Some(EasingSpec::Linear),
					strength: Val::Fixed(0.0),
				}),
			});
			w.exec(&Op::PlayStatic { track: Some(0), data: dc(0.5), slice: None, settings: looped.clone() });
			if !cbs(&mut w, gaps[0] + 1, &mut res) {
				return res;
			}
			if w.out.last().copied() != Some(0.5) {
				res.hit("stale_listener_precondition_failed");
				return res;
			}
			w.exec(&Op::Drop { kind: Kind::Listener, index: 0 });
			if !cbs(&mut w, gaps[1] + 1, &mut res) {
				return res;
			}
			let mk = Op::AddListener {
				position: Val::Fixed(V3([0.0, 0.0, 0.0])),
				orientation: Val::Fixed(Q4([0.0, 0.0, 0.0, 1.0])),
			};
			let mut o = w.exec(&mk);
			if !o.created {
				if !cbs(&mut w, 1, &mut res) {
					return res;
				}
				o = w.exec(&mk);
			}
			if !o.created {
				res.fail(Violation::new("stale-id", "slot-not-freed", "the only listener was dropped two callbacks ago but a new one is refused".to_string()));
				return res;
			}
			for _ in 0..gaps[3] + 2 {
				if !cbs(&mut w, 1, &mut res) {
					return res;
				}
				if w.out.iter().any(|s| *s != 0.0) {
					res.fail(Violation::new(
						"stale-id",
						"stale-listener-id-resolved-to-newcomer",
						"a spatial track whose listener was removed is audible through the new listener in the same slot".to_string(),
					));
					return res;
				}
			}
		}
	}
	for s in &w.out {
		trace.f32(*s);
	}
	res.hit(["stale_clock_cases", "stale_modulator_cases", "stale_send_cases", "stale_listener_cases"][kind.min(3) as usize]);
	res.callbacks = w.callbacks;
	res.frames = w.frames_rendered;
	res.nontrivial = true;
	let mut beh = Hasher64::new();
	beh.u64(kind as u64);
	beh.u64(gaps[0] as u64 * 16 + gaps[1] as u64 * 4 + gaps[3] as u64);
	beh.u64(ibs as u64);
	res.behaviour_sig = beh.finish();
	res.trace_hash = trace.finish();
	let _ = case;
	res
}

// ---------------------------------------------------------------------------
// stream sched
// ---------------------------------------------------------------------------

#[derive(Clone, Debug)]
struct Created {
	inv: u64,
	ret: u64,
	ok: bool,
	drop_inv: Option<u64>,
	drop_ret: Option<u64>,
}

fn run_sched(case: &Case, cap: usize, kind: u8, steps: &[u8], callbacks: usize, switch_prob: f64) -> CaseResult {
	let mut res = CaseResult::default();
	let sim = Sim::new(case.seed);
	sim.set_random_params(switch_prob, 0.05, 40_000);
	let manager = monitor::catch(move || {
		AudioManager::<SimBackend>::new(AudioManagerSettings {
			capacities: Capacities {
				sub_track_capacity: cap,
				clock_capacity: cap,
				..Default::default()
			},
			main_track_builder: kira::track::MainTrackBuilder::new().sound_capacity(cap),
			internal_buffer_size: 8,
			backend_settings: SimBackendSettings { sample_rate: 8000 },
		})
		.unwrap()
	});
	let Ok(mut manager) = manager else {
		sim.shutdown();
		return res;
	};
	let device = manager.backend_mut().device.clone();
	let created: Arc<Mutex<Vec<Created>>> = Arc::new(Mutex::new(vec![]));
	let queries: Arc<Mutex<Vec<(u64, u64, usize)>>> = Arc::new(Mutex::new(vec![]));
	let osps: Arc<Mutex<Vec<(u64, u64)>>> = Arc::new(Mutex::new(vec![]));
	let probes: Arc<Mutex<Vec<Arc<ProbeShared>>>> = Arc::new(Mutex::new(vec![]));
	let manager = Arc::new(Mutex::new(Some(manager)));
	let keep: Arc<Mutex<Vec<Box<dyn std::any::Any + Send>>>> = Arc::new(Mutex::new(vec![]));
	{
		let (sim2, created, queries, probes, manager) = (sim.clone(), created.clone(), queries.clone(), probes.clone(), manager.clone());
		let steps = steps.to_vec();
		let keep = keep.clone();
		sim.spawn_task(
			"gameplay",
			Role::Gameplay,
			Box::new(move || {
				let mut guard = manager.lock().unwrap();
				let m = guard.as_mut().unwrap();
				enum H {
					T(TrackHandle),
					C(kira::clock::ClockHandle),
					S(Arc<ProbeShared>),
				}
				let mut live: Vec<(usize, H)> = vec![];
				for s in steps {
					match s {
						0 | 1 => {
							let inv = sim2.stamp();
							let h = match kind {
								0 => {
									let mut b = TrackBuilder::new();
									let p = b.add_effect(ProbeEffectBuilder { gain: 1.0, offset: (0.0, 0.0) });
									probes.lock().unwrap().push(p);
									m.add_sub_track(b).ok().map(H::T)
								}
								1 => m.add_clock(kira::clock::ClockSpeed::TicksPerSecond(1.0)).ok().map(H::C),
								_ => m
									.play(ProbeSoundData { id: 1, amp: 0.0, finish_after: u64::MAX })
									.ok()
									.map(|p| {
										probes.lock().unwrap().push(p.clone());
										H::S(p)
									}),
							};
							let ret = sim2.stamp();
							let mut c = created.lock().unwrap();
							c.push(Created { inv, ret, ok: h.is_some(), drop_inv: None, drop_ret: None });
							if let Some(h) = h {
								live.push((c.len() - 1, h));
							}
						}
						2 => {
							if !live.is_empty() {
								let (idx, h) = live.remove(0);
								let inv = sim2.stamp();
								match h {
									H::S(p) => p.stop.store(true, Ordering::SeqCst),
									other => drop(other),
								}
								let ret = sim2.stamp();
								let mut c = created.lock().unwrap();
								c[idx].drop_inv = Some(inv);
								c[idx].drop_ret = Some(ret);
							}
						}
						_ => {
							let inv = sim2.stamp();
							let n = match kind {
								0 => m.num_sub_tracks(),
								1 => m.num_clocks(),
								_ => m.main_track().num_sounds(),
							};
							let ret = sim2.stamp();
							queries.lock().unwrap().push((inv, ret, n));
						}
					}
					kira::verif::yield_point("gameplay.between_ops");
				}
				// handles stay alive until the end of the run: only explicit drops mark resources for removal
				keep.lock().unwrap().push(Box::new(live.into_iter().map(|(_, h)| match h {
					H::T(t) => Box::new(t) as Box<dyn std::any::Any + Send>,
					H::C(c) => Box::new(c),
					H::S(s) => Box::new(s),
				}).collect::<Vec<_>>()));
			}),
		);
	}
	{
		let (sim2, osps) = (sim.clone(), osps.clone());
		sim.spawn_task(
			"audio",
			Role::Audio,
			Box::new(move || {
				let mut out = Vec::new();
				for _ in 0..callbacks {
					let inv = sim2.stamp();
					let r = device.on_start_processing();
					let ret = sim2.stamp();
					osps.lock().unwrap().push((inv, ret));
					if r.panic.is_some() {
						panic!("{}", r.panic.unwrap());
					}
					let _ = device.process_only(3, 2, &mut out);
				}
			}),
		);
	}
	sim.run_random();
	let mut violations: Vec<Violation> = vec![];
	for (role, name, msg) in sim.take_panics() {
		violations.push(Violation::new("no-panic", format!("task-panic: {}", panic_signature(&msg)), format!("{role:?} task {name} panicked: {msg}")));
	}
	let created_v = created.lock().unwrap().clone();
	let osps_v = osps.lock().unwrap().clone();
	let queries_v = queries.lock().unwrap().clone();
	// when must / may a dropped resource have been removed?
	let must_removed_by = |c: &Created| -> Option<u64> {
		let d = c.drop_ret?;
		// surely inserted by the end of the first callback that began after creation returned
		let j = osps_v.iter().position(|(inv, _)| *inv > c.ret)?;
		// surely removed by the end of the first callback after that which began after the drop returned
		let k = osps_v.iter().enumerate().position(|(k, (inv, _))| *inv > d && k > j)?;
		Some(osps_v[k].1)
	};
	let may_removed_from = |c: &Created| -> Option<u64> {
		let d = c.drop_inv?;
		// earliest: a callback that ends after the drop began, at which it could already be present
		let first_possible_insert = osps_v.iter().position(|(_, ret)| *ret > c.inv)?;
		let k = osps_v.iter().enumerate().position(|(k, (_, ret))| *ret > d && k > first_possible_insert)?;
		Some(osps_v[k].0)
	};
	for (ci, c) in created_v.iter().enumerate() {
		// resources certainly alive during the whole creation interval of `c`
		let definitely = created_v
			.iter()
			.enumerate()
			.filter(|(i, o)| *i != ci && o.ok && o.ret < c.inv && may_removed_from(o).map(|t| t > c.ret).unwrap_or(true))
			.count();
		let possibly = created_v
			.iter()
			.enumerate()
			.filter(|(i, o)| *i != ci && o.ok && o.inv < c.ret && must_removed_by(o).map(|t| t >= c.inv).unwrap_or(true))
			.count();
		if c.ok && definitely >= cap {
			violations.push(Violation::new(
				"interval-accounting",
				"created-beyond-capacity",
				format!("creation {ci} (stamps {}..{}) succeeded although {definitely} resources were certainly alive and the capacity is {cap}", c.inv, c.ret),
			));
		}
		if !c.ok && possibly < cap {
			violations.push(Violation::new(
				"interval-accounting",
				"refused-below-capacity",
				format!("creation {ci} (stamps {}..{}) was refused although at most {possibly} of {cap} slots could still be in use", c.inv, c.ret),
			));
		}
	}
	for (inv, ret, n) in &queries_v {
		let lo = created_v.iter().filter(|o| o.ok && o.ret < *inv && may_removed_from(o).map(|t| t > *ret).unwrap_or(true)).count();
		let hi = created_v.iter().filter(|o| o.ok && o.inv < *ret && must_removed_by(o).map(|t| t >= *inv).unwrap_or(true)).count();
		if *n < lo || *n > hi || *n > cap {
			violations.push(Violation::new(
				"interval-accounting",
				"reported-count-wrong",
				format!("count query (stamps {inv}..{ret}) returned {n}; between {lo} and {hi} resources can be alive, capacity {cap}"),
			));
		}
	}
	// quiescence: two more callbacks, then exact accounting
	let mut out = Vec::new();
	let mut guard = manager.lock().unwrap();
	let m = guard.as_mut().unwrap();
	let dev = m.backend_mut().device.clone();
	for _ in 0..2 {
		let rep = dev.callback(3, 2, &mut out);
		if let Some(p) = rep.panic {
			violations.push(Violation::new("no-panic", format!("audio-panic: {}", panic_signature(&p)), p));
		}
	}
	let alive = created_v.iter().filter(|c| c.ok && c.drop_ret.is_none()).count();
	let n = match kind {
		0 => m.num_sub_tracks(),
		1 => m.num_clocks(),
		_ => m.main_track().num_sounds(),
	};
	if n != alive {
		violations.push(Violation::new("interval-accounting", "count-after-quiescence-wrong", format!("after everything settled the manager reports {n} resources, {alive} were created and not dropped")));
	}
	let capped = sim.capped();
	let mut trace = Hasher64::new();
	trace.u64(sim.trace_hash());
	trace.u64(n as u64);
	res.count("creations", created_v.len() as u64);
	res.count("creations_refused", created_v.iter().filter(|c| !c.ok).count() as u64);
	res.count("context_switches", sim.switches());
	res.count(
		"creations_overlapping_a_callback",
		created_v.iter().filter(|c| osps_v.iter().any(|(i, r)| *i < c.ret && *r > c.inv)).count() as u64,
	);
	res.inconclusive = capped;
	res.nontrivial = created_v.iter().any(|c| c.ok);
	res.callbacks = callbacks as u64 + 2;
	let mut beh = Hasher64::new();
	beh.u64(sim.trace_hash());
	drop(guard);
	drop(dev);
	keep.lock().unwrap().clear();
	*manager.lock().unwrap() = None;
	sim.shutdown();
	for p in probes.lock().unwrap().iter() {
		if !p.dropped.load(Ordering::SeqCst) {
			violations.push(Violation::new("destruction", "payload-never-destroyed", "a probe payload was never dropped".to_string()));
			break;
		}
		if *p.dropped_by.lock().unwrap() == Some(Role::Audio) {
			violations.push(Violation::new("destruction", "payload-destroyed-on-audio-thread", "a probe payload was dropped in the audio role".to_string()));
			break;
		}
	}
	if let Some(v) = violations.into_iter().next() {
		res.fail(v);
	}
	res.behaviour_sig = beh.finish();
	res.trace_hash = trace.finish();
	res
}

fn run_failing_plays(target: u8, n: usize, cap: usize, callbacks_between: usize) -> CaseResult {
	let mut res = CaseResult::default();
	let manager = monitor::catch(move || {
		AudioManager::<SimBackend>::new(AudioManagerSettings {
			main_track_builder: kira::track::MainTrackBuilder::new().sound_capacity(cap),
			internal_buffer_size: 16,
			backend_settings: SimBackendSettings { sample_rate: 8000 },
			..Default::default()
		})
		.unwrap()
	});
	let Ok(mut manager) = manager else { return res };
	let device = manager.backend_mut().device.clone();
	enum T {
		Main,
		Plain(TrackHandle),
		Spatial(kira::track::SpatialTrackHandle),
	}
	let mut keep: Vec<Box<dyn std::any::Any>> = vec![];
	let built = monitor::catch(|| -> T {
		match target {
			0 => T::Main,
			1 => T::Plain(manager.add_sub_track(TrackBuilder::new().sound_capacity(cap)).unwrap()),
			2 => {
				let l = manager.add_listener(glam::Vec3::ZERO, glam::Quat::IDENTITY).unwrap();
				let t = manager.add_spatial_sub_track(&l, glam::Vec3::X, kira::track::SpatialTrackBuilder::new().sound_capacity(cap)).unwrap();
				keep.push(Box::new(l));
				T::Spatial(t)
			}
			_ => {
				let l = manager.add_listener(glam::Vec3::ZERO, glam::Quat::IDENTITY).unwrap();
				let mut p = manager.add_sub_track(TrackBuilder::new()).unwrap();
				let t = p.add_spatial_sub_track(&l, glam::Vec3::X, kira::track::SpatialTrackBuilder::new().sound_capacity(cap)).unwrap();
				keep.push(Box::new(l));
				keep.push(Box::new(p));
				T::Spatial(t)
			}
		}
	});
	let Ok(mut t) = built else {
		res.fail(Violation::new("no-panic", "construction-panicked", "building the target track panicked".to_string()));
		return res;
	};
	let mut out = Vec::new();
	let count = |m: &mut AudioManager<SimBackend>, t: &T| -> usize {
		match t {
			T::Main => m.main_track().num_sounds(),
			T::Plain(h) => h.num_sounds(),
			T::Spatial(h) => h.num_sounds(),
		}
	};
	let name = ["the main track", "a sub-track", "a spatial sub-track", "a spatial track nested in a sub-track"][target as usize % 4];
	for k in 0..n {
		let r = monitor::catch(|| match &mut t {
			T::Main => manager.play(FailingSoundData).is_err(),
			T::Plain(h) => h.play(FailingSoundData).is_err(),
			T::Spatial(h) => h.play(FailingSoundData).is_err(),
		});
		match r {
			Ok(true) => {}
			Ok(false) => {
				res.fail(Violation::new("capacity-accounting", "failing-sound-accepted", format!("play() of a sound whose into_sound() fails returned Ok on {name}")));
				return res;
			}
			Err(p) => {
				res.fail(Violation::new("no-panic", format!("creation-panicked: {}", panic_signature(&p)), format!("failing play on {name} panicked: {p}")));
				return res;
			}
		}
		for _ in 0..callbacks_between {
			let _ = device.callback(16, 2, &mut out);
		}
		let c = count(&mut manager, &t);
		if c != 0 {
			res.fail(Violation::new(
				"capacity-accounting",
				"failed-play-uses-a-slot",
				format!("after {} play() call(s) that failed inside into_sound(), {name} reports {c} sounds (capacity {cap}); nothing was created", k + 1),
			));
			return res;
		}
	}
	// the whole capacity is still there
	let mut handles = vec![];
	for k in 0..cap + 1 {
		let data = ProbeSoundData { id: k as u32 + 1, amp: 0.01, finish_after: u64::MAX };
		let r = monitor::catch(|| match &mut t {
			T::Main => manager.play(data),
			T::Plain(h) => h.play(data),
			T::Spatial(h) => h.play(data),
		});
		let Ok(r) = r else {
			res.fail(Violation::new("no-panic", "creation-panicked", format!("play on {name} panicked")));
			return res;
		};
		if r.is_ok() != (k < cap) {
			res.fail(Violation::new(
				"capacity-accounting",
				if r.is_ok() { "created-beyond-capacity" } else { "refused-below-capacity" },
				format!("after {n} failed plays on {name} (capacity {cap}), real play number {} {}", k + 1, if r.is_ok() { "succeeded" } else { "was refused" }),
			));
			return res;
		}
		if let Ok(h) = r {
			handles.push(h);
		}
	}
	res.hit("failing_play_scenarios");
	res.hit(&format!("failing_play.target{target}"));
	res.nontrivial = true;
	res.callbacks = (n * callbacks_between) as u64;
	res.behaviour_sig = (target as u64) << 16 | (n as u64) << 8 | cap as u64 | (callbacks_between as u64) << 24;
	res.trace_hash = res.behaviour_sig;
	drop(handles);
	drop(t);
	drop(keep);
	res
}

pub fn run_case(case: &Case) -> CaseResult {
	match &case.stream {
		Stream::FailingPlays { target, n, cap, callbacks_between } => run_failing_plays(*target, *n, *cap, *callbacks_between),
		Stream::Ops { caps, ops } => run_ops(case, caps, ops),
		Stream::Stale { kind, gaps, ibs } => run_stale(case, *kind, gaps, *ibs),
		Stream::Sched { cap, kind, steps, callbacks, switch_prob } => run_sched(case, *cap, *kind, steps, *callbacks, *switch_prob),
	}
}

pub struct C08;

impl Check for C08 {
	fn info(&self) -> CheckInfo {
		CheckInfo {
			id: "C08",
			level: "exploration",
			rule: "four streams. failing plays (1/16): n plays that fail inside into_sound() on the main track / a sub-track / a spatial sub-track / a spatial track nested in a sub-track (no slot may be used up), then the track is filled to its capacity; ops (1/2): seeded history over create / drop / finish / play-a-sound-whose-into_sound-fails / callback for sub-tracks, nested tracks, send tracks, clocks, modulators, listeners, main-track sounds and track sounds at capacities drawn from {0, 1, 2, 3, 5}, counts queried after every op; stale (1/4): one-slot arenas, an id (clock / modulator / send track / listener) is left dangling while a newcomer takes the slot, with seeded numbers of callbacks between the steps; sched (1/4): gameplay task (create / drop / count on a capacity-1..3 arena of tracks, clocks or sounds) against an audio task under seeded random schedules at the yield points in try_reserve, insert_with_key, remove_and_add and remove_unused; non-trivial = at least one resource created; distinct = hash of the occupancy sequence (ops), of the scenario parameters (stale), of the yield trace (sched)",
			assumptions: vec![
				"tracks are dropped together with the handles of their nested tracks (other orders and persist_until_sounds_finish belong to C12)".into(),
				"sched stream: a removal is an interval (invoke..return of the audio-side step); creation must succeed if even the latest admissible removals leave a free slot and must fail if even the earliest admissible ones do not".into(),
				"atomic-arena and rtrb operations are atomic steps in the simulation".into(),
			],
			components: vec![
				("ResourceController / ResourceStorage / SelfReferentialResourceStorage, AudioManager::add_* / play / num_*, handle Drop impls, Info id lookups", "real"),
				("sound / effect payloads", "stub (probe Sound / Effect recording the dropping role)"),
				("audio device, thread scheduler (sched stream)", "stub / simulated"),
			],
		}
	}
	fn num_cases(&self, tier: Tier) -> u64 {
		match tier {
			Tier::Quick => 40_000,
			Tier::Thorough => 1_200_000,
		}
	}
	fn case(&self, tier: Tier, seed: u64, index: u64) -> Json {
		serde_json::to_value(gen_case(derive_seed(seed, 8, index), index, tier)).unwrap()
	}
	fn run(&self, case: &Json) -> CaseResult {
		let case: Case = serde_json::from_value(case.clone()).expect("malformed C08 case");
		run_case(&case)
	}
	fn shrink(&self, case: &Json) -> Vec<Json> {
		let c: Case = serde_json::from_value(case.clone()).unwrap();
		let mut out = vec![];
		match &c.stream {
			Stream::Ops { caps, ops } => {
				let wrapped = serde_json::json!({ "ops": ops });
				for v in shrink_ops_array(&wrapped, "ops") {
					let ops: Vec<ROp> = serde_json::from_value(v["ops"].clone()).unwrap();
					out.push(serde_json::to_value(Case { stream: Stream::Ops { caps: *caps, ops }, ..c.clone() }).unwrap());
				}
			}
			Stream::Sched { cap, kind, steps, callbacks, switch_prob } => {
				for i in 0..steps.len() {
					let mut s = steps.clone();
					s.remove(i);
					out.push(serde_json::to_value(Case { stream: Stream::Sched { cap: *cap, kind: *kind, steps: s, callbacks: *callbacks, switch_prob: *switch_prob }, ..c.clone() }).unwrap());
				}
				if *callbacks > 1 {
					out.push(serde_json::to_value(Case { stream: Stream::Sched { cap: *cap, kind: *kind, steps: steps.clone(), callbacks: callbacks - 1, switch_prob: *switch_prob }, ..c.clone() }).unwrap());
				}
			}
			_ => {}
		}
		out
	}
}
