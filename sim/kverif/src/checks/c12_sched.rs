//! C12, scheduled stream: the removal decision against a racing owner.
//!
//! A gameplay task adds child tracks / plays sounds on a parent track and then
//! drops the parent's handle, while an audio task runs callbacks; both are
//! preempted at kira's yield points (resource rings, the `removed` flag) by the
//! seeded scheduler. Once both tasks are done three more callbacks run
//! undisturbed and the quiescent state is judged: a child whose handle is alive
//! must still be processed (its parent was not removed under it), and a sound
//! accepted by a persisting parent must still be played.

use std::sync::{Arc, Mutex};

use kira::{
	track::{TrackBuilder, TrackHandle},
	AudioManager, AudioManagerSettings,
};
use serde::{Deserialize, Serialize};

use crate::{
	backend::{SimBackend, SimBackendSettings},
	core::*,
	monitor::{self, panic_signature, Role},
	probes::*,
	rng::{Hasher64, Rng},
	sched::Sim,
};

#[derive(Clone, Debug, Serialize, Deserialize)]
pub struct SchedCase {
	pub seed: u64,
	pub persist: bool,
	/// callbacks run before the race so that the parent is already with the audio thread
	pub warm: usize,
	/// 0: add a child track (handle kept), 1: play a never-ending probe sound on the parent,
	/// 2: drop the parent's handle, 3: a yield only
	pub steps: Vec<u8>,
	pub callbacks: usize,
	pub switch_prob: f64,
	/// Some(n): instead of the ownership race, a reader task polls `TrackHandle::state()` n times
	/// while the audio thread cancels a resume whose clock has been removed
	#[serde(default)]
	pub state_reads: Option<usize>,
}

pub fn gen(rng: &mut Rng, _tier: Tier) -> SchedCase {
	let mut steps: Vec<u8> = (0..rng.urange(1, 4)).map(|_| *rng.pick(&[0u8, 0, 1, 3])).collect();
	steps.push(2);
	if rng.chance(0.3) {
		steps.push(3);
	}
	SchedCase {
		seed: rng.next_u64(),
		persist: rng.chance(0.5),
		warm: rng.usize_below(3),
		steps,
		callbacks: rng.urange(1, 5),
		switch_prob: *rng.pick(&[0.03, 0.1, 0.3, 0.6, 0.9]),
		state_reads: if rng.chance(0.3) { Some(rng.urange(2, 12)) } else { None },
	}
}

/// The track waits to resume at a clock time; the clock is removed; the audio thread notices in its
/// next callback while a reader polls `state()`: it must see Paused / WaitingToResume, never panic.
fn run_state_race(case: &SchedCase, reads: usize) -> CaseResult {
	use kira::{clock::ClockSpeed, clock::ClockTime, track::TrackPlaybackState, StartTime, Tween};
	let mut res = CaseResult::default();
	let sim = Sim::new(case.seed);
	sim.set_random_params(case.switch_prob, 0.2, 60_000);
	let manager = monitor::catch(|| {
		AudioManager::<SimBackend>::new(AudioManagerSettings {
			internal_buffer_size: 8,
			backend_settings: SimBackendSettings { sample_rate: 8000 },
			..Default::default()
		})
		.unwrap()
	});
	let Ok(mut manager) = manager else {
		sim.shutdown();
		return res;
	};
	let device = manager.backend_mut().device.clone();
	let instant = Tween {
		duration: std::time::Duration::ZERO,
		..Default::default()
	};
	let built = monitor::catch(|| {
		let clock = manager.add_clock(ClockSpeed::TicksPerSecond(10.0)).unwrap();
		let mut track = manager.add_sub_track(TrackBuilder::new()).unwrap();
		track.pause(instant);
		(clock, track)
	});
	let Ok((clock, mut track)) = built else {
		sim.shutdown();
		return res;
	};
	let mut out = Vec::new();
	let _ = device.callback(8, 2, &mut out);
	track.resume_at(
		StartTime::ClockTime(ClockTime {
			clock: clock.id(),
			ticks: 1000,
			fraction: 0.0,
		}),
		instant,
	);
	for _ in 0..1 + case.warm {
		let _ = device.callback(8, 2, &mut out);
	}
	drop(clock);
	let seen: Arc<Mutex<Vec<TrackPlaybackState>>> = Arc::new(Mutex::new(vec![]));
	let track = Arc::new(Mutex::new(Some(track)));
	{
		let (track, seen) = (track.clone(), seen.clone());
		sim.spawn_task(
			"reader",
			Role::Gameplay,
			Box::new(move || {
				let g = track.lock().unwrap();
				for _ in 0..reads {
					seen.lock().unwrap().push(g.as_ref().unwrap().state());
					kira::verif::yield_point("reader.between_reads");
				}
			}),
		);
	}
	{
		let (device, n) = (device.clone(), case.callbacks);
		sim.spawn_task(
			"audio",
			Role::Audio,
			Box::new(move || {
				let mut out = Vec::new();
				for _ in 0..n {
					let rep = device.callback(8, 2, &mut out);
					if let Some(p) = rep.panic {
						panic!("{p}");
					}
					kira::verif::yield_point("audio.between_callbacks");
				}
			}),
		);
	}
	sim.run_random();
	res.count("context_switches", sim.switches());
	if sim.capped() {
		res.inconclusive = true;
	}
	for (role, name, msg) in sim.take_panics() {
		res.fail(Violation::new(
			"no-panic",
			format!("task-panic: {}", panic_signature(&msg)),
			format!("{role:?} task {name} panicked: {msg} (a reader polling TrackHandle::state() while the audio thread cancels a resume_at whose clock was removed)"),
		));
	}
	let _ = device.callback(8, 2, &mut out);
	// (the reader holds this lock while it polls: a panic inside state() poisons it)
	let g = track.lock().unwrap_or_else(|e| e.into_inner());
	let final_state = monitor::catch(|| g.as_ref().unwrap().state());
	if res.violation.is_none() {
		match final_state {
			Ok(TrackPlaybackState::Paused) => {}
			other => res.fail(Violation::new(
				"state",
				"cancelled-resume-does-not-leave-the-track-paused",
				format!("after the clock of a pending resume_at was removed the track reports {other:?}, expected Paused"),
			)),
		}
		for st in seen.lock().unwrap_or_else(|e| e.into_inner()).iter() {
			if !matches!(st, TrackPlaybackState::Paused | TrackPlaybackState::WaitingToResume) {
				res.fail(Violation::new("state", "impossible-state-seen", format!("a concurrent reader saw {st:?} on a track that is waiting to resume / paused")));
				break;
			}
		}
	}
	res.count("concurrent_state_reads", seen.lock().unwrap_or_else(|e| e.into_inner()).len() as u64);
	res.nontrivial = true;
	res.callbacks = (3 + case.warm + case.callbacks) as u64;
	res.hit("type.sched_state_race");
	res.trace_hash = sim.trace_hash();
	res.behaviour_sig = sim.trace_hash() ^ 0x5157;
	drop(g);
	drop(manager);
	sim.shutdown();
	res
}

pub fn run(case: &SchedCase) -> CaseResult {
	if let Some(n) = case.state_reads {
		return run_state_race(case, n);
	}
	let mut res = CaseResult::default();
	let mut beh = Hasher64::new();
	let sim = Sim::new(case.seed);
	sim.set_random_params(case.switch_prob, 0.1, 60_000);
	let manager = monitor::catch(|| {
		AudioManager::<SimBackend>::new(AudioManagerSettings {
			internal_buffer_size: 8,
			backend_settings: SimBackendSettings { sample_rate: 8000 },
			..Default::default()
		})
		.unwrap()
	});
	let Ok(mut manager) = manager else {
		sim.shutdown();
		return res;
	};
	let device = manager.backend_mut().device.clone();
	let persist = case.persist;
	let parent = monitor::catch(|| manager.add_sub_track(TrackBuilder::new().persist_until_sounds_finish(persist).sub_track_capacity(8).sound_capacity(8)));
	let Ok(Ok(parent)) = parent else {
		sim.shutdown();
		return res;
	};
	let mut out = Vec::new();
	for _ in 0..case.warm {
		let _ = device.callback(8, 2, &mut out);
	}
	struct Shared {
		parent: Option<TrackHandle>,
		children: Vec<(TrackHandle, Arc<ProbeShared>)>,
		sounds: Vec<Arc<ProbeShared>>,
	}
	let shared = Arc::new(Mutex::new(Shared {
		parent: Some(parent),
		children: vec![],
		sounds: vec![],
	}));
	{
		let (shared, steps) = (shared.clone(), case.steps.clone());
		sim.spawn_task(
			"gameplay",
			Role::Gameplay,
			Box::new(move || {
				let mut g = shared.lock().unwrap();
				for s in steps {
					match s {
						0 => {
							let mut b = TrackBuilder::new();
							let p = b.add_effect(ProbeEffectBuilder { gain: 1.0, offset: (0.0, 0.0) });
							if let Some(Ok(h)) = g.parent.as_mut().map(|t| t.add_sub_track(b)) {
								g.children.push((h, p));
							}
						}
						1 => {
							if let Some(Ok(p)) = g.parent.as_mut().map(|t| {
								t.play(ProbeSoundData {
									id: 7,
									amp: 0.01,
									finish_after: u64::MAX,
								})
							}) {
								g.sounds.push(p);
							}
						}
						2 => {
							g.parent = None;
						}
						_ => {}
					}
					kira::verif::yield_point("gameplay.between_ops");
				}
			}),
		);
	}
	{
		let (device, n) = (device.clone(), case.callbacks);
		sim.spawn_task(
			"audio",
			Role::Audio,
			Box::new(move || {
				let mut out = Vec::new();
				for _ in 0..n {
					let rep = device.callback(8, 2, &mut out);
					if let Some(p) = rep.panic {
						panic!("{p}");
					}
					kira::verif::yield_point("audio.between_callbacks");
				}
			}),
		);
	}
	sim.run_random();
	res.count("context_switches", sim.switches());
	if sim.capped() {
		res.inconclusive = true;
	}
	for (role, name, msg) in sim.take_panics() {
		res.fail(Violation::new("no-panic", format!("task-panic: {}", panic_signature(&msg)), format!("{role:?} task {name} panicked: {msg}")));
	}
	// quiescence: three undisturbed callbacks, the last one is judged
	let g = shared.lock().unwrap();
	for k in 0..3 {
		if k == 2 {
			for (_, p) in &g.children {
				p.take_calls();
			}
			for p in &g.sounds {
				p.take_calls();
			}
		}
		let rep = device.callback(8, 2, &mut out);
		if let Some(p) = rep.panic {
			res.fail(Violation::new("no-panic", format!("audio-panic: {}", panic_signature(&p)), p));
		}
	}
	if res.violation.is_none() && !res.inconclusive {
		for (i, (_, p)) in g.children.iter().enumerate() {
			if p.take_calls().is_empty() {
				res.fail(Violation::new(
					"removal-rules",
					"live-child-track-lost",
					format!(
						"child track {i} (handle alive, added to the parent before the parent's handle was dropped) is no longer processed after the race: its parent was removed while it was alive (steps {:?}, persist {}, {} warm-up callbacks)",
						case.steps, case.persist, case.warm
					),
				));
				break;
			}
			res.hit("live_children_checked");
		}
		// (a sound on the parent is only guaranteed to go on if the parent persists or is kept by a live child)
		let parent_kept = case.persist || !g.children.is_empty();
		if res.violation.is_none() && parent_kept {
			for (i, p) in g.sounds.iter().enumerate() {
				if p.take_calls().is_empty() {
					res.fail(Violation::new(
						"removal-rules",
						"accepted-sound-lost",
						format!(
							"sound {i} was accepted by play() on a track that must outlive its handle ({}), but it is not being played after the race (steps {:?}, {} warm-up callbacks)",
							if case.persist { "persist_until_sounds_finish" } else { "a child track is alive" },
							case.steps,
							case.warm
						),
					));
					break;
				}
				res.hit("accepted_sounds_checked");
			}
		}
	}
	beh.u64(sim.trace_hash());
	beh.u64(g.children.len() as u64 * 8 + g.sounds.len() as u64);
	res.nontrivial = !g.children.is_empty() || !g.sounds.is_empty();
	res.callbacks = (case.warm + case.callbacks + 3) as u64;
	res.hit("type.sched_ownership");
	res.trace_hash = sim.trace_hash();
	res.behaviour_sig = beh.finish();
	drop(g);
	drop(manager);
	sim.shutdown();
	res
}
