//! C15 - spatial tracks: loudness from distance, balance from direction, needs a listener.
//!
//! By simulation (histories on the simulated device): listener add / drop
//! histories, position tweens of listener and emitter, nested spatial and
//! non-spatial tracks, and `FromListenerDistance` parameters on probe effects of
//! the track and its descendants: silent iff the listener does not exist, the
//! linked parameter equals the mapping of the current emitter-listener distance
//! in the same chunk, finite output for every finite input (coincident points,
//! equal / inverted distance ranges, zero quaternion).
//! As cross-run invariants over generated geometry (plain input generation,
//! stated as such): unity within the minimum distance, zero beyond the maximum,
//! non-increasing attenuation, ear gains in [1 - strength, 1], the nearer ear
//! favoured, mirror swap, rigid-motion invariance, strength 0 passes stereo.

use std::sync::{atomic::Ordering, Arc, Mutex};

use glam::{Quat, Vec3};
use kira::{
	effect::{Effect, EffectBuilder},
	info::Info,
	sound::static_sound::{StaticSoundData, StaticSoundSettings},
	track::{SpatialTrackBuilder, SpatialTrackDistances, SpatialTrackHandle, TrackBuilder},
	AudioManager, AudioManagerSettings, Frame, Mapping, Parameter, Tween, Value,
};
use serde::{Deserialize, Serialize};
use serde_json::Value as Json;

use crate::{
	backend::{Device, SimBackend, SimBackendSettings},
	core::*,
	monitor::{self, panic_signature, Disarm},
	rng::{derive_seed, Hasher64, Rng},
	spec::*,
};

#[derive(Clone, Copy, Debug, Serialize, Deserialize, PartialEq)]
pub struct Geo {
	pub listener: [f32; 3],
	pub rot: [f32; 4],
	pub emitter: [f32; 3],
	pub distances: (f32, f32),
	pub attenuation: Option<EasingSpec>,
	pub strength: f32,
}

#[derive(Clone, Debug, Serialize, Deserialize, PartialEq)]
pub enum HOp {
	AddListener { pos: [f32; 3] },
	DropListener,
	MoveListener { pos: [f32; 3], dur: f64 },
	MoveEmitter { pos: [f32; 3], dur: f64 },
	Callback { frames: usize },
	/// stop the sound with a fade of that many seconds: it must get there, listener or no listener
	StopSound { fade: f64 },
	/// schedule a jump of the listener for later (`StartTime::Delayed`): until then it stays where
	/// it is (a move in progress is replaced, i.e. stands still)
	MoveListenerLater { pos: [f32; 3], delay: f64 },
	/// tell the listener to stay where it is, instantly: whatever was pending is cancelled
	HoldListener,
}

#[derive(Clone, Debug, Serialize, Deserialize)]
pub enum Stream {
	Geometry { geo: Geo, relation: u8, aux: [f32; 4] },
	History {
		ops: Vec<HOp>,
		ibs: usize,
		nested: bool,
		map_in: (f64, f64),
		/// the track's probe parameter is linked to the listener distance only at its n-th
		/// process call, by a set() with a tween of that many seconds
		#[serde(default)]
		relink: Option<(u64, f64)>,
		/// no attenuation function and spatialization strength 0: the track passes its input through -
		/// but still needs its listener
		#[serde(default)]
		pass_through: bool,
		/// the spatial track's probe effect adds a signal of its own to every frame
		#[serde(default)]
		emit: bool,
	},
	/// a spatial track (listener B, emitter e2) inside - optionally through a plain track -
	/// a spatial track (listener A, emitter e1); the listeners may be dropped
	/// the listener turns its head between two orientations given by quaternions of either sign
	/// (q and -q are the same rotation) while the emitter stays on its right
	Turn { a_deg: f32, target: u8, dur_chunks: usize, ibs: usize },
	/// the listener glides away from (or towards) the emitter over several internal buffers: the
	/// level changes smoothly, frame by frame, not in steps at the buffer boundaries
	Glide { ibs: usize, from: f32, to: f32, chunks: usize },
	/// listener, spatial track and sound added while the audio thread runs (c15_sched.rs)
	Sched(super::c15_sched::SchedCase),
	Nested { a: [f32; 3], b: [f32; 3], e1: [f32; 3], e2: [f32; 3], drop_a: Option<usize>, drop_b: Option<usize>, callbacks: usize, ibs: usize, mid_plain: bool },
}

#[derive(Clone, Debug, Serialize, Deserialize)]
pub struct Case {
	pub seed: u64,
	pub stream: Stream,
}

fn rand_quat(rng: &mut Rng) -> [f32; 4] {
	let (a, b, c, d) = (rng.frange(-1.0, 1.0), rng.frange(-1.0, 1.0), rng.frange(-1.0, 1.0), rng.frange(-1.0, 1.0));
	let n = (a * a + b * b + c * c + d * d).sqrt().max(1e-3);
	[(a / n) as f32, (b / n) as f32, (c / n) as f32, (d / n) as f32]
}

fn gen_case(seed: u64, index: u64, tier: Tier) -> Case {
	let mut rng = Rng::new(seed);
	let v3 = |rng: &mut Rng, r: f64| -> [f32; 3] { [rng.frange(-r, r) as f32, rng.frange(-r, r) as f32, rng.frange(-r, r) as f32] };
	let stream = if index % 24 == 17 {
		Stream::Sched(super::c15_sched::gen(&mut rng))
	} else if index % 24 == 23 {
		Stream::Glide {
			ibs: *rng.pick(&[64usize, 250, 512]),
			from: rng.frange(0.0, 8.0) as f32,
			to: rng.frange(20.0, 45.0) as f32,
			chunks: rng.urange(2, 6),
		}
	} else if index % 12 == 11 {
		Stream::Turn {
			a_deg: rng.frange(1.0, 35.0) as f32,
			target: rng.below(4) as u8,
			dur_chunks: rng.usize_below(4),
			ibs: *rng.pick(&[4usize, 32, 128]),
		}
	} else if index % 6 == 5 {
		let callbacks = rng.urange(3, 8);
		Stream::Nested {
			a: v3(&mut rng, 5.0),
			b: v3(&mut rng, 5.0),
			e1: v3(&mut rng, 10.0),
			e2: v3(&mut rng, 10.0),
			drop_a: if rng.chance(0.3) { Some(rng.usize_below(callbacks)) } else { None },
			drop_b: if rng.chance(0.4) { Some(rng.usize_below(callbacks)) } else { None },
			callbacks,
			ibs: *rng.pick(&[4usize, 32, 128]),
			mid_plain: rng.chance(0.5),
		}
	} else if index % 3 != 2 {
		let edge = rng.chance(0.2);
		let any_strength = rng.f64() as f32;
		let geo = Geo {
			listener: if edge { [0.0, 0.0, 0.0] } else { v3(&mut rng, 10.0) },
			rot: if rng.chance(0.3) { [0.0, 0.0, 0.0, 1.0] } else { rand_quat(&mut rng) },
			emitter: if edge && rng.chance(0.5) { [0.0, 0.0, 0.0] } else { v3(&mut rng, 30.0) },
			distances: match rng.below(6) {
				0 => (1.0, 100.0),
				1 => (5.0, 5.0),
				2 => (10.0, 1.0),
				3 => (0.0, 1.0),
				_ => {
					let a = rng.frange(0.1, 10.0) as f32;
					(a, a + rng.frange(0.5, 60.0) as f32)
				}
			},
			attenuation: if rng.chance(0.2) { None } else { Some(EasingSpec::gen(&mut rng)) },
			strength: *rng.pick(&[0.0f32, 0.75, 1.0, 0.3, any_strength]),
		};
		// (edge: the emitter exactly at one of the listener's ears, 0.1 to either side of its position)
		let mut geo = geo;
		// (edge: the same orientation given as a quaternion that is not of unit length)
		if rng.chance(0.06) {
			let k = *rng.pick(&[1.05f32, 2.0, 0.5, 3.0]);
			for c in geo.rot.iter_mut() {
				*c *= k;
			}
		}
		if rng.chance(0.06) {
			let q = Quat::from_xyzw(geo.rot[0], geo.rot[1], geo.rot[2], geo.rot[3]);
			let side = if rng.chance(0.5) { Vec3::X } else { Vec3::NEG_X };
			geo.emitter = (Vec3::from(geo.listener) + q * (side * 0.1)).into();
		}
		Stream::Geometry {
			geo,
			relation: rng.below(6) as u8,
			aux: [rng.f64() as f32, rng.f64() as f32, rng.f64() as f32, rng.f64() as f32],
		}
	} else {
		let ibs = *rng.pick(&[4usize, 32, 128]);
		let unit = ibs as f64 / 8000.0;
		let n = rng.urange(5, if tier == Tier::Quick { 24 } else { 60 });
		let mut ops = vec![HOp::AddListener { pos: v3(&mut rng, 5.0) }];
		while ops.len() < n {
			ops.push(match rng.below(11) {
				10 => HOp::StopSound {
					fade: *rng.pick(&[0.0, 2.0 * unit, 6.0 * unit]),
				},
				0 => HOp::DropListener,
				1 => HOp::AddListener { pos: v3(&mut rng, 5.0) },
				2 | 3 => HOp::MoveListener {
					pos: v3(&mut rng, 20.0),
					dur: *rng.pick(&[0.0, 3.0 * unit, 10.0 * unit]),
				},
				4 | 5 => HOp::MoveEmitter {
					pos: v3(&mut rng, 20.0),
					dur: *rng.pick(&[0.0, 3.0 * unit, 10.0 * unit]),
				},
				_ => HOp::Callback {
					frames: if rng.chance(0.6) { ibs } else { rng.urange(1, 3 * ibs) },
				},
			});
			// a scheduled move that is cancelled a callback later by "stay where you are"
			if rng.chance(0.06) {
				ops.push(HOp::MoveListenerLater {
					pos: v3(&mut rng, 20.0),
					delay: *rng.pick(&[4.0 * unit, 6.0 * unit, 12.0 * unit]),
				});
				ops.push(HOp::Callback { frames: ibs });
				ops.push(HOp::HoldListener);
			}
		}
		ops.push(HOp::Callback { frames: ibs });
		ops.push(HOp::Callback { frames: ibs });
		Stream::History {
			ops,
			ibs,
			nested: rng.chance(0.5),
			map_in: *rng.pick(&[(0.0, 30.0), (1.0, 10.0), (20.0, 2.0)]),
			relink: if rng.chance(0.4) { Some((rng.below(4), *rng.pick(&[0.0, 2.0 * unit, 5.0 * unit]))) } else { None },
			pass_through: rng.chance(0.3),
			emit: rng.chance(0.4),
		}
	};
	Case { seed, stream }
}

fn manager(ibs: usize) -> Option<AudioManager<SimBackend>> {
	monitor::catch(move || {
		AudioManager::<SimBackend>::new(AudioManagerSettings {
			internal_buffer_size: ibs,
			backend_settings: SimBackendSettings { sample_rate: 8000 },
			..Default::default()
		})
		.unwrap()
	})
	.ok()
}

fn dc(l: f32, r: f32) -> StaticSoundData {
	StaticSoundData {
		sample_rate: 8000,
		frames: vec![Frame::new(l, r); 8].into(),
		settings: StaticSoundSettings::new().loop_region(0.0..),
		slice: None,
	}
}

/// Renders one static scene and returns the (left, right) output level of a DC input (l, r).
fn render_geo(geo: &Geo, input: (f32, f32)) -> Result<(f32, f32), String> {
	let Some(mut m) = manager(32) else { return Err("manager".into()) };
	let device: Device = m.backend_mut().device.clone();
	let g = *geo;
	monitor::catch(move || {
		let listener = m
			.add_listener(Vec3::from(g.listener), Quat::from_xyzw(g.rot[0], g.rot[1], g.rot[2], g.rot[3]))
			.unwrap();
		let mut t = m
			.add_spatial_sub_track(
				&listener,
				Vec3::from(g.emitter),
				SpatialTrackBuilder::new()
					.distances(SpatialTrackDistances {
						min_distance: g.distances.0,
						max_distance: g.distances.1,
					})
					.attenuation_function(g.attenuation.map(|e| e.k()))
					.spatialization_strength(g.strength),
			)
			.unwrap();
		t.play(dc(input.0, input.1)).unwrap();
		let mut out = Vec::new();
		let mut last = (0.0, 0.0);
		for _ in 0..2 {
			let rep = device.callback(32, 2, &mut out);
			if let Some(p) = rep.panic {
				panic!("{p}");
			}
			last = (out[62], out[63]);
		}
		drop(t);
		drop(listener);
		last
	})
}

fn run_geometry(geo: &Geo, relation: u8, aux: &[f32; 4], res: &mut CaseResult, trace: &mut Hasher64) {
	let base = match render_geo(geo, (0.5, 0.5)) {
		Ok(v) => v,
		Err(p) => {
			res.fail(Violation::new("finite", format!("panic: {}", panic_signature(&p)), format!("{geo:?}: {p}")));
			return;
		}
	};
	trace.f32(base.0);
	trace.f32(base.1);
	if !base.0.is_finite() || !base.1.is_finite() {
		res.fail(Violation::new("finite", "non-finite-output", format!("{geo:?}: output ({}, {})", base.0, base.1)));
		return;
	}
	let (gl, gr) = (base.0 / 0.5, base.1 / 0.5);
	let d = (Vec3::from(geo.listener) - Vec3::from(geo.emitter)).length();
	let (min, max) = geo.distances;
	let proper = max > min;
	let s = geo.strength.clamp(0.0, 1.0);
	let tol = 1e-4f32;
	// always: levels within [0, 1], each ear within attenuation x [1 - strength, 1]
	if gl < -tol || gr < -tol || gl > 1.0 + tol || gr > 1.0 + tol {
		res.fail(Violation::new("geometry", "gain-out-of-range", format!("{geo:?}: gains ({gl}, {gr})")));
		return;
	}
	if geo.attenuation.is_some() && proper {
		if d >= max && (gl != 0.0 || gr != 0.0) {
			res.fail(Violation::new("geometry", "audible-beyond-max-distance", format!("{geo:?}: distance {d} >= max {max} but gains ({gl}, {gr})")));
			return;
		}
		if d <= min && (gl < 1.0 - s - tol || gr < 1.0 - s - tol || (s == 0.0 && ((gl - 1.0).abs() > tol || (gr - 1.0).abs() > tol))) {
			res.fail(Violation::new("geometry", "attenuated-within-min-distance", format!("{geo:?}: distance {d} <= min {min} but gains ({gl}, {gr})")));
			return;
		}
	}
	if geo.attenuation.is_none() && (gl < 1.0 - s - tol || gr < 1.0 - s - tol) {
		res.fail(Violation::new("geometry", "ear-gain-below-one-minus-strength", format!("{geo:?}: gains ({gl}, {gr}), strength {s}")));
		return;
	}
	res.hit("geometry.base");
	let l = Vec3::from(geo.listener);
	let q = Quat::from_xyzw(geo.rot[0], geo.rot[1], geo.rot[2], geo.rot[3]);
	let unit_q = (q.length() - 1.0).abs() < 1e-3;
	match relation {
		0 if proper => {
			// non-increasing with distance (strength 0: the level is the attenuation alone)
			let dir = (Vec3::from(geo.emitter) - l).normalize_or_zero();
			if dir == Vec3::ZERO {
				return;
			}
			let g0 = Geo { strength: 0.0, ..*geo };
			let (d1, d2) = (aux[0] * (max * 1.2), aux[1] * (max * 1.2));
			let (d1, d2) = (d1.min(d2), d1.max(d2));
			let near = Geo { emitter: (l + dir * d1).into(), ..g0 };
			let far = Geo { emitter: (l + dir * d2).into(), ..g0 };
			if let (Ok(a), Ok(b)) = (render_geo(&near, (0.5, 0.5)), render_geo(&far, (0.5, 0.5))) {
				if b.0 > a.0 + 1e-6 {
					res.fail(Violation::new("geometry", "attenuation-increases-with-distance", format!("{g0:?}: level {} at distance {d1} but {} at {d2}", a.0, b.0)));
				}
				res.hit("geometry.monotone");
			}
		}
		1 if unit_q && s > 0.0 => {
			// the ear on the emitter's side is favoured; mirroring through the median plane swaps the ears
			let local = q.inverse() * (Vec3::from(geo.emitter) - l);
			if local.length() < 0.5 {
				return;
			}
			if local.x > 0.2 && gr + tol < gl {
				res.fail(Violation::new("geometry", "wrong-ear-favoured", format!("{geo:?}: emitter on the listener's right (local {local:?}) but gains ({gl}, {gr})")));
				return;
			}
			if local.x < -0.2 && gl + tol < gr {
				res.fail(Violation::new("geometry", "wrong-ear-favoured", format!("{geo:?}: emitter on the listener's left (local {local:?}) but gains ({gl}, {gr})")));
				return;
			}
			let mirrored = l + q * Vec3::new(-local.x, local.y, local.z);
			if let Ok(m) = render_geo(&Geo { emitter: mirrored.into(), ..*geo }, (0.5, 0.5)) {
				let (ml, mr) = (m.0 / 0.5, m.1 / 0.5);
				if !((ml - gr).abs() <= 2e-3) || !((mr - gl).abs() <= 2e-3) {
					res.fail(Violation::new("geometry", "mirror-does-not-swap-ears", format!("{geo:?}: gains ({gl}, {gr}); mirrored emitter gives ({ml}, {mr})")));
				}
				res.hit("geometry.mirror");
			}
		}
		2 if unit_q => {
			// a rigid motion applied to listener and emitter together changes nothing
			let r = Quat::from_xyzw(aux[0] - 0.5, aux[1] - 0.5, aux[2] - 0.5, aux[3] + 0.1).normalize();
			let tr = Vec3::new(aux[0] * 8.0 - 4.0, aux[1] * 8.0 - 4.0, aux[2] * 8.0 - 4.0);
			let moved = Geo {
				listener: (r * l + tr).into(),
				emitter: (r * Vec3::from(geo.emitter) + tr).into(),
				rot: {
					let nq = (r * q).normalize();
					[nq.x, nq.y, nq.z, nq.w]
				},
				..*geo
			};
			if let Ok(m) = render_geo(&moved, (0.5, 0.5)) {
				let (ml, mr) = (m.0 / 0.5, m.1 / 0.5);
				// near the distance limits a rounding of the distance can flip in / out of range
				let margin = (d - min).abs().min((d - max).abs());
				// (the direction from an ear to an emitter sitting exactly on that ear is undefined:
				// any rounding of the moved scene picks an arbitrary one)
				let local = q.inverse() * (Vec3::from(geo.emitter) - l);
				let on_an_ear = (local - Vec3::X * 0.1).length() < 1e-2 || (local + Vec3::X * 0.1).length() < 1e-2;
				if margin > 1e-3 && !on_an_ear && (!((ml - gl).abs() <= 3e-3) || !((mr - gr).abs() <= 3e-3)) {
					res.fail(Violation::new("geometry", "not-invariant-under-rigid-motion", format!("{geo:?}: gains ({gl}, {gr}); after a rigid motion ({ml}, {mr})")));
				}
				res.hit("geometry.rigid_motion");
			}
		}
		4 if proper => {
			// the configured curve shapes the roll-off: an ease-in curve (power >= 1) keeps the level at or
			// below the linear roll-off at the same distance, an ease-out curve at or above it
			// (and the other way round for powers below 1)
			let (kind, power) = match geo.attenuation {
				Some(EasingSpec::InPowi(p)) => (0, p as f64),
				Some(EasingSpec::InPowf(p)) => (0, p),
				Some(EasingSpec::OutPowi(p)) => (1, p as f64),
				Some(EasingSpec::OutPowf(p)) => (1, p),
				_ => return,
			};
			if power <= 0.0 || power == 1.0 {
				return;
			}
			let g0 = Geo { strength: 0.0, ..*geo };
			let lin = Geo { attenuation: Some(EasingSpec::Linear), ..g0 };
			if let (Ok(c), Ok(l)) = (render_geo(&g0, (0.5, 0.5)), render_geo(&lin, (0.5, 0.5))) {
				let below = (kind == 0) == (power > 1.0);
				let bad = if below { c.0 > l.0 * (1.0 + 1e-4) + 1e-7 } else { c.0 < l.0 * (1.0 - 1e-4) - 1e-7 };
				if bad {
					res.fail(Violation::new(
						"geometry",
						"attenuation-curve-not-the-configured-one",
						format!("{g0:?} at distance {d}: level {} with the configured curve, {} with a linear one: the configured curve must stay {} the linear roll-off", c.0, l.0, if below { "at or below" } else { "at or above" }),
					));
				}
				res.hit("geometry.curve_vs_linear");
			}
		}
		3 => {
			// strength 0 passes the stereo signal unpanned
			let g0 = Geo { strength: 0.0, ..*geo };
			if let Ok(o) = render_geo(&g0, (0.5, 0.25)) {
				if o.0.is_finite() && o.0 != 0.0 && ((o.1 / o.0) - 0.5).abs() > 1e-5 {
					res.fail(Violation::new("geometry", "strength-zero-changes-stereo-image", format!("{g0:?}: input (0.5, 0.25) came out as ({}, {})", o.0, o.1)));
				}
				if o.0 == 0.0 && o.1 != 0.0 {
					res.fail(Violation::new("geometry", "strength-zero-changes-stereo-image", format!("{g0:?}: input (0.5, 0.25) came out as ({}, {})", o.0, o.1)));
				}
				res.hit("geometry.stereo_passthrough");
			}
		}
		_ => {}
	}
}

struct DistProbe {
	param: Parameter<f64>,
	log: Arc<Mutex<Vec<(Option<f32>, f64)>>>,
	/// (process call at which the parameter is linked to the listener distance with a tween of
	/// that many seconds, the mapping): until then it is a fixed value
	relink: Option<(u64, f64, (f64, f64))>,
	calls: u64,
	/// seconds since the link was made
	since: Option<f64>,
	/// added to every frame: an effect with a voice of its own (like the tail of a delay or a
	/// reverb), which a spatial track without a listener must not let through either
	emit: f32,
}
/// Logged instead of a parameter value while the link's own tween is still running.
const TWEENING: f64 = -12345.0;
impl Effect for DistProbe {
	fn process(&mut self, input: &mut [Frame], dt: f64, info: &Info) {
		let _d = Disarm::new();
		if let Some((at, dur, map_in)) = self.relink {
			if self.calls == at {
				self.param.set(
					Value::FromListenerDistance(Mapping {
						input_range: map_in,
						output_range: (0.0, 1.0),
						easing: kira::Easing::Linear,
					}),
					Tween {
						duration: std::time::Duration::from_secs_f64(dur),
						..Default::default()
					},
				);
				self.since = Some(0.0);
			}
		}
		self.calls += 1;
		self.param.update(dt * input.len() as f64, info);
		if let Some(s) = self.since.as_mut() {
			*s += dt * input.len() as f64;
		}
		let settled = match (self.relink, self.since) {
			(None, _) => true,
			(Some((_, dur, _)), Some(s)) => s > dur + 1e-9,
			(Some(_), None) => false,
		};
		self.log.lock().unwrap().push((info.listener_distance(), if settled { self.param.value() } else { TWEENING }));
		if self.emit != 0.0 {
			for f in input.iter_mut() {
				*f += Frame::new(self.emit, self.emit);
			}
		}
	}
}
struct DistProbeBuilder {
	map_in: (f64, f64),
	/// link the parameter later, through `Parameter::set` with a tween (as a handle setter does)
	relink: Option<(u64, f64)>,
	emit: f32,
}
impl EffectBuilder for DistProbeBuilder {
	type Handle = Arc<Mutex<Vec<(Option<f32>, f64)>>>;
	fn build(self) -> (Box<dyn Effect>, Self::Handle) {
		let log = Arc::new(Mutex::new(vec![]));
		(
			Box::new(DistProbe {
				param: match self.relink {
					None => Parameter::new(
						Value::FromListenerDistance(Mapping {
							input_range: self.map_in,
							output_range: (0.0, 1.0),
							easing: kira::Easing::Linear,
						}),
						-7.0,
					),
					Some(_) => Parameter::new(Value::Fixed(-7.0), -7.0),
				},
				log: log.clone(),
				relink: self.relink.map(|(at, dur)| (at, dur, self.map_in)),
				calls: 0,
				since: None,
				emit: self.emit,
			}),
			log,
		)
	}
}

struct Lerp {
	from: Vec3,
	to: Vec3,
	dur: f64,
	time: f64,
	value: Vec3,
}
impl Lerp {
	fn fixed(v: Vec3) -> Self {
		Self { from: v, to: v, dur: 0.0, time: 0.0, value: v }
	}
	fn set(&mut self, to: Vec3, dur: f64) {
		self.from = self.value;
		self.to = to;
		self.dur = std::time::Duration::from_secs_f64(dur).as_secs_f64();
		self.time = 0.0;
	}
	fn update(&mut self, dt: f64) {
		self.time += dt;
		if self.time >= self.dur {
			self.value = self.to;
			self.from = self.to;
		} else {
			self.value = self.from + (self.to - self.from) * (self.time / self.dur) as f32;
		}
	}
}

fn run_history(ops: &[HOp], ibs: usize, nested: bool, map_in: (f64, f64), relink: Option<(u64, f64)>, pass_through: bool, emit: bool, res: &mut CaseResult, trace: &mut Hasher64, beh: &mut Hasher64) {
	let Some(mut m) = manager(ibs) else { return };
	let device = m.backend_mut().device.clone();
	let sr = 8000.0f64;
	let mut listener: Option<kira::listener::ListenerHandle> = None;
	let mut track: Option<SpatialTrackHandle> = None;
	let mut child: Option<kira::track::TrackHandle> = None;
	let mut logs: Vec<Arc<Mutex<Vec<(Option<f32>, f64)>>>> = vec![];
	let mut l_model: Option<(Lerp, u64, Option<u64>)> = None; // (position, first cb, drop gap) of the listener the track is bound to
	let mut pending_l: Option<(Vec3, f64)> = None;
	// a delayed jump that has been sent: (freeze the model when the command is read, seconds left).
	// If it is not cancelled in time the model no longer knows where the listener is
	let mut later_cmd: Option<f64> = None;
	let mut later_left: Option<f64> = None;
	let mut hold_cmd = false;
	let mut listener_uncertain = false;
	let mut pending_e: Option<(Vec3, f64)> = None;
	let mut e_model = Lerp::fixed(Vec3::new(0.0, 0.0, 4.0));
	let mut cb = 0u64;
	let mut out = Vec::new();
	let mut track_first_cb = 0u64;
	let mut sound: Option<kira::sound::static_sound::StaticSoundHandle> = None;
	// (audio seconds at which the sound must have stopped)
	let mut stop_due: Option<f64> = None;
	let mut stopped = false;
	let mut now = 0.0f64;
	for (oi, op) in ops.iter().enumerate() {
		match op {
			HOp::StopSound { fade } => {
				if let (Some(s), None) = (sound.as_mut(), stop_due) {
					s.stop(Tween {
						duration: std::time::Duration::from_secs_f64(*fade),
						..Default::default()
					});
					// (to within one callback, and one more for the command to be picked up)
					stop_due = Some(now + *fade + 3.0 * (3 * ibs) as f64 / sr);
				}
			}
			HOp::AddListener { pos } => {
				if track.is_some() {
					// a second listener: never the one the track listens through
					let _ = m.add_listener(Vec3::from(*pos), Quat::IDENTITY).map(std::mem::forget);
					continue;
				}
				let Ok(l) = m.add_listener(Vec3::from(*pos), Quat::IDENTITY) else { continue };
				let mut b = SpatialTrackBuilder::new().distances((1.0, 50.0)).spatialization_strength(0.0);
				if pass_through {
					b = b.attenuation_function(None);
				}
				logs.push(b.add_effect(DistProbeBuilder { map_in, relink, emit: if emit { 0.05 } else { 0.0 } }));
				let Ok(mut t) = m.add_spatial_sub_track(&l, e_model.value, b) else { continue };
				if nested {
					let mut cbld = TrackBuilder::new();
					logs.push(cbld.add_effect(DistProbeBuilder { map_in, relink: None, emit: 0.0 }));
					if let Ok(mut c) = t.add_sub_track(cbld) {
						sound = c.play(dc(0.5, 0.5)).ok();
						child = Some(c);
					}
				} else {
					sound = t.play(dc(0.5, 0.5)).ok();
				}
				l_model = Some((Lerp::fixed(Vec3::from(*pos)), cb, None));
				track_first_cb = cb;
				listener = Some(l);
				track = Some(t);
			}
			HOp::DropListener => {
				if listener.take().is_some() {
					if let Some(lm) = l_model.as_mut() {
						lm.2 = Some(cb);
					}
				}
			}
			HOp::MoveListener { pos, dur } => {
				if let Some(l) = listener.as_mut() {
					l.set_position(
						Vec3::from(*pos),
						Tween {
							duration: std::time::Duration::from_secs_f64(*dur),
							..Default::default()
						},
					);
					pending_l = Some((Vec3::from(*pos), *dur));
					later_cmd = None;
					hold_cmd = false;
				}
			}
			HOp::MoveListenerLater { pos, delay } => {
				if let Some(l) = listener.as_mut() {
					l.set_position(
						Vec3::from(*pos),
						Tween {
							start_time: kira::StartTime::Delayed(std::time::Duration::from_secs_f64(*delay)),
							duration: std::time::Duration::ZERO,
							..Default::default()
						},
					);
					pending_l = None;
					hold_cmd = false;
					later_cmd = Some(*delay);
					res.hit("listener_moves_scheduled_for_later");
				}
			}
			HOp::HoldListener => {
				if let (Some(l), Some(lm)) = (listener.as_mut(), l_model.as_ref()) {
					l.set_position(
						lm.0.value,
						Tween {
							duration: std::time::Duration::ZERO,
							..Default::default()
						},
					);
					pending_l = None;
					later_cmd = None;
					hold_cmd = true;
				}
			}
			HOp::MoveEmitter { pos, dur } => {
				if let Some(t) = track.as_mut() {
					t.set_position(
						Vec3::from(*pos),
						Tween {
							duration: std::time::Duration::from_secs_f64(*dur),
							..Default::default()
						},
					);
					pending_e = Some((Vec3::from(*pos), *dur));
				}
			}
			HOp::Callback { frames } => {
				let rep = device.callback(*frames, 2, &mut out);
				if let Some(p) = rep.panic {
					res.fail(Violation::new("finite", format!("audio-panic: {}", panic_signature(&p)), format!("op {oi}: {p}")));
					return;
				}
				now += *frames as f64 / sr;
				if let (Some(due), Some(s)) = (stop_due, sound.as_ref()) {
					let st = s.state();
					stopped |= st == kira::sound::PlaybackState::Stopped;
					if now > due && st != kira::sound::PlaybackState::Stopped {
						res.fail(Violation::new(
							"needs-listener",
							"sound-life-cycle-stalls-on-spatial-track",
							format!("op {oi} (callback {cb}): the sound on the spatial track{} was stopped and its fade is long over, but it still reports {st:?}", if listener.is_none() { " (whose listener has been dropped)" } else { "" }),
						));
						return;
					}
					if st == kira::sound::PlaybackState::Stopped {
						res.hit("stops_on_spatial_tracks_completed");
					}
				}
				if let Some((to, d)) = pending_l.take() {
					if let Some(lm) = l_model.as_mut() {
						lm.0.set(to, d);
					}
					later_left = None;
				}
				if let Some(delay) = later_cmd.take() {
					// the listener stands still from now on and jumps when the delay is over
					if let Some(lm) = l_model.as_mut() {
						let v = lm.0.value;
						lm.0 = Lerp::fixed(v);
					}
					later_left = Some(delay);
				}
				if hold_cmd {
					hold_cmd = false;
					if let Some(lm) = l_model.as_mut() {
						let v = lm.0.value;
						lm.0 = Lerp::fixed(v);
					}
					if later_left.take().is_some() {
						res.hit("scheduled_listener_moves_cancelled");
					}
				}
				if let Some(left) = later_left.as_mut() {
					*left -= *frames as f64 / sr;
					if *left < 2.0 * ibs as f64 / sr {
						// (not cancelled in time: from here on the model does not know)
						listener_uncertain = true;
					}
				}
				if let Some((to, d)) = pending_e.take() {
					e_model.set(to, d);
				}
				let mut lens = vec![];
				let mut left = *frames;
				while left > 0 {
					let n = left.min(ibs);
					lens.push(n);
					left -= n;
				}
				let all_logs: Vec<Vec<(Option<f32>, f64)>> = logs.iter().map(|l| std::mem::take(&mut *l.lock().unwrap())).collect();
				let listener_present = l_model.as_ref().map(|(_, first, gone)| cb >= *first && gone.map(|g| cb < g.max(first + 1)).unwrap_or(true)).unwrap_or(false);
				let mut offset = 0;
				for (k, n) in lens.iter().enumerate() {
					let cdt = *n as f64 / sr;
					// listeners are advanced before the mixer in every chunk; the emitter position
					// parameter is advanced after the track's effects have run
					if let Some(lm) = l_model.as_mut() {
						if listener_present {
							lm.0.update(cdt);
						}
					}
					let e_seen = e_model.value;
					if track.is_some() && cb >= track_first_cb {
						e_model.update(cdt);
					}
					let expect_dist = if listener_present { l_model.as_ref().map(|lm| (lm.0.value - e_seen).length()) } else { None };
					for (pi, log) in all_logs.iter().enumerate() {
						if cb < track_first_cb || log.len() != lens.len() || (listener_uncertain && listener_present) {
							continue;
						}
						let (seen, param) = log[k];
						trace.f64(param);
						match (expect_dist, seen) {
							(Some(want), Some(got)) => {
								if !((want - got).abs() <= 1e-3 * (1.0 + want)) {
									res.fail(Violation::new(
										"linked-distance",
										"listener-distance-wrong",
										format!("op {oi} (callback {cb}) chunk {k}: effect {pi} sees distance {got}, listener and emitter are {want} apart in this chunk"),
									));
									return;
								}
								let amount = ((got as f64 - map_in.0) / (map_in.1 - map_in.0)).clamp(0.0, 1.0);
								if param == TWEENING {
									// (not linked yet, or the link's own tween is still running)
								} else if !((param - amount).abs() <= 1e-6) {
									res.fail(Violation::new(
										"linked-distance",
										"linked-parameter-does-not-follow-distance",
										format!("op {oi} (callback {cb}) chunk {k}: distance {got} maps to {amount} through {map_in:?}, the parameter is {param}{}", if pi == 0 && relink.is_some() { " (linked by set() with a tween, which is over)" } else { "" }),
									));
									return;
								} else {
									res.hit(if pi == 0 && relink.is_some() { "distance_links_checked_after_set_with_tween" } else { "distance_links_checked" });
								}
							}
							(None, Some(got)) => {
								res.fail(Violation::new("needs-listener", "distance-without-listener", format!("op {oi} (callback {cb}): no listener exists but effect {pi} sees distance {got}")));
								return;
							}
							(Some(_), None) => {
								res.fail(Violation::new("needs-listener", "listener-not-found", format!("op {oi} (callback {cb}) chunk {k}: the listener exists but effect {pi} sees no distance")));
								return;
							}
							(None, None) => {}
						}
					}
					// silent iff the listener does not exist
					for i in 0..*n {
						let s = out[2 * (offset + i)];
						if !s.is_finite() {
							res.fail(Violation::new("finite", "non-finite-output", format!("op {oi}: output {s}")));
							return;
						}
						if !listener_present && s != 0.0 && track.is_some() && cb >= track_first_cb {
							res.fail(Violation::new("needs-listener", "audible-without-listener", format!("op {oi} (callback {cb}) frame {}: the track's listener does not exist but the output is {s}", offset + i)));
							return;
						}
					}
					offset += n;
				}
				if listener_present && track.is_some() && cb > track_first_cb && stop_due.is_none() {
					let d = l_model.as_ref().map(|lm| (lm.0.value - e_model.value).length()).unwrap_or(0.0);
					if d < 40.0 && out.iter().all(|s| *s == 0.0) && *frames > 0 {
						res.fail(Violation::new("needs-listener", "silent-with-listener", format!("op {oi} (callback {cb}): listener present at distance {d} (max 50) but the output is silent")));
						return;
					}
				}
				beh.u64(listener_present as u64);
				beh.u64(lens.len().min(4) as u64);
				cb += 1;
			}
		}
	}
	res.nontrivial = cb > 0;
	res.callbacks = cb;
	drop(child);
	drop(track);
	drop(listener);
	let _ = Ordering::SeqCst;
}

#[allow(clippy::too_many_arguments)]
fn run_nested(a: [f32; 3], b: [f32; 3], e1: [f32; 3], e2: [f32; 3], drop_a: Option<usize>, drop_b: Option<usize>, callbacks: usize, ibs: usize, mid_plain: bool, res: &mut CaseResult, trace: &mut Hasher64, beh: &mut Hasher64) {
	let Some(mut m) = manager(ibs) else { return };
	let device = m.backend_mut().device.clone();
	let map_in = (0.0, 40.0);
	let built = monitor::catch(move || {
		let la = m.add_listener(Vec3::from(a), Quat::IDENTITY).unwrap();
		let lb = m.add_listener(Vec3::from(b), Quat::IDENTITY).unwrap();
		let mut ob = SpatialTrackBuilder::new().distances((1.0, 60.0)).spatialization_strength(0.0);
		let outer_log = ob.add_effect(DistProbeBuilder { map_in, relink: None, emit: 0.0 });
		let mut outer = m.add_spatial_sub_track(&la, Vec3::from(e1), ob).unwrap();
		let mut ib = SpatialTrackBuilder::new().distances((1.0, 60.0)).spatialization_strength(0.0);
		let inner_log = ib.add_effect(DistProbeBuilder { map_in, relink: None, emit: 0.0 });
		let (mid, mut inner) = if mid_plain {
			let mut mid = outer.add_sub_track(TrackBuilder::new()).unwrap();
			let inner = mid.add_spatial_sub_track(&lb, Vec3::from(e2), ib).unwrap();
			(Some(mid), inner)
		} else {
			(None, outer.add_spatial_sub_track(&lb, Vec3::from(e2), ib).unwrap())
		};
		let mut gb = TrackBuilder::new();
		let grand_log = gb.add_effect(DistProbeBuilder { map_in, relink: None, emit: 0.0 });
		let mut grand = inner.add_sub_track(gb).unwrap();
		grand.play(dc(0.5, 0.5)).unwrap();
		(m, la, lb, outer, mid, inner, grand, outer_log, inner_log, grand_log)
	});
	let Ok((m, la, lb, outer, mid, inner, grand, outer_log, inner_log, grand_log)) = built else {
		res.fail(Violation::new("finite", "nested-construction-panicked", "building nested spatial tracks panicked".to_string()));
		return;
	};
	let (mut la, mut lb) = (Some(la), Some(lb));
	let (da, db) = ((Vec3::from(a) - Vec3::from(e1)).length(), (Vec3::from(b) - Vec3::from(e2)).length());
	let mut out = Vec::new();
	// (a listener dropped in the gap before callback k is gone from callback max(k, 1) on)
	let gone = |d: Option<usize>, cb: usize| d.map(|k| cb >= k.max(1)).unwrap_or(false);
	for cb in 0..callbacks {
		if drop_a == Some(cb) {
			la = None;
		}
		if drop_b == Some(cb) {
			lb = None;
		}
		let rep = device.callback(ibs + ibs / 2, 2, &mut out);
		if let Some(p) = rep.panic {
			res.fail(Violation::new("finite", format!("audio-panic: {}", panic_signature(&p)), format!("callback {cb}: {p}")));
			return;
		}
		let (a_gone, b_gone) = (gone(drop_a, cb), gone(drop_b, cb));
		for (name, log, want) in [
			("the outer spatial track", &outer_log, if a_gone { None } else { Some(da) }),
			("the inner spatial track", &inner_log, if b_gone { None } else { Some(db) }),
			("a plain track inside the inner spatial track", &grand_log, if b_gone { None } else { Some(db) }),
		] {
			let entries: Vec<(Option<f32>, f64)> = std::mem::take(&mut *log.lock().unwrap());
			// (a track below a silent spatial track may not be processed at all)
			for (seen, param) in entries {
				trace.f64(param);
				match (want, seen) {
					(Some(w), Some(g)) if (w - g).abs() <= 1e-3 * (1.0 + w) => {
						let amount = ((g as f64 - map_in.0) / (map_in.1 - map_in.0)).clamp(0.0, 1.0);
						if !((param - amount).abs() <= 1e-6) {
							res.fail(Violation::new("linked-distance", "linked-parameter-does-not-follow-distance", format!("callback {cb}: {name}: distance {g} maps to {amount}, the parameter is {param}")));
							return;
						}
						res.hit("nested_distance_links_checked");
					}
					(None, None) => {}
					_ => {
						res.fail(Violation::new(
							"linked-distance",
							"nested-spatial-track-uses-wrong-listener",
							format!("callback {cb}: an effect on {name} sees listener distance {seen:?}; its own listener and emitter are {want:?} apart (outer track: listener A {a:?} emitter {e1:?}, {da} apart{}; inner track: listener B {b:?} emitter {e2:?}, {db} apart{})", if a_gone { ", A dropped" } else { "" }, if b_gone { ", B dropped" } else { "" }),
						));
						return;
					}
				}
			}
		}
		let audible = out.iter().any(|s| *s != 0.0);
		if out.iter().any(|s| !s.is_finite()) {
			res.fail(Violation::new("finite", "non-finite-output", format!("callback {cb}")));
			return;
		}
		if (a_gone || b_gone) && audible {
			res.fail(Violation::new("needs-listener", "audible-without-listener", format!("callback {cb}: listener {} does not exist but the nested spatial tracks are audible", if b_gone { "B (inner track)" } else { "A (outer track)" })));
			return;
		}
		if !a_gone && !b_gone && cb >= 1 && da < 50.0 && db < 50.0 && !audible {
			res.fail(Violation::new("needs-listener", "silent-with-listener", format!("callback {cb}: both listeners exist ({da} and {db} from their emitters, max 60) but the output is silent")));
			return;
		}
		beh.u64(a_gone as u64 + 2 * b_gone as u64);
	}
	res.nontrivial = true;
	res.callbacks = callbacks as u64;
	res.hit("type.nested_spatial");
	drop((grand, inner, mid, outer, la, lb, m));
}

fn run_turn(a_deg: f32, target: u8, dur_chunks: usize, ibs: usize, res: &mut CaseResult, trace: &mut Hasher64, beh: &mut Hasher64) {
	let Some(mut m) = manager(ibs) else { return };
	let device = m.backend_mut().device.clone();
	let a = a_deg.to_radians();
	let q1 = Quat::from_rotation_y(a);
	let q2 = match target {
		// the mirror-image yaw, written with the other sign (the same rotation as yaw(-a))
		0 => -Quat::from_rotation_y(-a),
		// the very same orientation, written with the other sign
		1 => -q1,
		// an about-face on the spot: afterwards the emitter is on the listener's LEFT
		3 => Quat::from_rotation_y(a + std::f32::consts::PI),
		_ => Quat::from_rotation_y(-a),
	};
	let built = monitor::catch(move || {
		let l = m.add_listener(Vec3::ZERO, q1).unwrap();
		let mut t = m
			.add_spatial_sub_track(&l, Vec3::new(5.0, 0.0, 0.0), SpatialTrackBuilder::new().attenuation_function(None).spatialization_strength(1.0))
			.unwrap();
		t.play(dc(0.5, 0.5)).unwrap();
		(m, l, t)
	});
	let Ok((m, mut l, t)) = built else { return };
	let mut out = Vec::new();
	let mut frames_checked = 0u64;
	for cb in 0..(6 + dur_chunks) {
		if cb == 2 {
			l.set_orientation(
				q2,
				Tween {
					duration: std::time::Duration::from_secs_f64(dur_chunks as f64 * ibs as f64 / 8000.0),
					..Default::default()
				},
			);
		}
		let rep = device.callback(ibs, 2, &mut out);
		if let Some(p) = rep.panic {
			res.fail(Violation::new("finite", format!("audio-panic: {}", panic_signature(&p)), format!("callback {cb}: {p}")));
			return;
		}
		if cb == 0 {
			continue;
		}
		if target == 3 {
			// about-face: right ear before the turn, left ear once it is over (two buffers of slack)
			let after = cb >= 2 + dur_chunks + 2;
			if cb == 1 || after {
				for i in 0..ibs {
					let (lft, rgt) = (out[2 * i], out[2 * i + 1]);
					trace.f32(lft);
					trace.f32(rgt);
					let ok = if after { lft > rgt + 1e-3 && lft > 0.1 } else { rgt > lft + 1e-3 && rgt > 0.1 };
					if !ok || !lft.is_finite() || !rgt.is_finite() {
						res.fail(Violation::new(
							"geometry",
							"wrong-ear-favoured-after-about-face",
							format!(
								"callback {cb} frame {i}: output ({lft}, {rgt}); the emitter is 5 units to the right of a listener at yaw {a_deg} deg who turns by 180 deg on the spot over {dur_chunks} internal buffers starting at callback 2: the right ear is favoured before, the left ear after"
							),
						));
						return;
					}
					frames_checked += 1;
				}
			}
			continue;
		}
		for i in 0..ibs {
			let (lft, rgt) = (out[2 * i], out[2 * i + 1]);
			trace.f32(lft);
			trace.f32(rgt);
			// the emitter is on the listener's right during the whole (short-way) turn: the right ear is
			// favoured in every frame, and the sound never drops out
			if !(rgt >= lft - 1e-5) || !(rgt > 0.1) || !lft.is_finite() || !rgt.is_finite() {
				res.fail(Violation::new(
					"geometry",
					"wrong-ear-favoured-during-turn",
					format!(
						"callback {cb} frame {i}: output ({lft}, {rgt}) with the emitter 5 units to the listener's right; the listener turns from yaw {a_deg} deg to {} over {dur_chunks} internal buffers, never facing away",
						match target {
							0 => format!("yaw {} deg given as the negated quaternion", -a_deg),
							1 => "the same orientation given as the negated quaternion".to_string(),
							_ => format!("yaw {} deg", -a_deg),
						}
					),
				));
				return;
			}
			frames_checked += 1;
		}
	}
	res.count("turn_frames_checked", frames_checked);
	res.nontrivial = true;
	res.callbacks = (6 + dur_chunks) as u64;
	res.hit("type.turn");
	beh.u64(target as u64 * 8 + dur_chunks as u64);
	drop((t, l, m));
}

fn run_glide(ibs: usize, from: f32, to: f32, chunks: usize, res: &mut CaseResult, trace: &mut Hasher64, beh: &mut Hasher64) {
	let Some(mut m) = manager(ibs) else { return };
	let device = m.backend_mut().device.clone();
	let swap = (from as u32) % 2 == 1; // half of the cases approach instead of receding
	let (z0, z1) = if swap { (to, from) } else { (from, to) };
	let built = monitor::catch(move || {
		let l = m.add_listener(Vec3::new(0.0, 0.0, z0), Quat::IDENTITY).unwrap();
		let mut t = m
			.add_spatial_sub_track(
				&l,
				Vec3::new(0.0, 0.0, -2.0),
				SpatialTrackBuilder::new().distances((1.0, 50.0)).attenuation_function(Some(kira::Easing::Linear)).spatialization_strength(0.0),
			)
			.unwrap();
		t.play(dc(0.5, 0.5)).unwrap();
		(m, l, t)
	});
	let Ok((m, mut l, t)) = built else { return };
	let mut out = Vec::new();
	let mut gains: Vec<f32> = vec![];
	for cb in 0..(chunks + 4) {
		if cb == 2 {
			l.set_position(
				Vec3::new(0.0, 0.0, z1),
				Tween {
					duration: std::time::Duration::from_secs_f64(chunks as f64 * ibs as f64 / 8000.0),
					..Default::default()
				},
			);
		}
		let rep = device.callback(ibs, 2, &mut out);
		if let Some(p) = rep.panic {
			res.fail(Violation::new("finite", format!("audio-panic: {}", panic_signature(&p)), format!("callback {cb}: {p}")));
			return;
		}
		if cb >= 1 {
			for i in 0..ibs {
				trace.f32(out[2 * i]);
				gains.push(out[2 * i]);
			}
		}
	}
	// steps across internal-buffer boundaries are no larger than the steps inside the buffers
	let (mut inside, mut across, mut at) = (0.0f32, 0.0f32, 0usize);
	for i in 0..gains.len().saturating_sub(1) {
		let step = (gains[i + 1] - gains[i]).abs();
		if (i + 1) % ibs == 0 {
			if step > across {
				across = step;
				at = i + 1;
			}
		} else {
			inside = inside.max(step);
		}
	}
	let moved = gains.iter().cloned().fold(f32::MIN, f32::max) - gains.iter().cloned().fold(f32::MAX, f32::min);
	if moved > 0.05 && across > 4.0 * inside + 1e-5 {
		res.fail(Violation::new(
			"geometry",
			"level-steps-at-buffer-boundaries",
			format!(
				"the listener glides from z = {z0} to z = {z1} over {chunks} internal buffers of {ibs} frames (emitter at z = -2, linear roll-off 1..50): the level changes by {across} across a buffer boundary (frame {at}) but by at most {inside} from frame to frame inside the buffers"
			),
		));
		return;
	}
	res.hit("glides_checked");
	res.nontrivial = true;
	res.callbacks = (chunks + 4) as u64;
	res.hit("type.glide");
	beh.u64(ibs as u64 * 8 + chunks as u64);
	drop((t, l, m));
}

pub fn run_case(case: &Case) -> CaseResult {
	let mut res = CaseResult::default();
	let mut trace = Hasher64::new();
	let mut beh = Hasher64::new();
	match &case.stream {
		Stream::Sched(sc) => return super::c15_sched::run(sc),
		Stream::Glide { ibs, from, to, chunks } => {
			run_glide(*ibs, *from, *to, *chunks, &mut res, &mut trace, &mut beh);
			beh.u64(78);
		}
		Stream::Turn { a_deg, target, dur_chunks, ibs } => {
			run_turn(*a_deg, *target, *dur_chunks, *ibs, &mut res, &mut trace, &mut beh);
			beh.u64(77);
		}
		Stream::Nested { a, b, e1, e2, drop_a, drop_b, callbacks, ibs, mid_plain } => {
			run_nested(*a, *b, *e1, *e2, *drop_a, *drop_b, *callbacks, *ibs, *mid_plain, &mut res, &mut trace, &mut beh);
			beh.u64(*mid_plain as u64 + 10);
		}
		Stream::Geometry { geo, relation, aux } => {
			run_geometry(geo, *relation, aux, &mut res, &mut trace);
			res.nontrivial = true;
			beh.u64(*relation as u64);
			beh.u64(trace.finish());
		}
		Stream::History { ops, ibs, nested, map_in, relink, pass_through, emit } => {
			run_history(ops, *ibs, *nested, *map_in, *relink, *pass_through, *emit, &mut res, &mut trace, &mut beh);
			beh.u64(*nested as u64);
		}
	}
	res.behaviour_sig = beh.finish();
	res.trace_hash = trace.finish();
	res
}

pub struct C15;

impl Check for C15 {
	fn info(&self) -> CheckInfo {
		CheckInfo {
			id: "C15",
			level: "exploration",
			rule: "six streams. glide (1/24): the listener glides away from or towards the emitter over a few large internal buffers - the level changes from frame to frame, not in steps at the buffer boundaries; sched (1/24): a gameplay task adds a listener, a spatial track bound to it (optionally nested) and a sound while an audio task runs callbacks under seeded random schedules - the track must be audible afterwards, and the first frame ever heard of the sound (a ramp) is its first frame: a track that ran without its listener consumes the sound in silence; turn (1/12): the listener turns between two yaw angles given by quaternions of either sign (q / -q), instantly or over a few internal buffers, with the emitter on its right: every frame favours the right ear - or turns about on the spot: the right ear before, the left ear after; nested (1/6): a spatial track (listener B) inside - directly or through a plain track - a spatial track (listener A) with a plain track below it, each with a FromListenerDistance probe, either listener dropped at a seeded callback; history (1/6): seeded history over {add listener (the first one gets a spatial track, optionally with a nested non-spatial child, each with a FromListenerDistance probe parameter and a DC sound), drop the listener, tween the listener position, schedule a jump of the listener for later and cancel it a callback afterwards by telling it to stay where it is, tween the emitter position, stop the sound with a fade (it must reach Stopped with or without a listener), callback} at a seeded internal buffer size, 30% on a pass-through track (no attenuation function, spatialization strength 0: silent without a listener like any other spatial track), 40% with a probe effect that adds a signal of its own (which must not get out without a listener either) - simulated on the device with a per-chunk reference of both positions; geometry (2/3): generated listener pose, emitter position, distance range (proper, equal, inverted, zero-based), attenuation curve, strength, edge classes (listener and emitter coincident; emitter exactly on one of the listener's ears; the same orientation given as a quaternion that is not of unit length), rendered through the manager and related to a second rendering (farther along the same ray, mirrored, rigidly moved, stereo input, the same scene with a linear roll-off) - plain input generation evaluated as cross-run invariants; non-trivial = every case renders; distinct = hash of the outputs / of the per-callback (listener present, chunks) sequence",
			assumptions: vec![
				"the geometric relations (monotonicity, ear gains, mirror, rigid motion, stereo pass-through) are input-generation checks, not schedule- or fault-dependent; they are included because the same harness renders them, and are stated as such".into(),
				"tolerances: 1e-4 on gains, 2e-3 / 3e-3 for mirrored / moved scenes (f32 quaternion arithmetic), rigid-motion comparison skipped within 1e-3 of a distance limit".into(),
			],
			components: vec![
				("Track spatialization, SpatialTrackBuilder / Handle, Listener, Listeners storage, Info::listener_info / listener_distance, Value::FromListenerDistance, Parameter<Vec3>", "real"),
				("distance-reading effect", "stub (probe Effect on the public trait)"),
				("audio device", "stub (SimBackend)"),
			],
		}
	}
	fn num_cases(&self, tier: Tier) -> u64 {
		match tier {
			Tier::Quick => 30_000,
			Tier::Thorough => 900_000,
		}
	}
	fn case(&self, tier: Tier, seed: u64, index: u64) -> Json {
		serde_json::to_value(gen_case(derive_seed(seed, 15, index), index, tier)).unwrap()
	}
	fn run(&self, case: &Json) -> CaseResult {
		let case: Case = serde_json::from_value(case.clone()).expect("malformed C15 case");
		run_case(&case)
	}
	fn shrink(&self, case: &Json) -> Vec<Json> {
		let c: Case = serde_json::from_value(case.clone()).unwrap();
		let mut out = vec![];
		if let Stream::History { ops, ibs, nested, map_in, relink, pass_through, emit } = &c.stream {
			let wrapped = serde_json::json!({ "ops": ops });
			for v in shrink_ops_array(&wrapped, "ops") {
				let ops: Vec<HOp> = serde_json::from_value(v["ops"].clone()).unwrap();
				out.push(serde_json::to_value(Case { stream: Stream::History { ops, ibs: *ibs, nested: *nested, map_in: *map_in, relink: *relink, pass_through: *pass_through, emit: *emit }, ..c.clone() }).unwrap());
			}
		}
		out
	}
}
