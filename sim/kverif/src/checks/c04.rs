//! C04 - static playback is sample-accurate: slice, loop, reverse, seek,
//! resample, end.
//!
//! The real `Box<dyn Sound>` from `StaticSoundData::into_sound` is driven like
//! the mixer drives it (on_start_processing + process per chunk, simulated audio
//! clock dt = 1/device_rate) next to a reference model: an integer transport
//! (start, wrap end->start, reverse, end detection, slice) feeding a 4-point
//! Hermite interpolator at the accumulated position. Source frames carry their
//! own index; frames outside the slice carry a poison value.

use kira::{
	info::MockInfoBuilder,
	sound::{static_sound::StaticSoundData, PlaybackState, SoundData},
	Frame,
};
use serde::{Deserialize, Serialize};
use serde_json::Value;

use crate::{
	core::*,
	known, monitor,
	rng::{derive_seed, Hasher64, Rng},
	spec::*,
	world::{static_data, NoResolver},
};

const POISON: f32 = 7777.0;
const SCALE: f32 = 16_777_216.0;

#[derive(Clone, Debug, Serialize, Deserialize)]
pub struct Case {
	pub len: usize,
	pub slice: Option<(usize, usize)>,
	pub sound_rate: u32,
	pub device_rate: u32,
	pub start: usize,
	pub looped: Option<(usize, Option<usize>)>,
	pub reverse: bool,
	pub rate: f64,
	pub chunks: Vec<usize>,
	/// (chunk index before which it is issued, command)
	pub cmds: Vec<(usize, Cmd)>,
	/// instead of all this: the playback rate is changed (instantly) between chunks, also through
	/// zero; the reported position must follow the accumulated rate (position-only stream)
	#[serde(default)]
	pub flips: Option<Vec<(usize, f64)>>,
}

/// Rate changes, also of sign, on a long sound played from its middle: the position reported by
/// the handle stays within a few frames of "rate x source-rate x dt" accumulated. Inside the chunk
/// in which an instant rate change arrives the rate is interpolated from the old to the new value:
/// both the signed integral of that ramp and its magnitude taken in the new direction are accepted.
fn run_flips(case: &Case, flips: &[(usize, f64)]) -> CaseResult {
	let mut res = CaseResult::default();
	let mut trace = Hasher64::new();
	let sr = case.sound_rate;
	let len = 60_000usize;
	let start = len / 2;
	let data = StaticSoundData {
		sample_rate: sr,
		frames: (0..len).map(|i| kira::Frame::from_mono(((i % 64) as f32 + 1.0) / 128.0)).collect::<Vec<_>>().into(),
		settings: Default::default(),
		slice: None,
	}
	.start_position(kira::sound::PlaybackPosition::Samples(start))
	.playback_rate(case.rate);
	let Ok(Ok((mut sound, mut handle))) = monitor::catch(move || data.into_sound()) else {
		return res;
	};
	let info = MockInfoBuilder::new().build();
	let dt = 1.0 / sr as f64;
	let (mut lo, mut hi) = (start as f64, start as f64);
	let mut rate_prev = case.rate;
	let mut rate_cur = case.rate;
	let mut buf = vec![kira::Frame::ZERO; case.chunks.iter().copied().max().unwrap_or(1)];
	let mut it = flips.iter().peekable();
	let mut checked = 0u64;
	for (ci, n) in case.chunks.iter().enumerate() {
		let mut new_rate = None;
		while let Some((at, r)) = it.peek() {
			if *at <= ci {
				new_rate = Some(*r);
				it.next();
			} else {
				break;
			}
		}
		if let Some(r) = new_rate {
			handle.set_playback_rate(
				r,
				kira::Tween {
					duration: std::time::Duration::ZERO,
					..Default::default()
				},
			);
			rate_cur = r;
			res.hit("rate_changes");
			if (r < 0.0) != (rate_prev < 0.0) {
				res.hit("rate_sign_changes");
			}
		}
		// (the position is published at the start of a callback: it covers the chunks before this one)
		if let Err(p) = monitor::catch(|| sound.on_start_processing()) {
			res.fail(Violation::new("panic", format!("panic: {}", monitor::panic_signature(&p)), format!("chunk {ci}: {p}")));
			break;
		}
		let reported = handle.position() * sr as f64;
		trace.f64(reported);
		// the frame being heard trails the transport by up to three frames in the direction of travel,
		// and after a change of direction the four-frame window is first played out the old way
		if !(reported >= lo - 9.0 && reported <= hi + 9.0) {
			res.fail(Violation::new(
				"position",
				"position-does-not-follow-the-rate",
				format!(
					"at the start of callback {ci}: the handle reports frame {reported:.2}; accumulating rate x source-rate x dt from frame {start} over the {ci} chunks so far (rate history: start {}, changes {:?}) gives {lo:.2} .. {hi:.2}",
					case.rate, flips
				),
			));
			break;
		}
		checked += 1;
		if let Err(p) = monitor::catch(|| sound.process(&mut buf[..*n], dt, &info)) {
			res.fail(Violation::new("panic", format!("panic: {}", monitor::panic_signature(&p)), format!("chunk {ci}: {p}")));
			break;
		}
		for f in &buf[..*n] {
			trace.f32(f.left);
		}
		// movement in this chunk
		let (mut signed, mut magnitude) = (0.0f64, 0.0f64);
		for i in 0..*n {
			let ri = rate_prev + (rate_cur - rate_prev) * ((i + 1) as f64 / *n as f64);
			signed += ri;
			magnitude += ri.abs();
		}
		let toward = if rate_cur < 0.0 { -magnitude } else { magnitude };
		lo += signed.min(toward);
		hi += signed.max(toward);
		rate_prev = rate_cur;
	}
	res.count("flip_positions_checked", checked);
	res.hit("type.rate_flips");
	res.nontrivial = true;
	res.callbacks = case.chunks.len() as u64;
	res.behaviour_sig = flips.len() as u64 * 31 + 7;
	res.trace_hash = trace.finish();
	res
}

#[derive(Clone, Copy, Debug, Serialize, Deserialize, PartialEq)]
pub enum Cmd {
	/// frame index (converted to seconds with the sound's rate)
	SeekTo(usize),
	/// relative, in frames
	SeekBy(i64),
	SetLoop(Option<(usize, Option<usize>)>),
	/// pause / resume with instant tweens: the chunk after a pause is silent and consumes nothing,
	/// the chunk after a resume fades in (not compared) and consumes as usual
	Pause,
	Resume,
}

/// 0 = loop region, 1 = seek, 2 = pause / resume: at most one of each per gap
fn cmd_class(c: &Cmd) -> u8 {
	match c {
		Cmd::SetLoop(_) => 0,
		Cmd::SeekTo(_) | Cmd::SeekBy(_) => 1,
		Cmd::Pause | Cmd::Resume => 2,
	}
}

/// Source frames code their own index with a pseudo-random, exactly representable
/// value in (0, 1): not a ramp, so that interpolating between neighbours never
/// reproduces a source value by accident.
fn source_value(i: usize) -> f32 {
	// odd 24-bit numerator: uses the whole f32 mantissa, never zero, unique per index
	((((i as u32 + 1).wrapping_mul(2_654_435_761) & 0x7f_ffff) * 2 + 1) as f32) / SCALE
}

fn source_frame(i: usize) -> Frame {
	let v = source_value(i);
	Frame::new(v, -v)
}

fn decode_index(v: f32, n: usize) -> Option<usize> {
	(0..n).find(|i| source_value(*i) == v)
}

/// Reference integer transport (documented behaviour of looping playback).
#[derive(Clone, Debug)]
struct RefTransport {
	pos: usize,
	looped: Option<(usize, usize)>,
	playing: bool,
	n: usize,
}

impl RefTransport {
	fn norm_loop(l: Option<(usize, Option<usize>)>, n: usize) -> Option<(usize, usize)> {
		let (a, b) = l?;
		let b = b.unwrap_or(n);
		// a region without frames cannot be looped over
		if b > a {
			Some((a, b))
		} else {
			None
		}
	}
	fn forward(&mut self) {
		if !self.playing {
			return;
		}
		self.pos += 1;
		if let Some((a, b)) = self.looped {
			if self.pos >= b {
				self.pos = a + (self.pos - a) % (b - a);
			}
		}
		if self.pos >= self.n {
			self.playing = false;
		}
	}
	fn backward(&mut self) {
		if !self.playing {
			return;
		}
		if let Some((a, b)) = self.looped {
			while self.pos <= a {
				self.pos += b - a;
			}
		}
		if self.pos == 0 {
			self.playing = false;
		} else {
			self.pos -= 1;
		}
	}
	fn seek(&mut self, mut target: usize) {
		if let Some((a, b)) = self.looped {
			let len = b - a;
			if target > self.pos {
				if target >= b {
					target = a + (target - a) % len;
				}
			} else if target < a {
				target += (a - target).div_ceil(len) * len;
			}
		}
		self.pos = target;
		// a seek back into the audio takes effect as long as the sound has not stopped
		self.playing = self.pos < self.n;
	}
}

fn hermite(w: [f64; 4], t: f64) -> f64 {
	let c0 = w[1];
	let c1 = 0.5 * (w[2] - w[0]);
	let c2 = w[0] - 2.5 * w[1] + 2.0 * w[2] - 0.5 * w[3];
	let c3 = 0.5 * (w[3] - w[0]) + 1.5 * (w[1] - w[2]);
	((c3 * t + c2) * t + c1) * t + c0
}

fn gen_case(seed: u64, tier: Tier, small: Option<u64>) -> Case {
	let mut rng = Rng::new(seed);
	// systematic small-scope cases are decoded from `small`; everything else is seeded
	let (len, slice, start, looped, reverse) = if let Some(mut code) = small {
		let mut take = |n: u64| {
			let v = code % n;
			code /= n;
			v as usize
		};
		let len = take(7); // 0..=6
		let s0 = take(4);
		let s1 = take(4);
		let slice = if s0 == 3 { None } else { Some((s0.min(len), (s0 + s1).min(len).max(s0.min(len)))) };
		let n = slice.map(|(a, b)| b - a).unwrap_or(len);
		let start = take(7).min(n.saturating_sub(0));
		let la = take(7);
		let lb = take(8);
		let looped = match lb {
			7 => None,
			6 => Some((la, None)),
			x => Some((la, Some(x + 1))),
		};
		let reverse = take(2) == 1;
		(len, slice, start, looped, reverse)
	} else {
		let len = match rng.below(10) {
			0 => rng.urange(0, 6),
			1..=6 => rng.urange(3, 40),
			_ => rng.urange(40, 600),
		};
		let slice = if rng.chance(0.3) && len > 0 {
			let a = rng.usize_below(len);
			Some((a, rng.urange(a, len)))
		} else {
			None
		};
		let n = slice.map(|(a, b)| b - a).unwrap_or(len);
		let start = if rng.chance(0.5) { 0 } else { rng.usize_below(n + 2) };
		let looped = if rng.chance(0.45) {
			let a = rng.usize_below(n + 1);
			let b = match rng.below(4) {
				0 => None,
				1 => Some(n),
				_ => Some(rng.usize_below(n + 2)),
			};
			Some((a, b))
		} else {
			None
		};
		(len, slice, start, looped, rng.chance(0.3))
	};
	let n = slice.map(|(a, b)| b - a).unwrap_or(len);
	let rates: &[u32] = if known::is_open("C04-rate1-odd-sample-rates") {
		&[8000, 11_025, 22_050, 44_100, 48_000, 96_000, 192_000, 1, 1000]
	} else {
		&[8000, 11_025, 22_050, 44_100, 48_000, 96_000, 192_000, 1, 1000, 8001, 12_345, 47_999]
	};
	let sound_rate = *rng.pick(rates);
	let device_rate = if rng.chance(0.6) { sound_rate } else { *rng.pick(rates) };
	let mut rate = match rng.below(10) {
		0..=4 => 1.0,
		5 => 0.5,
		6 => 2.0,
		7 => std::f64::consts::FRAC_1_SQRT_2,
		8 => rng.frange(0.05, 4.0),
		_ => *rng.pick(&[0.25, 0.75, 1.5, 3.0, 0.999, 1.001]),
	};
	if rng.chance(0.25) {
		rate = -rate;
	}
	let mut start = start;
	if reverse && (n == 0 || start >= n) {
		// num_frames - 1 - start is computed on the caller's thread
		start = 0;
	}
	let reverse = reverse && n > 0;
	let budget = match tier {
		Tier::Quick => 160,
		Tier::Thorough => 500,
	};
	let mut chunks = Vec::new();
	let mut total = 0;
	let mode = rng.below(4);
	while total < budget {
		let c = match mode {
			0 => 1,
			1 => rng.urange(1, 9),
			2 => *rng.pick(&[1usize, 2, 3, 7, 16, 64]),
			_ => rng.urange(1, 40),
		};
		chunks.push(c);
		total += c;
	}
	let mut cmds = Vec::new();
	if small.is_none() && rng.chance(0.4) {
		let k = rng.urange(1, 3);
		for _ in 0..k {
			let at = rng.usize_below(chunks.len());
			let cmd = match rng.below(4) {
				0 | 1 => Cmd::SeekTo(rng.usize_below(n + 3)),
				2 => Cmd::SeekBy(rng.range(-(n as i64) - 2, n as i64 + 2)),
				_ => Cmd::SetLoop(if rng.chance(0.3) {
					None
				} else {
					let a = rng.usize_below(n + 1);
					Some((a, if rng.chance(0.3) { None } else { Some(rng.usize_below(n + 2)) }))
				}),
			};
			cmds.push((at, cmd));
			// a loop-region change and a seek issued between the same two callbacks (the order in
			// which the two take effect is not documented: run_case keeps the pair only when both
			// orders give the same transport)
			if rng.chance(0.3) {
				let second = match cmd {
					Cmd::SetLoop(_) => Cmd::SeekTo(rng.usize_below(n + 3)),
					_ => Cmd::SetLoop(if rng.chance(0.3) {
						None
					} else {
						let a = rng.usize_below(n + 1);
						Some((a, if rng.chance(0.4) { None } else { Some(rng.usize_below(n + 2)) }))
					}),
				};
				cmds.push((at, second));
			}
		}
		// a paused stretch (instant pause, instant resume some gaps later) with seeks inside it:
		// every seek counts, also while nothing is being heard
		if chunks.len() > 3 && rng.chance(0.4) {
			let a = rng.usize_below(chunks.len() - 2);
			let b = (a + 1 + rng.usize_below(6)).min(chunks.len() - 1);
			cmds.push((a, Cmd::Pause));
			cmds.push((b, Cmd::Resume));
			for _ in 0..rng.below(3) {
				let at = rng.urange(a, b + 1);
				cmds.push((
					at,
					if rng.chance(0.5) {
						Cmd::SeekTo(rng.usize_below(n + 3))
					} else {
						Cmd::SeekBy(rng.range(-(n as i64) - 2, n as i64 + 2))
					},
				));
			}
		}
		cmds.sort_by_key(|c| c.0);
		// per gap at most one loop-region change and at most one seek (commands of one kind
		// share a mailbox; two seeks of different kinds do not commute)
		let mut kept: Vec<(usize, Cmd)> = Vec::new();
		for (at, cmd) in cmds {
			if kept.iter().any(|(a, c)| *a == at && cmd_class(c) == cmd_class(&cmd)) {
				continue;
			}
			kept.push((at, cmd));
		}
		cmds = kept;
	}
	Case {
		len,
		slice,
		sound_rate,
		device_rate,
		start,
		looped,
		reverse,
		rate,
		chunks,
		cmds,
		flips: None,
	}
}

pub fn run_case(case: &Case) -> CaseResult {
	if let Some(flips) = &case.flips {
		return run_flips(case, flips);
	}
	let mut res = CaseResult::default();
	let mut trace = Hasher64::new();
	let mut beh = Hasher64::new();
	let n = case.slice.map(|(a, b)| b - a).unwrap_or(case.len);
	let slice_start = case.slice.map(|s| s.0).unwrap_or(0);

	// --- real sound -------------------------------------------------------
	let mut frames: Vec<Frame> = (0..case.len).map(|_| Frame::new(POISON, POISON)).collect();
	for i in 0..n {
		frames[slice_start + i] = source_frame(i);
	}
	let data = StaticSoundData {
		frames: frames.into(),
		..static_data(
			&DataSpec {
				len: 0,
				sample_rate: case.sound_rate,
				signal: Signal::Dc(0.0),
			},
			None,
			&SoundSettingsSpec {
				start_position: Pos::Samples(case.start),
				loop_region: case.looped.map(|(a, b)| RegionSpec {
					start: Pos::Samples(a),
					end: b.map(Pos::Samples),
				}),
				reverse: case.reverse,
				rate: Val::Fixed(Rate(case.rate)),
				..Default::default()
			},
			&NoResolver,
		)
	};
	let slice = case.slice;
	let built = monitor::catch(move || crate::world::apply_slice(data, slice).into_sound());
	let (mut sound, mut handle) = match built {
		Ok(Ok(x)) => x,
		_ => {
			// construction panicked on the caller's thread: outside this property
			res.hit("construction_panicked");
			res.trace_hash = trace.finish();
			return res;
		}
	};
	let info = MockInfoBuilder::new().build();
	let dt = 1.0 / case.device_rate as f64;

	// --- reference --------------------------------------------------------
	let backwards = (case.rate < 0.0) ^ case.reverse;
	let mut tr = RefTransport {
		pos: if case.reverse { n - 1 - case.start } else { case.start },
		looped: RefTransport::norm_loop(case.looped, n),
		playing: true,
		n,
	};
	if tr.pos >= n {
		// a start position outside the audio: nothing to play
	}
	let step = |tr: &mut RefTransport| if backwards { tr.backward() } else { tr.forward() };
	// window of source indices in transport order: [previous, heard, next, next2]
	// (source index if inside the audio, whether the transport was still playing)
	let fetch = |tr: &RefTransport| -> (Option<usize>, bool) { (if tr.playing && tr.pos < n { Some(tr.pos) } else { None }, tr.playing) };
	let mut window: [Option<usize>; 4] = [None; 4];
	let mut since_real = 4usize; // pushes since the transport last delivered a frame
	let push = |window: &mut [Option<usize>; 4], tr: &mut RefTransport, since_real: &mut usize| {
		let (f, real) = fetch(tr);
		window.copy_within(1.., 0);
		window[3] = f;
		if real {
			*since_real = 0;
		} else {
			*since_real += 1;
		}
		step(tr);
	};
	for _ in 0..3 {
		push(&mut window, &mut tr, &mut since_real);
	}
	let exact = case.rate.abs() == 1.0 && case.sound_rate == case.device_rate;
	if exact {
		res.hit("bit_exact_cases");
	}
	let mut frac = 0.0f64;
	let step_size = case.sound_rate as f64 * case.rate.abs() * dt;
	let mut ref_stopped = false;
	let val = |i: Option<usize>| -> f64 { i.map(|i| source_value(i) as f64).unwrap_or(0.0) };

	let mut buf = vec![Frame::ZERO; case.chunks.iter().copied().max().unwrap_or(1)];
	let mut cmd_iter = case.cmds.iter().peekable();
	let mut frames_out = 0u64;
	let mut nonsilent = 0u64;
	// after a seek the 4-frame window still holds old frames: audio is not
	// compared until it has refilled, then re-synchronised to within one frame
	let mut resync_after: Option<usize> = None; // pushes remaining until comparison resumes
	let mut wraps = 0u64;
	let mut last_heard: Option<usize> = None;
	let model_valid = true;
	// after a seek only "within one frame" is promised: exact-rate cases are then
	// compared by decoded frame index +-1, resampled ones by the safety oracles only
	let mut post_seek = false;
	let mut stopped_chunks = 0usize;
	let mut source_frames_since_stop = 0.0f64;
	// pause / resume with instant tweens: a paused sound renders silence and consumes nothing;
	// the first chunk after the resume fades in (its samples are not compared, its frames count)
	let mut ref_paused = false;
	let mut fade_in_chunk = false;

	for (ci, chunk) in case.chunks.iter().enumerate() {
		// gameplay side: commands issued before this callback
		let mut pending: Vec<Cmd> = Vec::new();
		while let Some((at, cmd)) = cmd_iter.peek() {
			if *at <= ci {
				if !pending.iter().any(|c| cmd_class(c) == cmd_class(cmd)) {
					pending.push(*cmd);
				}
				cmd_iter.next();
			} else {
				break;
			}
		}
		// reference step for one command; true if it was a seek that took effect
		let apply = |tr: &mut RefTransport, cmd: Cmd, ref_stopped: bool| -> bool {
			match cmd {
				Cmd::SetLoop(l) => {
					tr.looped = RefTransport::norm_loop(l, n);
					false
				}
				Cmd::Pause | Cmd::Resume => false,
				Cmd::SeekTo(_) | Cmd::SeekBy(_) => {
					if ref_stopped {
						// Stopped is final
						return false;
					}
					let target = match cmd {
						Cmd::SeekTo(i) => i,
						// relative to the transport's current position
						Cmd::SeekBy(d) => (tr.pos as i64 + d).max(0) as usize,
						_ => unreachable!(),
					};
					tr.seek(target);
					true
				}
			}
		};
		let transport_cmds: Vec<usize> = (0..pending.len()).filter(|i| cmd_class(&pending[*i]) < 2).collect();
		if transport_cmds.len() == 2 {
			// the pair is only kept when the two orders of application agree
			let (i, j) = (transport_cmds[0], transport_cmds[1]);
			let (mut a, mut b) = (tr.clone(), tr.clone());
			apply(&mut a, pending[i], ref_stopped);
			apply(&mut a, pending[j], ref_stopped);
			apply(&mut b, pending[j], ref_stopped);
			apply(&mut b, pending[i], ref_stopped);
			if (a.pos, a.playing, a.looped) != (b.pos, b.playing, b.looped) {
				pending.remove(j);
			} else {
				res.hit("loop_and_seek_in_one_period");
			}
		}
		for cmd in &pending {
			match *cmd {
				Cmd::SeekTo(i) => handle.seek_to(i as f64 / case.sound_rate as f64 + 0.25 / case.sound_rate as f64),
				Cmd::SeekBy(d) => handle.seek_by((d as f64 + 0.25) / case.sound_rate as f64),
				Cmd::Pause => handle.pause(kira::Tween {
					duration: std::time::Duration::ZERO,
					..Default::default()
				}),
				Cmd::Resume => handle.resume(kira::Tween {
					duration: std::time::Duration::ZERO,
					..Default::default()
				}),
				Cmd::SetLoop(l) => handle.set_loop_region(l.map(|(a, b)| {
					RegionSpec {
						start: Pos::Samples(a),
						end: b.map(Pos::Samples),
					}
					.k()
				})),
			}
		}
		// audio side
		let r = monitor::catch(|| {
			sound.on_start_processing();
		});
		if let Err(p) = r {
			res.fail(Violation::new("panic", format!("panic: {}", monitor::panic_signature(&p)), format!("on_start_processing at chunk {ci}: {p}")));
			break;
		}
		// reference applies the commands at the same point. A sound that is Paused when a seek
		// arrives (paused in an earlier gap, not resumed in this one) moves its transport but does
		// not put the sought frame into the interpolator: the frames heard right after the resume
		// are the old window's
		let paused_for_seeks = ref_paused && !pending.iter().any(|c| matches!(c, Cmd::Resume));
		for cmd in &pending {
			res.hit("commands_applied");
			match cmd {
				Cmd::Pause if !ref_stopped => ref_paused = true,
				Cmd::Resume if ref_paused => {
					ref_paused = false;
					fade_in_chunk = true;
				}
				_ => {}
			}
			if apply(&mut tr, *cmd, ref_stopped) {
				if !paused_for_seeks {
					// the sought frame enters the window at once
					let (f, real) = fetch(&tr);
					window.copy_within(1.., 0);
					window[3] = f;
					if real {
						since_real = 0;
					} else {
						since_real += 1;
					}
				} else {
					res.hit("seeks_while_paused");
				}
				resync_after = Some(3);
				post_seek = true;
				res.hit("seeks");
			}
		}
		let state_before = handle.state();
		let pos_reported = handle.position();
		// position oracle: names the frame being heard to within one frame
		if model_valid && resync_after.is_none() && !ref_stopped {
			if let Some(h) = window[1] {
				let reported = pos_reported * case.sound_rate as f64;
				let slack = if post_seek { 2.0 } else { 1.0 };
				if !((reported - h as f64).abs() <= slack + 1e-6) {
					res.fail(Violation::new(
						"position",
						"position-off-by-more-than-a-frame",
						format!("chunk {ci}: handle reports position {reported:.3} frames but the frame being heard is {h}"),
					));
					break;
				}
			}
		}
		let out = &mut buf[..*chunk];
		out.fill(Frame::new(POISON, POISON));
		let r = monitor::catch(|| sound.process(out, dt, &info));
		if let Err(p) = r {
			res.fail(Violation::new("panic", format!("panic: {}", monitor::panic_signature(&p)), format!("process at chunk {ci}: {p}")));
			break;
		}
		if ref_paused {
			res.hit("chunks_rendered_while_paused");
			if let Some((k, o)) = out.iter().enumerate().find(|(_, o)| o.left != 0.0 || o.right != 0.0) {
				res.fail(Violation::new("paused", "audio-while-paused", format!("chunk {ci} frame {k}: the sound was paused (instant tween) before this callback but emitted ({}, {})", o.left, o.right)));
				break;
			}
			for o in out.iter() {
				trace.f32(o.left);
				trace.f32(o.right);
			}
			frames_out += out.len() as u64;
			let st = handle.state();
			trace.u64(st as u64);
			if st == PlaybackState::Stopped && !ref_stopped {
				res.fail(Violation::new("end-detection", "stopped-too-early", format!("after chunk {ci}: the paused sound reports Stopped, the reference still has frames to play")));
				break;
			}
			continue;
		}
		let compare_chunk = !fade_in_chunk;
		fade_in_chunk = false;
		for (k, o) in out.iter().enumerate() {
			trace.f32(o.left);
			trace.f32(o.right);
			frames_out += 1;
			// never reads outside its slice
			if o.left.abs() > 4.0 || o.right.abs() > 4.0 || !o.left.is_finite() {
				res.fail(Violation::new(
					"slice",
					"read-outside-slice",
					format!("chunk {ci} frame {k}: output ({}, {}) contains data from outside the slice / unwritten output", o.left, o.right),
				));
				break;
			}
			if o.left != 0.0 {
				nonsilent += 1;
			}
			if state_before == PlaybackState::Stopped && (o.left != 0.0 || o.right != 0.0) {
				res.fail(Violation::new("stopped", "audio-after-stopped", format!("chunk {ci} frame {k}: sound reported Stopped but emitted ({}, {})", o.left, o.right)));
				break;
			}
			if !model_valid {
				continue;
			}
			// reference output for this frame
			let expected_l = if ref_stopped {
				0.0
			} else {
				hermite([val(window[0]), val(window[1]), val(window[2]), val(window[3])], frac as f32 as f64)
			};
			let maxw = window.iter().map(|w| val(*w)).fold(1.0f64, f64::max);
			let comparing = resync_after.is_none() && compare_chunk;
			if comparing && post_seek {
				if exact && !ref_stopped {
					// decode the frame index being heard; it must be within one frame of the reference
					let heard = decode_index(o.left, n);
					let ok = [window[0], window[1], window[2]].iter().any(|w| match w {
						Some(i) => Some(*i) == heard,
						None => o.left == 0.0,
					});
					if !ok || o.right != -o.left {
						res.fail(Violation::new(
							"seek",
							"seek-landed-more-than-a-frame-off",
							format!("chunk {ci} frame {k}: hearing source frame {heard:?} (value {}), reference window {:?}", o.left, window),
						));
						break;
					}
					res.hit("frames_compared_after_seek");
				}
			} else if comparing {
				let got_l = o.left as f64;
				let got_r = o.right as f64;
				let bad = if exact && !ref_stopped {
					// bit-exact reproduction of the source frame
					let want = window[1].map(source_frame).unwrap_or(Frame::ZERO);
					o.left.to_bits() != want.left.to_bits() && !(o.left == 0.0 && want.left == 0.0)
						|| o.right.to_bits() != want.right.to_bits() && !(o.right == 0.0 && want.right == 0.0)
				} else {
					let tol = 2e-5 * maxw;
					!((got_l - expected_l).abs() <= tol) || !((got_r + expected_l).abs() <= tol)
				};
				if bad {
					res.fail(Violation::new(
						"reference-playback",
						if exact { "rate1-not-bit-exact" } else { "resampled-output-mismatch" },
						format!(
							"chunk {ci} frame {k} (output frame {}): got ({}, {}), reference {} from source window {:?} at fraction {frac:.6}",
							frames_out - 1,
							o.left,
							o.right,
							expected_l,
							window
						),
					));
					break;
				}
				res.hit("frames_compared");
			}
			if let (Some(h), Some(prev)) = (window[1], last_heard) {
				if (!backwards && h < prev) || (backwards && h > prev) {
					wraps += 1;
				}
			}
			if window[1].is_some() {
				last_heard = window[1];
			}
			// advance the reference like the documented accumulation
			if !ref_stopped {
				// at rate 1 on a device running at the sound's rate one output frame is
				// exactly one source frame; otherwise accumulate rate x source-rate x dt
				frac += if exact { 1.0 } else { step_size };
				while frac >= 1.0 {
					frac -= 1.0;
					push(&mut window, &mut tr, &mut since_real);
					if let Some(r) = resync_after.as_mut() {
						if *r == 0 {
							resync_after = None;
						} else {
							*r -= 1;
						}
					}
					if !tr.playing && since_real >= 4 {
						ref_stopped = true;
					}
				}
			}
		}
		if res.violation.is_some() {
			break;
		}
		let state_after = handle.state();
		beh.u64(state_after as u64);
		trace.u64(state_after as u64);
		trace.f64(handle.position());
		if post_seek {
			// bounded liveness only: a finished sound reports Stopped within two callbacks - and
			// not before two more source frames' worth of audio has been rendered (whether a seek
			// puts its frame into the interpolator at once or with the next step is not prescribed)
			if ref_stopped && state_after != PlaybackState::Stopped {
				stopped_chunks += 1;
				source_frames_since_stop += *chunk as f64 * if exact { 1.0 } else { step_size };
				if stopped_chunks > 2 && source_frames_since_stop > 2.0 {
					res.fail(Violation::new("end-detection", "not-stopped-after-last-frame", format!("after chunk {ci}: the reference finished {stopped_chunks} callbacks ago but the handle reports {state_after:?}")));
					break;
				}
			}
		} else if model_valid {
			// Stopped is reported once the last frame has left the interpolation
			// window, never earlier
			if state_after == PlaybackState::Stopped && !ref_stopped {
				res.fail(Violation::new(
					"end-detection",
					"stopped-too-early",
					format!("after chunk {ci}: handle reports Stopped, reference still has frames to play (window {window:?})"),
				));
				break;
			}
			if ref_stopped && state_after != PlaybackState::Stopped {
				res.fail(Violation::new(
					"end-detection",
					"not-stopped-after-last-frame",
					format!("after chunk {ci}: reference finished (last frame left the window) but the handle reports {state_after:?}"),
				));
				break;
			}
		}
	}
	if wraps > 0 {
		res.hit("cases_with_loop_wrap");
	}
	if ref_stopped {
		res.hit("cases_reaching_end");
	}
	if case.reverse || case.rate < 0.0 {
		res.hit("cases_backwards");
	}
	if case.slice.is_some() {
		res.hit("cases_with_slice");
	}
	beh.u64(wraps.min(5));
	beh.u64(ref_stopped as u64);
	beh.u64(backwards as u64);
	beh.u64((case.rate.abs() * 16.0) as u64);
	beh.u64(n.min(8) as u64);
	beh.u64(case.looped.is_some() as u64);
	res.frames = frames_out;
	res.callbacks = case.chunks.len() as u64;
	res.sim_seconds = frames_out as f64 * dt;
	res.nontrivial = nonsilent > 0;
	res.behaviour_sig = beh.finish();
	res.trace_hash = trace.finish();
	res
}

pub struct C04;

const SMALL_SPACE: u64 = 7 * 4 * 4 * 7 * 7 * 8 * 2;

impl Check for C04 {
	fn info(&self) -> CheckInfo {
		CheckInfo {
			id: "C04",
			level: "exploration",
			rule: "each case = sound length, slice, start position, loop region (incl. end == length, empty, start inside/after the loop), reverse, playback rate (+/-, 1, 0.5, 2, irrational), sound/device rate pair, chunk-size sequence, and optional seek_to / seek_by / set_loop_region commands at chunk boundaries (a loop-region change and a seek may share one gap when both orders of application give the same transport); 40% of the cases with commands contain a paused stretch (instant pause, instant resume some gaps later) with up to two seeks inside it: silence and no consumption while paused, every seek counts; 1/32 of the cases are a position-only stream: instant playback-rate changes, also of sign, on a long sound - the reported position follows the accumulated rate; the thorough tier adds the complete small-scope space (length <= 6 x slice x start x loop x reverse) as a workload source; non-trivial = non-silent output; distinct = hash of (state after each chunk, loop wraps, end reached, direction, rate class, length class)",
			assumptions: vec![
				"the sound is driven directly through the public Sound trait with MockInfoBuilder, the way Track::process drives it".into(),
				"the reference accumulates rate x source-rate x dt in f64 exactly as the property states; interpolation is compared with tolerance 2e-5 x window magnitude, bit-exactly at rate 1 with equal rates".into(),
				"the order in which commands of different kinds written between the same two callbacks take effect is not part of the property (each kind has its own mailbox; the issue order does not reach the audio thread): pairs whose two orders differ are not generated".into(),
				"after a seek the audio is not compared until the 4-frame window has refilled; from then on rate-1 cases are compared by decoded frame index within +-1 frame, resampled ones by the safety oracles only (slice, finiteness, silence when Stopped, bounded time to Stopped)".into(),
			],
			components: vec![
				("StaticSound, Transport, Resampler, frame interpolation", "real"),
				("command triple buffers (handle -> sound)", "real"),
				("Info (clocks, modulators)", "stub (MockInfoBuilder, empty)"),
			],
		}
	}
	fn num_cases(&self, tier: Tier) -> u64 {
		match tier {
			Tier::Quick => 120_000,
			Tier::Thorough => SMALL_SPACE + 1_500_000,
		}
	}
	fn case(&self, tier: Tier, seed: u64, index: u64) -> Value {
		let small = match tier {
			Tier::Thorough if index < SMALL_SPACE => Some(index),
			// a seeded sample of the small-scope space in the quick tier
			Tier::Quick if index % 4 == 0 => Some(derive_seed(seed, 41, index) % SMALL_SPACE),
			_ => None,
		};
		if small.is_none() && index % 32 == 13 {
			// rate-flip stream (position only)
			let mut rng = Rng::new(derive_seed(seed, 44, index));
			let sr = *rng.pick(&[8000u32, 44_100]);
			let n_chunks = rng.urange(6, 30);
			let mode = rng.below(3);
			let chunks: Vec<usize> = (0..n_chunks)
				.map(|_| match mode {
					0 => *rng.pick(&[8usize, 64, 128]),
					1 => rng.urange(1, 200),
					_ => 64,
				})
				.collect();
			let rates = [1.0, -1.0, 0.5, -0.5, 2.0, -2.0, 1.37, -0.8];
			let mut flips: Vec<(usize, f64)> = (0..rng.urange(1, 5)).map(|_| (rng.urange(1, n_chunks), *rng.pick(&rates))).collect();
			flips.sort_by_key(|f| f.0);
			flips.dedup_by_key(|f| f.0);
			return serde_json::to_value(Case {
				len: 0,
				slice: None,
				sound_rate: sr,
				device_rate: sr,
				start: 0,
				looped: None,
				reverse: false,
				rate: *rng.pick(&rates),
				chunks,
				cmds: vec![],
				flips: Some(flips),
			})
			.unwrap();
		}
		serde_json::to_value(gen_case(derive_seed(seed, 4, index), tier, small)).unwrap()
	}
	fn run(&self, case: &Value) -> CaseResult {
		let case: Case = serde_json::from_value(case.clone()).expect("malformed C04 case");
		run_case(&case)
	}
	fn shrink(&self, case: &Value) -> Vec<Value> {
		let mut out = shrink_ops_array(case, "cmds");
		out.extend(shrink_ops_array(case, "chunks"));
		let c: Case = serde_json::from_value(case.clone()).unwrap();
		let mut push = |c2: Case| out.push(serde_json::to_value(c2).unwrap());
		if c.slice.is_some() {
			let n = c.slice.map(|(a, b)| b - a).unwrap();
			push(Case { slice: None, len: n, ..c.clone() });
		}
		if c.looped.is_some() {
			push(Case { looped: None, ..c.clone() });
		}
		if c.reverse {
			push(Case { reverse: false, ..c.clone() });
		}
		if c.rate != 1.0 {
			push(Case { rate: 1.0, ..c.clone() });
		}
		if c.device_rate != c.sound_rate {
			push(Case { device_rate: c.sound_rate, ..c.clone() });
		}
		if c.start != 0 {
			push(Case { start: 0, ..c.clone() });
		}
		if c.len > 4 && c.slice.is_none() {
			push(Case { len: c.len / 2, ..c.clone() });
		}
		out
	}
}
