//! C03 - sound playback states follow the documented life cycle; Stopped is final.
//!
//! A static or streaming sound is driven callback by callback on a simulated
//! audio clock while a seeded history of pause / resume / resume_at / stop / seek
//! commands is issued at callback boundaries. The documented automaton is run
//! twice - with every timed step as early and as late as "to within one
//! callback" allows - and the state reported by the handle must lie on the path
//! between the two. The gain envelope is read off a looping DC sound: monotone
//! during fades, exact silence while Paused / WaitingToResume / Stopped, exactly
//! unity when Playing; positions frozen while not advancing; Stopped absorbing;
//! finite sounds reach Stopped (bounded liveness).

use std::time::Duration;

use kira::{
	info::MockInfoBuilder,
	sound::{PlaybackState, SoundData},
	Frame, StartTime, Tween,
};
use serde::{Deserialize, Serialize};
use serde_json::Value as Json;

use crate::{
	core::*,
	decoder::DecoderSpec,
	monitor::{self, Role},
	rng::{derive_seed, Hasher64, Rng},
	sched::Sim,
	spec::*,
	world::{static_data, streaming_data, NoResolver},
};

#[derive(Clone, Copy, Debug, Serialize, Deserialize, PartialEq)]
pub struct Tw {
	pub delay: f64,
	pub dur: f64,
	pub easing: EasingSpec,
}

#[derive(Clone, Copy, Debug, Serialize, Deserialize, PartialEq)]
pub enum At {
	Delayed(f64),
	/// ticks on the simulated clock
	Clock(u64),
}

#[derive(Clone, Copy, Debug, Serialize, Deserialize, PartialEq)]
pub enum Cmd {
	Pause(Tw),
	Resume(Tw),
	ResumeAt(At, Tw),
	Stop(Tw),
	SeekTo(f64),
}

#[derive(Clone, Debug, Serialize, Deserialize)]
pub struct Case {
	pub seed: u64,
	pub streaming: bool,
	/// looping DC sound (gain envelope) or finite sound of this many frames
	pub finite_len: Option<usize>,
	pub sample_rate: u32,
	pub rate: f64,
	pub chunks: Vec<usize>,
	pub cmds: Vec<(usize, Cmd)>,
	/// simulated clock for ResumeAt(Clock): ticks per second; the clock disappears
	/// before callback `vanish` if set
	pub clock_speed: f64,
	pub vanish: Option<usize>,
	/// the sound's own start time (None: immediate)
	#[serde(default)]
	pub start: Option<At>,
	/// streaming only: the decoder only just keeps up, and delivers nothing at all during
	/// callbacks [from, from + len): the sound starves (silence), its life cycle must not
	#[serde(default)]
	pub stall: Option<(usize, usize)>,
}

fn gen_tw(rng: &mut Rng, unit: f64) -> Tw {
	Tw {
		delay: if rng.chance(0.8) { 0.0 } else { rng.frange(0.0, 3.0 * unit) },
		dur: match rng.below(5) {
			0 => 0.0,
			1 => 0.3 * unit,
			_ => rng.frange(0.0, 6.0 * unit),
		},
		easing: EasingSpec::gen(rng),
	}
}

fn gen_case(seed: u64, tier: Tier, systematic: Option<u64>) -> Case {
	let mut rng = Rng::new(seed);
	let sample_rate = 1000u32;
	let streaming = rng.chance(0.4);
	let finite_len = if rng.chance(0.5) { Some(rng.urange(1, 400)) } else { None };
	let n_chunks = rng.urange(8, if tier == Tier::Quick { 40 } else { 90 });
	let base = *rng.pick(&[1usize, 4, 16, 32]);
	let chunks: Vec<usize> = (0..n_chunks).map(|_| if rng.chance(0.7) { base } else { rng.urange(1, 40) }).collect();
	let unit = base as f64 / sample_rate as f64;
	let mut cmds = Vec::new();
	if let Some(mut code) = systematic {
		// every sequence of length <= 3 over an 8-command alphabet x 3 timing classes
		let len = 1 + (code % 3) as usize;
		code /= 3;
		let mut at = 1usize;
		for _ in 0..len {
			let c = code % 8;
			code /= 8;
			let timing = code % 3;
			code /= 3;
			let cmd = match c {
				0 => Cmd::Pause(Tw { delay: 0.0, dur: 0.0, easing: EasingSpec::Linear }),
				1 => Cmd::Pause(Tw { delay: 0.0, dur: 4.0 * unit, easing: EasingSpec::Linear }),
				2 => Cmd::Resume(Tw { delay: 0.0, dur: 0.0, easing: EasingSpec::Linear }),
				3 => Cmd::Resume(Tw { delay: 0.0, dur: 4.0 * unit, easing: EasingSpec::Linear }),
				4 => Cmd::ResumeAt(At::Delayed(3.0 * unit), Tw { delay: 0.0, dur: 2.0 * unit, easing: EasingSpec::Linear }),
				5 => Cmd::ResumeAt(At::Clock(2), Tw { delay: 0.0, dur: 2.0 * unit, easing: EasingSpec::Linear }),
				6 => Cmd::Stop(Tw { delay: 0.0, dur: 0.0, easing: EasingSpec::Linear }),
				_ => Cmd::Stop(Tw { delay: 0.0, dur: 4.0 * unit, easing: EasingSpec::Linear }),
			};
			cmds.push((at, cmd));
			// next command: next gap, mid-fade, or after the fade
			at += match timing {
				0 => 1,
				1 => 2,
				_ => 7,
			};
		}
	} else {
		let k = rng.usize_below(6);
		let mut at = rng.usize_below(4);
		for _ in 0..k {
			if at >= n_chunks {
				break;
			}
			let cmd = match rng.below(10) {
				0 | 1 | 2 => Cmd::Pause(gen_tw(&mut rng, unit)),
				3 | 4 => Cmd::Resume(gen_tw(&mut rng, unit)),
				5 => Cmd::ResumeAt(At::Delayed(rng.frange(0.0, 5.0 * unit)), gen_tw(&mut rng, unit)),
				6 => Cmd::ResumeAt(At::Clock(rng.below(4)), gen_tw(&mut rng, unit)),
				7 | 8 => Cmd::Stop(gen_tw(&mut rng, unit)),
				// (a streaming sound applies seeks on its decoder thread, which has long
				// finished for sounds this short: seeks are exercised on static sounds)
				_ if !streaming => Cmd::SeekTo(rng.frange(0.0, 0.3)),
				_ => Cmd::Pause(gen_tw(&mut rng, unit)),
			};
			cmds.push((at, cmd));
			at += 1 + rng.usize_below(8);
		}
	}
	Case {
		seed,
		streaming,
		finite_len,
		sample_rate,
		// the looping DC sound reads the gain envelope: rate 1 keeps its output equal to the gain
		rate: if finite_len.is_none() { 1.0 } else { *rng.pick(&[1.0, 1.0, 0.5, 2.0, 1.37]) },
		chunks,
		cmds,
		clock_speed: *rng.pick(&[20.0, 50.0, 100.0]),
		vanish: if rng.chance(0.25) { Some(rng.usize_below(n_chunks)) } else { None },
		start: match rng.below(10) {
			0 | 1 => Some(At::Delayed(rng.frange(0.0, 12.0 * unit))),
			2 => Some(At::Clock(rng.below(5))),
			_ => None,
		},
		stall: if streaming && finite_len.is_none() && rng.chance(0.3) { Some((rng.usize_below(n_chunks), rng.urange(1, 12))) } else { None },
	}
}

fn kt(t: &Tw) -> Tween {
	Tween {
		start_time: if t.delay > 0.0 { StartTime::Delayed(Duration::from_secs_f64(t.delay)) } else { StartTime::Immediate },
		duration: Duration::from_secs_f64(t.dur),
		easing: t.easing.k(),
	}
}

#[derive(Clone, Copy, Debug, PartialEq)]
enum Wait {
	Time(f64),
	Clock(u64),
}

#[derive(Clone, Copy, Debug, PartialEq)]
enum M {
	Playing,
	Pausing { left: f64 },
	Paused,
	Waiting { wait: Wait, tw_total: f64 },
	Resuming { left: f64 },
	Stopping { left: f64 },
	Stopped,
}

impl M {
	fn state(&self) -> PlaybackState {
		match self {
			M::Playing => PlaybackState::Playing,
			M::Pausing { .. } => PlaybackState::Pausing,
			M::Paused => PlaybackState::Paused,
			M::Waiting { .. } => PlaybackState::WaitingToResume,
			M::Resuming { .. } => PlaybackState::Resuming,
			M::Stopping { .. } => PlaybackState::Stopping,
			M::Stopped => PlaybackState::Stopped,
		}
	}
	fn advancing(&self) -> bool {
		matches!(self, M::Playing | M::Pausing { .. } | M::Resuming { .. } | M::Stopping { .. })
	}
}

/// The documented automaton with explicit timers. `bias` > 0 makes every timed
/// step happen that much earlier, < 0 later.
#[derive(Clone, Debug)]
struct Model {
	m: M,
	bias: f64,
	/// seconds of source audio left before the natural end (None = loops forever)
	audio_left: Option<f64>,
	rate: f64,
	/// the sound's own start time has not been reached yet (no audio, no consumption;
	/// the life cycle itself runs on regardless)
	start_wait: Option<Wait>,
	start_clock_hit: bool,
	/// Stopped because the clock of its start time disappeared
	never_started: bool,
}

impl Model {
	fn command(&mut self, cmd: &Cmd, len_secs: Option<f64>) {
		if self.m == M::Stopped {
			return; // Stopped is final
		}
		match cmd {
			Cmd::Pause(t) => self.m = M::Pausing { left: t.delay + t.dur },
			Cmd::Resume(t) => self.m = M::Resuming { left: t.delay + t.dur },
			Cmd::ResumeAt(at, t) => {
				self.m = M::Waiting {
					wait: match at {
						At::Delayed(d) => Wait::Time(*d),
						At::Clock(c) => Wait::Clock(*c),
					},
					tw_total: t.delay + t.dur,
				}
			}
			Cmd::Stop(t) => self.m = M::Stopping { left: t.delay + t.dur },
			Cmd::SeekTo(p) => {
				if let (Some(_), Some(len)) = (self.audio_left, len_secs) {
					self.audio_left = Some((len - p).max(0.0));
				}
			}
		}
	}

	/// Advances by one callback of `secs` seconds. `clock`: (exists, ticks reached at the end of the callback).
	fn advance(&mut self, secs: f64, clock: Option<f64>) {
		let early = self.bias > 0.0;
		// a step whose remaining time is within the bias window may be taken
		let due = |left: f64, bias: f64| -> bool { left - bias <= 1e-12 };
		match self.start_wait {
			Some(Wait::Time(d)) => {
				self.start_wait = if due(d - secs, self.bias) { None } else { Some(Wait::Time(d - secs)) };
			}
			Some(Wait::Clock(target)) => match clock {
				// a sound waiting for a clock that no longer exists will never start: Stopped
				None => {
					if self.start_clock_hit {
						// (it did start, at the callback at which the clock got there)
					} else {
						self.m = M::Stopped;
						self.never_started = true;
					}
					self.start_wait = None;
				}
				Some(ticks) => {
					if early {
						if ticks + 1e-9 >= target as f64 {
							self.start_wait = None;
						}
					} else if self.start_clock_hit {
						// (late: one callback after the clock got there)
						self.start_wait = None;
					} else if ticks >= target as f64 {
						self.start_clock_hit = true;
					}
				}
			},
			None => {}
		}
		let mut budget = secs;
		for _ in 0..4 {
			match self.m {
				M::Pausing { left } => {
					if due(left - budget, self.bias) {
						self.m = M::Paused;
					} else {
						self.m = M::Pausing { left: left - budget };
						budget = 0.0;
					}
				}
				M::Stopping { left } => {
					if due(left - budget, self.bias) {
						self.m = M::Stopped;
					} else {
						self.m = M::Stopping { left: left - budget };
						budget = 0.0;
					}
				}
				M::Resuming { left } => {
					if due(left - budget, self.bias) {
						self.m = M::Playing;
					} else {
						self.m = M::Resuming { left: left - budget };
						budget = 0.0;
					}
				}
				M::Waiting { wait, tw_total } => match wait {
					Wait::Time(d) => {
						if due(d - budget, self.bias) {
							self.m = M::Resuming { left: tw_total };
							// the fade-in starts at the following callback
							if !early {
								budget = 0.0;
							}
						} else {
							self.m = M::Waiting { wait: Wait::Time(d - budget), tw_total };
							budget = 0.0;
						}
					}
					Wait::Clock(target) => match clock {
						None => {
							// the clock no longer exists: the resume is cancelled
							self.m = M::Stopped;
						}
						Some(ticks) => {
							let reached = if early { ticks + 1e-9 >= target as f64 - 0.0 } else { ticks >= target as f64 };
							if reached {
								self.m = M::Resuming { left: tw_total };
								if !early {
									budget = 0.0;
								}
							} else {
								budget = 0.0;
							}
						}
					},
				},
				_ => break,
			}
			if budget <= 0.0 {
				break;
			}
		}
		// natural end
		if let Some(_left) = self.audio_left.as_mut() {
			// (whether the natural end has been reached is decided by the caller from the
			// consumption of both models: staying in a fading state longer consumes more)
		}
	}
}

/// States on the forward path from `late` to `early` (inclusive).
fn allowed(late: &M, early: &M) -> Vec<PlaybackState> {
	use PlaybackState::*;
	let (a, b) = (late.state(), early.state());
	let mut v = vec![a, b];
	let chain: &[PlaybackState] = match a {
		WaitingToResume => &[WaitingToResume, Resuming, Playing, Stopped],
		Pausing => &[Pausing, Paused, Stopped],
		Stopping => &[Stopping, Stopped],
		Resuming => &[Resuming, Playing, Stopped],
		Playing => &[Playing, Stopped],
		_ => &[],
	};
	if let (Some(i), Some(j)) = (chain.iter().position(|s| *s == a), chain.iter().position(|s| *s == b)) {
		if i <= j {
			v.extend_from_slice(&chain[i..=j]);
		}
	}
	v
}

pub fn run_case(case: &Case) -> CaseResult {
	let mut res = CaseResult::default();
	let mut trace = Hasher64::new();
	let mut beh = Hasher64::new();
	let sim = Sim::new(case.seed);
	// (clock ids of MockInfoBuilder are positional: the first clock of every builder has this id)
	struct OneClock(kira::clock::ClockId);
	impl Resolver for OneClock {
		fn clock_time(&self, _: usize, ticks: u64, fraction: f64) -> Option<kira::clock::ClockTime> {
			Some(kira::clock::ClockTime {
				clock: self.0,
				ticks,
				fraction,
			})
		}
		fn modulator_id(&self, _: usize) -> Option<kira::modulator::ModulatorId> {
			None
		}
	}
	let r = OneClock(MockInfoBuilder::new().add_clock(true, 0, 0.0));
	let _ = NoResolver;
	let sr = case.sample_rate;
	let dc = 0.5f32;
	let data = match case.finite_len {
		None => DataSpec {
			len: 8,
			sample_rate: sr,
			signal: Signal::Dc(dc),
		},
		Some(n) => DataSpec {
			len: n,
			sample_rate: sr,
			signal: Signal::Index { scale: 1024.0 },
		},
	};
	let settings = SoundSettingsSpec {
		loop_region: if case.finite_len.is_none() {
			Some(RegionSpec {
				start: Pos::Samples(0),
				end: None,
			})
		} else {
			None
		},
		rate: Val::Fixed(Rate(case.rate)),
		start: match case.start {
			None => StartSpec::Immediate,
			Some(At::Delayed(d)) => StartSpec::Delayed(d),
			Some(At::Clock(c)) => StartSpec::Clock {
				clock: 0,
				ticks: c,
				fraction: 0.0,
			},
		},
		..Default::default()
	};
	enum H {
		S(kira::sound::static_sound::StaticSoundHandle),
		D(kira::sound::streaming::StreamingSoundHandle<crate::decoder::ScriptErr>),
	}
	let built = if case.streaming {
		let (sd, _probe) = streaming_data(
			&DecoderSpec {
				data,
				packets: vec![7, 64],
				seek_gran: 4,
				fail_decode: vec![],
				fail_seek: vec![],
				fail_sticky: false,
				slow: 0,
			},
			None,
			&settings,
			&r,
		);
		monitor::catch(move || sd.into_sound().map(|(s, h)| (s, H::D(h))).map_err(|_| ()))
	} else {
		let sd = static_data(&data, None, &settings, &r);
		monitor::catch(move || sd.into_sound().map(|(s, h)| (s, H::S(h))))
	};
	let (mut sound, mut handle) = match built {
		Ok(Ok(x)) => x,
		_ => {
			res.hit("construction_failed");
			sim.shutdown();
			return res;
		}
	};
	let decoders = sim.live_tasks(Role::Decoder);
	let dt = 1.0 / sr as f64;
	let max_cb = case.chunks.iter().copied().max().unwrap_or(1) as f64 * dt;
	let len_secs = case.finite_len.map(|n| n as f64 / sr as f64);
	let mk = |bias: f64| Model {
		m: M::Playing,
		bias,
		audio_left: len_secs,
		rate: case.rate,
		start_wait: case.start.map(|a| match a {
			At::Delayed(d) => Wait::Time(d),
			At::Clock(c) => Wait::Clock(c),
		}),
		start_clock_hit: false,
		never_started: false,
	};
	// "to within one callback": early = one callback (plus the interpolation window) ahead,
	// late = two callbacks behind
	let window = 5.0 / sr as f64 / case.rate.min(1.0);
	let mut early = mk(max_cb + window);
	let mut late = mk(-(2.0 * max_cb + window));
	let mut cmd_iter = case.cmds.iter().peekable();
	let mut clock_ticks = 0.0f64;
	let mut buf = vec![Frame::ZERO; case.chunks.iter().copied().max().unwrap_or(1)];
	let mut last_pos: Option<f64> = None;
	let mut frozen_for = 0usize;
	let mut last_gain: Option<f32> = None;
	let mut states_seen = 0u64;
	let mut nonsilent = false;
	let mut stopped_seen = false;
	let (mut consumed_min, mut consumed_max) = (0.0f64, 0.0f64);
	// a fade whose start value is known exactly (from unity / from silence): (audio time of its first callback, tween, downwards?)
	let mut known_fade: Option<(f64, Tw, bool)> = None;
	// the fade-in tween of a resume / resume_at issued while the sound was surely Paused: whenever it
	// fires, a callback that began with the sound not advancing cannot be louder than that fade-in
	// can have got since the callback began
	let mut quiet_resume: Option<Tw> = None;
	let mut audio_time = 0.0f64;
	for (ci, chunk) in case.chunks.iter().enumerate() {
		let secs = *chunk as f64 * dt;
		let clock_exists = case.vanish.map(|v| ci < v).unwrap_or(true);
		let mut b = MockInfoBuilder::new();
		let mut clock_id = None;
		if clock_exists {
			clock_ticks += case.clock_speed * secs;
			clock_id = Some(b.add_clock(true, clock_ticks.floor() as u64, clock_ticks.fract()));
		} else {
			// keeps ids stable for ResumeAt commands issued after the clock vanished
			let mut tmp = MockInfoBuilder::new();
			clock_id = Some(tmp.add_clock(true, 0, 0.0)).or(clock_id);
		}
		let info = b.build();
		let mut lifecycle_cmd = None;
		let (pre_early, pre_late) = (early.m, late.m);
		while let Some((at, cmd)) = cmd_iter.peek() {
			if *at > ci {
				break;
			}
			macro_rules! both {
				($h:ident => $e:expr) => {
					match &mut handle {
						H::S($h) => $e,
						H::D($h) => $e,
					}
				};
			}
			match cmd {
				Cmd::Pause(t) => both!(h => h.pause(kt(t))),
				Cmd::Resume(t) => both!(h => h.resume(kt(t))),
				Cmd::ResumeAt(at, t) => {
					let st = match at {
						At::Delayed(d) => StartTime::Delayed(Duration::from_secs_f64(*d)),
						At::Clock(c) => StartTime::ClockTime(kira::clock::ClockTime {
							clock: clock_id.unwrap(),
							ticks: *c,
							fraction: 0.0,
						}),
					};
					both!(h => h.resume_at(st, kt(t)))
				}
				Cmd::Stop(t) => both!(h => h.stop(kt(t))),
				Cmd::SeekTo(p) => both!(h => h.seek_to(*p)),
			}
			early.command(cmd, len_secs);
			late.command(cmd, len_secs);
			if matches!(cmd, Cmd::SeekTo(_)) {
				consumed_min = 0.0;
				consumed_max = 0.0;
			}
			lifecycle_cmd = Some(*cmd);
			res.hit("commands");
			cmd_iter.next();
		}
		for d in &decoders {
			match case.stall {
				None => {
					let _ = sim.step(*d, 40_000);
				}
				Some((from, len)) => {
					if ci >= from && ci < from + len {
						res.hit("callbacks_with_stalled_decoder");
					} else {
						// only just in time: what this callback needs, plus the interpolation window
						let _ = sim.step(*d, (*chunk as f64 * case.rate).ceil() as u64 + 6);
					}
				}
			}
		}
		let before_early = early.m;
		let before_late = late.m;
		let out = &mut buf[..*chunk];
		out.fill(Frame::new(9.0, 9.0));
		let rr = monitor::catch(|| {
			sound.on_start_processing();
			sound.process(out, dt, &info);
		});
		if let Err(p) = rr {
			res.fail(Violation::new("panic", format!("panic: {}", monitor::panic_signature(&p)), format!("callback {ci}: {p}")));
			break;
		}
		let clock_arg = if clock_exists { Some(clock_ticks) } else { None };
		let (early_adv, late_adv) = (early.m.advancing(), late.m.advancing());
		// started for sure before this callback / possibly started by the end of it
		let surely_started = late.start_wait.is_none();
		early.advance(secs, clock_arg);
		late.advance(secs, clock_arg);
		let maybe_started = early.start_wait.is_none();
		if !maybe_started {
			res.hit("callbacks_before_start_time");
		}
		if let Some(len) = len_secs {
			let margin = 5.0 / sr as f64 * case.rate.max(1.0); // the 4-frame interpolation window
			// the real sound is somewhere between the two models: it may have consumed
			// audio in this callback if either model was advancing at some point of it,
			// and it surely has if both were advancing throughout
			let any_adv = (early_adv || late_adv || early.m.advancing() || late.m.advancing()) && maybe_started;
			let all_adv = early_adv && late_adv && early.m.advancing() && late.m.advancing() && surely_started;
			if any_adv {
				consumed_max += secs * case.rate;
			}
			if all_adv {
				consumed_min += secs * case.rate;
			}
			let seek_base = early.audio_left.map(|l| len - l).unwrap_or(0.0); // position set by the last seek
			if any_adv && seek_base + consumed_max >= len - margin && early.m != M::Stopped {
				early.m = M::Stopped;
			}
			if all_adv && seek_base + consumed_min >= len + margin + 2.0 * secs * case.rate {
				late.m = M::Stopped;
			}
		}
		let (state, pos) = match &handle {
			H::S(h) => (h.state(), h.position()),
			H::D(h) => (h.state(), h.position()),
		};
		if std::env::var("KVERIF_DEBUG").is_ok() {
			eprintln!("cb {ci} ({chunk} frames): state {state:?} pos {pos:.4} early {:?} late {:?} out[0]={:?} out[last]={:?}", early.m, late.m, out.first().map(|f| f.left), out.last().map(|f| f.left));
		}
		trace.u64(state as u64);
		for f in out.iter() {
			trace.f32(f.left);
			if f.left != 0.0 {
				nonsilent = true;
			}
		}
		beh.u64(state as u64);
		states_seen |= 1 << state as u64;
		// ---- state oracle --------------------------------------------------
		let ok_states = allowed(&late.m, &early.m);
		if !ok_states.contains(&state) {
			res.fail(Violation::new(
				"life-cycle",
				format!("state-{state:?}-not-allowed"),
				format!(
					"after callback {ci}: handle reports {state:?}; the documented life cycle allows {:?} (timed steps taken as late as possible: {:?}, as early as possible: {:?}); last command {:?}",
					ok_states, late.m, early.m, lifecycle_cmd
				),
			));
			break;
		}
		if stopped_seen && state != PlaybackState::Stopped {
			res.fail(Violation::new("life-cycle", "left-stopped", format!("after callback {ci}: the sound had reported Stopped and now reports {state:?}")));
			break;
		}
		if sound.finished() != (state == PlaybackState::Stopped) {
			res.fail(Violation::new("life-cycle", "finished-flag-disagrees", format!("after callback {ci}: finished() = {} but the handle reports {state:?}", sound.finished())));
			break;
		}
		// ---- silence / freeze oracle ---------------------------------------
		// certain to have been non-advancing during the whole callback
		let quiet = |m: &M| matches!(m, M::Paused | M::Waiting { .. } | M::Stopped);
		// (the early model leaves a quiet state first: if even it is still there, and both
		// models agree on which state it is, the sound was quiet for the whole callback)
		let surely_quiet = quiet(&before_early)
			&& before_early.state() == before_late.state()
			&& early.m.state() == before_early.state()
			&& late.m.state() == before_early.state()
			&& lifecycle_cmd.is_none();
		if surely_quiet {
			if let Some((k, f)) = out.iter().enumerate().find(|(_, f)| f.left != 0.0 || f.right != 0.0) {
				res.fail(Violation::new(
					"silence",
					"audio-while-not-advancing",
					format!("callback {ci} frame {k}: emitted ({}, {}) while the sound is {:?}", f.left, f.right, early.m.state()),
				));
				break;
			}
			frozen_for += 1;
			// (a starving streaming sound reports the position of the last frame it saw and
			// corrects it when data arrives again: not judged in the stalled-decoder cases)
			if let (Some(lp), true) = (last_pos, frozen_for >= 2 && case.stall.is_none()) {
				if pos != lp {
					res.fail(Violation::new("silence", "position-advanced-while-not-advancing", format!("callback {ci}: position moved from {lp} to {pos} while {:?}", early.m.state())));
					break;
				}
			}
			res.hit("quiet_callbacks_checked");
		} else {
			frozen_for = 0;
		}
		if !maybe_started {
			if let Some((k, f)) = out.iter().enumerate().find(|(_, f)| f.left != 0.0 || f.right != 0.0) {
				res.fail(Violation::new(
					"silence",
					"audio-before-start-time",
					format!("callback {ci} frame {k}: emitted ({}, {}) although the sound's start time {:?} has not been reached", f.left, f.right, case.start),
				));
				break;
			}
		}
		if stopped_seen {
			if out.iter().any(|f| f.left != 0.0 || f.right != 0.0) {
				res.fail(Violation::new("silence", "audio-after-stopped", format!("callback {ci}: audio emitted after Stopped")));
				break;
			}
		}
		last_pos = Some(pos);
		// ---- envelope oracle (looping DC sound: output == gain * dc) ----------
		if let Some(cmd) = lifecycle_cmd {
			quiet_resume = match cmd {
				Cmd::Resume(t) | Cmd::ResumeAt(_, t) if pre_early == M::Paused && pre_late == M::Paused => Some(t),
				Cmd::SeekTo(_) => quiet_resume,
				_ => None,
			};
			known_fade = match cmd {
				Cmd::Pause(t) | Cmd::Stop(t) if pre_early == M::Playing && pre_late == M::Playing => Some((audio_time, t, true)),
				Cmd::Resume(t) if pre_early == M::Paused && pre_late == M::Paused => Some((audio_time, t, false)),
				Cmd::SeekTo(_) => known_fade,
				_ => None,
			};
		}
		if case.finite_len.is_none() && !surely_started {
			// nothing is heard of the fades before the sound's start time
			last_gain = None;
		}
		if early.never_started || late.never_started {
			known_fade = None;
		}
		// (a starving sound is silent whatever its gain: the envelope is only read off fed sounds)
		if case.finite_len.is_none() && surely_started && case.stall.is_none() {
			if let Some((t0, tw, down)) = known_fade {
				// the gain follows the fade: between the curve one callback early and one late
				let slack = max_cb + 2.0 * dt + if tw.delay > 0.0 { max_cb } else { 0.0 };
				let curve = |e: f64| -> f64 {
					let x = if tw.dur <= 0.0 { if e > tw.delay { 1.0 } else { 0.0 } } else { ((e - tw.delay) / tw.dur).clamp(0.0, 1.0) };
					let p = tw.easing.apply(x);
					let db = if down { -60.0 * p } else { -60.0 * (1.0 - p) };
					if db <= -60.0 { 0.0 } else { 10f64.powf(db / 20.0) }
				};
				for (k, f) in out.iter().enumerate() {
					let e = audio_time + (k + 1) as f64 * dt - t0;
					let (a, b) = (curve(e - slack), curve(e + slack));
					let (lo, hi) = (a.min(b), a.max(b));
					let g = (f.left / dc) as f64;
					if g < lo - 1e-4 || g > hi + 1e-4 {
						res.fail(Violation::new(
							"envelope",
							"gain-off-the-fade-curve",
							format!("callback {ci} frame {k}: gain {g:.6} but the fade ({:?}, {:.4}s into it) puts it within [{lo:.6}, {hi:.6}]", tw, e),
						));
						break;
					}
				}
				if res.violation.is_some() {
					break;
				}
				res.hit("fade_curve_callbacks_checked");
			}
			if let (Some(tw), true, true) = (quiet_resume, quiet(&before_early), quiet(&before_late)) {
				for (k, f) in out.iter().enumerate() {
					// (within the callback the gain is interpolated towards the value at its end:
					// nothing in it can exceed that)
					let _ = k;
					let e = (out.len() + 2) as f64 * dt;
					let x = if tw.dur <= 0.0 { 1.0 } else { (e / tw.dur).clamp(0.0, 1.0) };
					let db = -60.0 * (1.0 - tw.easing.apply(x));
					let hi = if db <= -60.0 { 0.0 } else { 10f64.powf(db / 20.0) };
					let g = (f.left / dc) as f64;
					if g > hi + 1e-4 {
						res.fail(Violation::new(
							"envelope",
							"louder-than-the-fade-in-at-its-start",
							format!("callback {ci} frame {k}: gain {g:.6}; the sound was not advancing when this callback began and resumes with a fade-in of {:.4}s, which cannot get beyond {hi:.6} by the end of this callback", tw.dur),
						));
						break;
					}
				}
				if res.violation.is_some() {
					break;
				}
				res.hit("resume_starts_checked");
			}
			let dir_down = |m: &M| matches!(m, M::Pausing { .. } | M::Stopping { .. } | M::Paused | M::Stopped);
			let dir_up = |m: &M| matches!(m, M::Resuming { .. } | M::Playing);
			let down = dir_down(&before_early) && dir_down(&before_late);
			let up = dir_up(&before_early) && dir_up(&before_late) && dir_up(&early.m) && dir_up(&late.m);
			// what was emitted while the sound was not advancing is silence, not the fade
			// value: monotonicity is judged within stretches of advancing playback
			let mut prev = if quiet(&before_early) || quiet(&before_late) || lifecycle_cmd.is_some() { None } else { last_gain };
			for (k, f) in out.iter().enumerate() {
				let g = f.left / dc;
				if f.left != f.right || !(0.0..=1.0 + 1e-6).contains(&g) {
					res.fail(Violation::new("envelope", "gain-out-of-range", format!("callback {ci} frame {k}: output ({}, {}) is not a gain in [0, 1] times the DC level", f.left, f.right)));
					break;
				}
				if let Some(p) = prev {
					if down && g > p + 1e-6 {
						res.fail(Violation::new("envelope", "fade-out-not-monotone", format!("callback {ci} frame {k}: gain rose from {p} to {g} during a fade to silence")));
						break;
					}
					if up && g < p - 1e-6 {
						res.fail(Violation::new("envelope", "fade-in-not-monotone", format!("callback {ci} frame {k}: gain fell from {p} to {g} during a fade to unity")));
						break;
					}
				}
				prev = Some(g);
			}
			if res.violation.is_some() {
				break;
			}
			last_gain = if quiet(&early.m) || quiet(&late.m) { None } else { prev };
			// exactly unity once Playing for sure
			if before_early.m_is_playing() && before_late.m_is_playing() && early.m == M::Playing && late.m == M::Playing {
				if let Some(f) = out.last() {
					if f.left != dc {
						res.fail(Violation::new("envelope", "not-exactly-unity", format!("callback {ci}: Playing with no fade in progress but the gain is {} instead of exactly 1", f.left / dc)));
						break;
					}
				}
				res.hit("unity_callbacks_checked");
			}
		}
		if state == PlaybackState::Stopped {
			stopped_seen = true;
		}
		audio_time += secs;
	}
	for (role, name, msg) in sim.take_panics() {
		res.fail(Violation::new("panic", format!("task-panic: {}", monitor::panic_signature(&msg)), format!("{role:?} task {name}: {msg}")));
	}
	if stopped_seen {
		res.hit("cases_reaching_stopped");
	}
	res.callbacks = case.chunks.len() as u64;
	res.frames = case.chunks.iter().sum::<usize>() as u64;
	res.sim_seconds = res.frames as f64 * dt;
	res.nontrivial = nonsilent && states_seen.count_ones() >= 2;
	beh.u64(case.streaming as u64);
	beh.u64(case.finite_len.is_some() as u64);
	drop(sound);
	drop(handle);
	sim.shutdown();
	res.behaviour_sig = beh.finish();
	res.trace_hash = trace.finish();
	res
}

trait IsPlaying {
	fn m_is_playing(&self) -> bool;
}
impl IsPlaying for M {
	fn m_is_playing(&self) -> bool {
		*self == M::Playing
	}
}

pub struct C03;

const SYSTEMATIC: u64 = 3 * 24 * 24 * 24;

impl Check for C03 {
	fn info(&self) -> CheckInfo {
		CheckInfo {
			id: "C03",
			level: "exploration",
			rule: "each case = static or streaming sound (looping DC for the gain envelope, or finite for the natural end), playback rate, callback-size sequence, the sound's own start time (immediate, delayed, or on the simulated clock), simulated clock (may vanish) and a history of pause / resume / resume_at (delayed, clock) / stop / seek_to with tweens of arbitrary duration, easing and delayed start, at most one life-cycle command per gap; the systematic part enumerates every command sequence of length <= 3 over an 8-command alphabet x 3 timing classes as a workload source; non-trivial = non-silent output and >= 2 distinct states reported; distinct = hash of the per-callback reported-state sequence x sound kind",
			assumptions: vec![
				"'to within one callback': the automaton is run with every timed step one callback (+ the 4-frame interpolation window) early and two callbacks late; the reported state must lie on the forward path between the two".into(),
				"at most one life-cycle command per gap between two callbacks (the relative order of different command kinds written in one gap is not documented)".into(),
				"the sound is driven directly through the public Sound trait; clocks are a MockInfo rebuilt per callback".into(),
			],
			components: vec![
				("StaticSound / StreamingSound, PlaybackStateManager, Parameter, StartTime, command buffers", "real"),
				("DecodeScheduler thread", "real, gated by the simulator"),
				("Decoder, clock info", "stub (scripted decoder, MockInfoBuilder)"),
			],
		}
	}
	fn num_cases(&self, tier: Tier) -> u64 {
		match tier {
			Tier::Quick => 60_000,
			Tier::Thorough => SYSTEMATIC * 2 + 1_000_000,
		}
	}
	fn case(&self, tier: Tier, seed: u64, index: u64) -> Json {
		let systematic = match tier {
			Tier::Thorough if index < SYSTEMATIC * 2 => Some(index % SYSTEMATIC),
			Tier::Quick if index % 3 == 0 => Some(derive_seed(seed, 31, index) % SYSTEMATIC),
			_ => None,
		};
		serde_json::to_value(gen_case(derive_seed(seed, 3, index), tier, systematic)).unwrap()
	}
	fn run(&self, case: &Json) -> CaseResult {
		let case: Case = serde_json::from_value(case.clone()).expect("malformed C03 case");
		run_case(&case)
	}
	fn shrink(&self, case: &Json) -> Vec<Json> {
		let mut out = shrink_ops_array(case, "cmds");
		let c: Case = serde_json::from_value(case.clone()).unwrap();
		if c.chunks.len() > 4 {
			let mut c2 = c.clone();
			c2.chunks.truncate(c.chunks.len() - c.chunks.len() / 4 - 1);
			out.push(serde_json::to_value(c2).unwrap());
		}
		if c.streaming {
			out.push(serde_json::to_value(Case { streaming: false, ..c.clone() }).unwrap());
		}
		if c.vanish.is_some() {
			out.push(serde_json::to_value(Case { vanish: None, ..c.clone() }).unwrap());
		}
		if c.rate != 1.0 {
			out.push(serde_json::to_value(Case { rate: 1.0, ..c.clone() }).unwrap());
		}
		out
	}
}
