//! C15, scheduled stream: a spatial track must find the listener that was created before it.
//!
//! The caller creates a listener, then a spatial track bound to it, then plays
//! a sound on it, while an audio task runs callbacks; both are preempted at the
//! yield points of the resource rings by the seeded scheduler. Whatever the
//! interleaving, once everything has been picked up the track is audible: "the
//! listener does not exist" may only ever be concluded for a listener that
//! really does not exist.

use std::sync::{Arc, Mutex};

use glam::{Quat, Vec3};
use kira::{
	sound::static_sound::StaticSoundData,
	track::SpatialTrackBuilder,
	AudioManager, AudioManagerSettings, Frame,
};
use serde::{Deserialize, Serialize};

use crate::{
	backend::{SimBackend, SimBackendSettings},
	core::*,
	monitor::{self, panic_signature, Role},
	rng::{Hasher64, Rng},
	sched::Sim,
};

#[derive(Clone, Debug, Serialize, Deserialize)]
pub struct SchedCase {
	pub seed: u64,
	pub warm: usize,
	pub callbacks: usize,
	pub switch_prob: f64,
	/// the spatial track is nested in a plain track
	pub nested: bool,
}

pub fn gen(rng: &mut Rng) -> SchedCase {
	SchedCase {
		seed: rng.next_u64(),
		warm: rng.usize_below(2),
		callbacks: rng.urange(2, 6),
		switch_prob: *rng.pick(&[0.03, 0.1, 0.3, 0.6, 0.9]),
		nested: rng.chance(0.3),
	}
}

pub fn run(case: &SchedCase) -> CaseResult {
	let mut res = CaseResult::default();
	let mut beh = Hasher64::new();
	let sim = Sim::new(case.seed);
	sim.set_random_params(case.switch_prob, 0.1, 60_000);
	let manager = monitor::catch(|| {
		AudioManager::<SimBackend>::new(AudioManagerSettings {
			internal_buffer_size: 8,
			backend_settings: SimBackendSettings { sample_rate: 8000 },
			..Default::default()
		})
		.unwrap()
	});
	let Ok(mut manager) = manager else {
		sim.shutdown();
		return res;
	};
	let device = manager.backend_mut().device.clone();
	let mut out = Vec::new();
	for _ in 0..case.warm {
		let _ = device.callback(8, 2, &mut out);
	}
	let keep: Arc<Mutex<Vec<Box<dyn std::any::Any + Send>>>> = Arc::new(Mutex::new(vec![]));
	let manager = Arc::new(Mutex::new(Some(manager)));
	{
		let (keep, manager, nested) = (keep.clone(), manager.clone(), case.nested);
		sim.spawn_task(
			"gameplay",
			Role::Gameplay,
			Box::new(move || {
				let mut g = manager.lock().unwrap();
				let m = g.as_mut().unwrap();
				let listener = m.add_listener(Vec3::ZERO, Quat::IDENTITY).unwrap();
				kira::verif::yield_point("gameplay.between_ops");
				let b = SpatialTrackBuilder::new().distances((1.0, 100.0)).spatialization_strength(0.0);
				let mut t = if nested {
					let mut p = m.add_sub_track(kira::track::TrackBuilder::new()).unwrap();
					kira::verif::yield_point("gameplay.between_ops");
					let t = p.add_spatial_sub_track(&listener, Vec3::new(0.0, 0.0, 2.0), b).unwrap();
					keep.lock().unwrap().push(Box::new(p));
					t
				} else {
					m.add_spatial_sub_track(&listener, Vec3::new(0.0, 0.0, 2.0), b).unwrap()
				};
				kira::verif::yield_point("gameplay.between_ops");
				let h = t
					.play(
						StaticSoundData {
							sample_rate: 8000,
							// a ramp, so that the first frame heard can be told from a later one
							frames: (0..64).map(|i| Frame::from_mono(0.1 + 0.01 * i as f32)).collect::<Vec<_>>().into(),
							settings: Default::default(),
							slice: None,
						}
						.loop_region(0.0..),
					)
					.unwrap();
				keep.lock().unwrap().push(Box::new(listener));
				keep.lock().unwrap().push(Box::new(t));
				keep.lock().unwrap().push(Box::new(h));
			}),
		);
	}
	// every rendered sample, in order
	let rendered: Arc<Mutex<Vec<f32>>> = Arc::new(Mutex::new(vec![]));
	{
		let (device, n, rendered) = (device.clone(), case.callbacks, rendered.clone());
		sim.spawn_task(
			"audio",
			Role::Audio,
			Box::new(move || {
				let mut out = Vec::new();
				for _ in 0..n {
					let rep = device.callback(8, 2, &mut out);
					if let Some(p) = rep.panic {
						panic!("{p}");
					}
					rendered.lock().unwrap().extend_from_slice(&out);
					kira::verif::yield_point("audio.between_callbacks");
				}
			}),
		);
	}
	sim.run_random();
	res.count("context_switches", sim.switches());
	if sim.capped() {
		res.inconclusive = true;
	}
	for (role, name, msg) in sim.take_panics() {
		res.fail(Violation::new("finite", format!("task-panic: {}", panic_signature(&msg)), format!("{role:?} task {name} panicked: {msg}")));
	}
	let mut audible = false;
	for k in 0..3 {
		let rep = device.callback(8, 2, &mut out);
		if let Some(p) = rep.panic {
			res.fail(Violation::new("finite", format!("audio-panic: {}", panic_signature(&p)), p));
		}
		rendered.lock().unwrap().extend_from_slice(&out);
		if k == 2 {
			audible = out.iter().all(|s| *s > 0.0);
		}
	}
	// nothing of the sound is lost: the first frame ever heard is the sound's first frame
	// (a track that rendered a callback without its listener consumes the sound in silence)
	if res.violation.is_none() && !res.inconclusive {
		let r = rendered.lock().unwrap();
		let left: Vec<f32> = r.chunks(2).map(|f| f[0]).collect();
		if let Some(f0) = left.iter().position(|s| *s != 0.0) {
			if f0 + 1 < left.len() && left[f0 + 1] != 0.0 {
				let ratio = left[f0 + 1] / left[f0];
				if !((ratio - 1.1).abs() <= 1e-3) {
					res.fail(Violation::new(
						"needs-listener",
						"sound-consumed-in-silence",
						format!(
							"the first frames heard from a sound (a ramp 0.10, 0.11, 0.12 ...) played on a spatial track created right after its listener are {} and {} (ratio {ratio:.4}, not 1.1): the track had already been consuming the sound in silence - it ran without the listener that was created before it",
							left[f0],
							left[f0 + 1]
						),
					));
				} else {
					res.hit("first_frame_heard_is_the_first_frame");
				}
			}
		}
	}
	if res.violation.is_none() && !res.inconclusive && !audible {
		res.fail(Violation::new(
			"needs-listener",
			"silent-with-listener",
			format!(
				"a spatial track{} bound to a listener that was created just before it (handle alive, 2 units away, max distance 100) is silent three undisturbed callbacks after the race",
				if case.nested { " nested in a plain track" } else { "" }
			),
		));
	} else {
		res.hit("spatial_tracks_audible_after_race");
	}
	beh.u64(sim.trace_hash());
	res.nontrivial = true;
	res.callbacks = (case.warm + case.callbacks + 3) as u64;
	res.hit("type.sched_listener_then_track");
	res.trace_hash = sim.trace_hash();
	res.behaviour_sig = beh.finish();
	drop(keep);
	drop(manager);
	sim.shutdown();
	res
}
