//! C06 - tweens start on time, follow their easing, end exactly on target, never jump.
//!
//! The public `kira::Parameter` is driven update by update on a simulated audio
//! clock (arbitrary partitions of the time axis, start times immediate / delayed
//! / on a simulated clock that may pause) next to the closed form
//! `start + (target - start) * ease(elapsed / duration)`. Timing is allowed one
//! update of quantisation; end points, holding, range and continuity are exact.
//! A second stream reads the gain envelope of a DC sound whose volume is tweened.

use std::time::Duration;

use kira::{
	clock::{ClockSpeed, ClockTime},
	info::MockInfoBuilder,
	sound::{static_sound::StaticSoundData, SoundData},
	Decibels, Frame, Mix, Panning, Parameter, PlaybackRate, StartTime, Tween, Tweenable, Value,
};
use serde::{Deserialize, Serialize};
use serde_json::Value as Json;

use crate::{
	core::*,
	monitor,
	rng::{derive_seed, Hasher64, Rng},
	spec::*,
};

#[derive(Clone, Copy, Debug, Serialize, Deserialize, PartialEq)]
pub enum Ty {
	F64,
	F32,
	Db,
	Pan,
	Rate,
	Mix,
	Dur,
	Vec3,
	SpeedSame,
	SpeedCross,
	/// clock speed given and tweened as a tick length (seconds per tick)
	SpeedSpt,
	/// the tweener modulator (the same logic, duplicated in modulator/tweener.rs), driven through
	/// its handle and the public Modulator trait
	Tweener,
}

#[derive(Clone, Copy, Debug, Serialize, Deserialize, PartialEq)]
pub enum Start {
	Immediate,
	Delayed(f64),
	/// target (ticks, fraction) on the simulated clock
	Clock(u64, f64),
}

#[derive(Clone, Debug, Serialize, Deserialize)]
pub struct SetCmd {
	/// issued before update number `at`
	pub at: usize,
	pub target: f64,
	pub dur: f64,
	pub easing: EasingSpec,
	pub start: Start,
}

#[derive(Clone, Debug, Serialize, Deserialize)]
pub struct Case {
	pub ty: Ty,
	pub initial: f64,
	pub dts: Vec<f64>,
	pub sets: Vec<SetCmd>,
	/// simulated clock: ticks per second, and update indices at which it is paused / resumed
	pub clock_speed: f64,
	pub clock_toggles: Vec<usize>,
	/// envelope stream: render a DC sound instead of a bare parameter
	pub envelope: bool,
	/// rendered stream: every gain stage of the mixer through the real manager
	#[serde(default)]
	pub stage: Option<super::c06_stage::StageCase>,
	/// from this update on the simulated clock no longer exists (its handle was dropped): a tween
	/// still waiting for one of its times keeps the old value for good, one that has begun runs on
	#[serde(default)]
	pub clock_vanish: Option<usize>,
}

fn gen_case(seed: u64, tier: Tier) -> Case {
	let mut rng = Rng::new(seed);
	if rng.chance(0.15) {
		return Case {
			ty: Ty::Db,
			initial: 0.0,
			dts: vec![],
			sets: vec![],
			clock_speed: 1.0,
			clock_toggles: vec![],
			envelope: false,
			stage: Some(super::c06_stage::gen(&mut rng, tier)),
			clock_vanish: None,
		};
	}
	let envelope = rng.chance(0.25);
	let ty = if envelope {
		Ty::Db
	} else {
		*rng.pick(&[Ty::F64, Ty::F64, Ty::F64, Ty::F32, Ty::Db, Ty::Pan, Ty::Rate, Ty::Mix, Ty::Dur, Ty::Vec3, Ty::SpeedSame, Ty::SpeedCross, Ty::SpeedSpt, Ty::Tweener, Ty::Tweener])
	};
	let n = rng.urange(6, if tier == Tier::Quick { 60 } else { 200 });
	let dyadic = rng.chance(0.4);
	let base = *rng.pick(&[1.0 / 64.0, 1.0 / 128.0, 0.0026666, 0.01, 0.25]);
	let mode = rng.below(3);
	let dts: Vec<f64> = (0..n)
		.map(|_| {
			if dyadic {
				*rng.pick(&[0.25, 0.125, 0.5, 0.0625])
			} else {
				match mode {
					0 => base,
					1 => base * rng.urange(1, 8) as f64,
					_ => rng.frange(0.0001, 0.05),
				}
			}
		})
		.collect();
	let total: f64 = dts.iter().sum();
	let val = |rng: &mut Rng| -> f64 {
		let any_db = rng.frange(-50.0, 6.0);
		let any = rng.frange(-100.0, 100.0);
		match ty {
			// (decibel values below the -60 dB silence threshold are values like any other: the
			// closed form runs through them; the envelope stream keeps to the audible range)
			Ty::Db if !envelope => *rng.pick(&[0.0, -60.0, -6.0, -20.0, 3.0, any_db, -90.0, -120.0]),
			Ty::Db => *rng.pick(&[0.0, -60.0, -6.0, -20.0, 3.0, any_db]),
			Ty::Pan => rng.frange(-1.0, 1.0),
			Ty::Mix => rng.f64(),
			Ty::Dur => rng.frange(0.0, 5.0),
			Ty::SpeedSame | Ty::SpeedCross => rng.frange(0.5, 400.0),
			Ty::SpeedSpt => rng.frange(0.0025, 2.0),
			_ => *rng.pick(&[0.0, 1.0, -1.0, any]),
		}
	};
	let initial = val(&mut rng);
	let n_sets = rng.urange(1, 4);
	let mut sets = Vec::new();
	for _ in 0..n_sets {
		let d = match rng.below(6) {
			0 => 0.0,
			1 => dts[0] * 0.3,
			2 if dyadic => *rng.pick(&[0.5, 1.0, 2.0, 0.25]),
			_ => rng.frange(0.0, total * 0.6),
		};
		let start = match rng.below(6) {
			0 | 1 | 2 => Start::Immediate,
			3 => Start::Delayed(if dyadic { *rng.pick(&[0.25, 0.5, 0.0]) } else { rng.frange(0.0, total * 0.3) }),
			_ => Start::Clock(rng.below(6), if rng.chance(0.5) { 0.0 } else { rng.f64() }),
		};
		sets.push(SetCmd {
			at: rng.usize_below(n),
			target: val(&mut rng),
			dur: d,
			easing: EasingSpec::gen(&mut rng),
			start,
		});
	}
	sets.sort_by_key(|s| s.at);
	sets.dedup_by_key(|s| s.at);
	let clock_toggles = if rng.chance(0.4) { (0..rng.urange(1, 3)).map(|_| rng.usize_below(n)).collect() } else { vec![] };
	Case {
		ty,
		initial,
		dts,
		sets,
		clock_speed: *rng.pick(&[1.0, 2.0, 10.0, 37.5, 0.5]) / total.max(0.01) * 3.0,
		clock_toggles,
		envelope,
		stage: None,
		clock_vanish: if rng.chance(0.15) { Some(rng.usize_below(n)) } else { None },
	}
}

/// One active tween in the reference.
struct RefTween {
	from: f64,
	target: f64,
	dur: f64,
	easing: EasingSpec,
	/// earliest / latest possible elapsed time (one update of quantisation either way)
	started: bool,
	elapsed: f64,
	/// size of the update in which it started
	slack: f64,
	delay_left: Option<Duration>,
	clock_target: Option<(u64, f64)>,
}

trait Projected: Tweenable + Copy {
	fn mk(v: f64) -> Self;
	fn get(self) -> f64;
}
impl Projected for f64 {
	fn mk(v: f64) -> Self {
		v
	}
	fn get(self) -> f64 {
		self
	}
}
impl Projected for f32 {
	fn mk(v: f64) -> Self {
		v as f32
	}
	fn get(self) -> f64 {
		self as f64
	}
}
impl Projected for Decibels {
	fn mk(v: f64) -> Self {
		Decibels(v as f32)
	}
	fn get(self) -> f64 {
		self.0 as f64
	}
}
impl Projected for Panning {
	fn mk(v: f64) -> Self {
		Panning(v as f32)
	}
	fn get(self) -> f64 {
		self.0 as f64
	}
}
impl Projected for PlaybackRate {
	fn mk(v: f64) -> Self {
		PlaybackRate(v)
	}
	fn get(self) -> f64 {
		self.0
	}
}
impl Projected for Mix {
	fn mk(v: f64) -> Self {
		Mix(v as f32)
	}
	fn get(self) -> f64 {
		self.0 as f64
	}
}
impl Projected for Duration {
	fn mk(v: f64) -> Self {
		Duration::from_secs_f64(v.max(0.0))
	}
	fn get(self) -> f64 {
		self.as_secs_f64()
	}
}
impl Projected for glam::Vec3 {
	fn mk(v: f64) -> Self {
		glam::Vec3::new(v as f32, -(v as f32), 2.0)
	}
	fn get(self) -> f64 {
		self.x as f64
	}
}
#[derive(Clone, Copy)]
struct SpeedSame(ClockSpeed);
impl Tweenable for SpeedSame {
	fn interpolate(a: Self, b: Self, amount: f64) -> Self {
		SpeedSame(ClockSpeed::interpolate(a.0, b.0, amount))
	}
}

fn single_precision(ty: Ty) -> bool {
	matches!(ty, Ty::F32 | Ty::Db | Ty::Pan | Ty::Mix | Ty::Vec3)
}

struct Driver {
	update: Box<dyn FnMut(f64, &kira::info::Info) -> (f64, f64, bool)>,
	set: Box<dyn FnMut(f64, Tween)>,
}

fn make_driver<T: Projected + 'static>(initial: f64) -> Driver {
	use std::{cell::RefCell, rc::Rc};
	let p = Rc::new(RefCell::new(Parameter::<T>::new(Value::Fixed(T::mk(initial)), T::mk(initial))));
	let p2 = p.clone();
	Driver {
		update: Box::new(move |dt, info| {
			let mut p = p.borrow_mut();
			let finished = p.update(dt, info);
			(p.value().get(), p.previous_value().get(), finished)
		}),
		set: Box::new(move |v, tween| p2.borrow_mut().set(Value::Fixed(T::mk(v)), tween)),
	}
}

fn make_speed_driver(initial: f64, cross: bool, spt: bool) -> Driver {
	use std::{cell::RefCell, rc::Rc};
	let p = Rc::new(RefCell::new(Parameter::<ClockSpeed>::new(
		Value::Fixed(if spt { ClockSpeed::SecondsPerTick(initial) } else { ClockSpeed::TicksPerSecond(initial) }),
		if spt { ClockSpeed::SecondsPerTick(initial) } else { ClockSpeed::TicksPerSecond(initial) },
	)));
	let p2 = p.clone();
	Driver {
		update: Box::new(move |dt, info| {
			let mut p = p.borrow_mut();
			let finished = p.update(dt, info);
			// always observed in ticks per minute, the unit of the targets in the cross case
			let obs = |s: ClockSpeed| {
				if spt {
					s.as_seconds_per_tick()
				} else if cross {
					s.as_ticks_per_minute()
				} else {
					s.as_ticks_per_second()
				}
			};
			(obs(p.value()), obs(p.previous_value()), finished)
		}),
		set: Box::new(move |v, tween| {
			let target = if spt {
				ClockSpeed::SecondsPerTick(v)
			} else if cross {
				ClockSpeed::TicksPerMinute(v)
			} else {
				ClockSpeed::TicksPerSecond(v)
			};
			p2.borrow_mut().set(Value::Fixed(target), tween)
		}),
	}
}

fn make_tweener_driver(initial: f64) -> Driver {
	use kira::modulator::{tweener::TweenerBuilder, ModulatorBuilder};
	use std::{cell::RefCell, rc::Rc};
	let id = MockInfoBuilder::new().add_modulator(0.0);
	let (m, handle) = TweenerBuilder { initial_value: initial }.build(id);
	let m = Rc::new(RefCell::new(m));
	let handle = Rc::new(RefCell::new(handle));
	Driver {
		update: Box::new(move |dt, info| {
			let mut m = m.borrow_mut();
			let previous = m.value();
			// (commands are read at the start of a callback, like Parameter::set followed by update)
			m.on_start_processing();
			m.update(dt, info);
			(m.value(), previous, false)
		}),
		set: Box::new(move |v, tween| handle.borrow_mut().set(v, tween)),
	}
}

fn project_initial(ty: Ty, v: f64) -> f64 {
	match ty {
		Ty::F32 | Ty::Db | Ty::Pan | Ty::Mix | Ty::Vec3 => v as f32 as f64,
		Ty::Dur => Duration::from_secs_f64(v.max(0.0)).as_secs_f64(),
		Ty::SpeedCross => v * 60.0,
		_ => v,
	}
}

fn project_target(ty: Ty, v: f64) -> f64 {
	match ty {
		Ty::F32 | Ty::Db | Ty::Pan | Ty::Mix | Ty::Vec3 => v as f32 as f64,
		Ty::Dur => Duration::from_secs_f64(v.max(0.0)).as_secs_f64(),
		_ => v,
	}
}

pub fn run_case(case: &Case) -> CaseResult {
	if let Some(stage) = &case.stage {
		return super::c06_stage::run(stage);
	}
	if case.envelope {
		return run_envelope(case);
	}
	let mut res = CaseResult::default();
	let mut trace = Hasher64::new();
	let mut beh = Hasher64::new();
	let mut driver = match case.ty {
		Ty::F64 => make_driver::<f64>(case.initial),
		Ty::F32 => make_driver::<f32>(case.initial),
		Ty::Db => make_driver::<Decibels>(case.initial),
		Ty::Pan => make_driver::<Panning>(case.initial),
		Ty::Rate => make_driver::<PlaybackRate>(case.initial),
		Ty::Mix => make_driver::<Mix>(case.initial),
		Ty::Dur => make_driver::<Duration>(case.initial),
		Ty::Vec3 => make_driver::<glam::Vec3>(case.initial),
		Ty::SpeedSame => make_speed_driver(case.initial, false, false),
		Ty::SpeedCross => make_speed_driver(case.initial, true, false),
		Ty::SpeedSpt => make_speed_driver(case.initial, false, true),
		Ty::Tweener => make_tweener_driver(case.initial),
	};
	let eps = if single_precision(case.ty) {
		1e-5
	} else if case.ty == Ty::Dur {
		1e-8 // durations are quantised to nanoseconds
	} else {
		1e-9
	};
	let mut current = project_initial(case.ty, case.initial);
	let mut tween: Option<RefTween> = None;
	let mut clock_ticking = true;
	let mut clock_pos = 0.0f64; // in ticks
	let mut sets = case.sets.iter().peekable();
	let mut transitions = 0u64;
	for (i, dt) in case.dts.iter().enumerate() {
		let dt = *dt;
		if case.clock_toggles.contains(&i) {
			clock_ticking = !clock_ticking;
		}
		if clock_ticking {
			clock_pos += case.clock_speed * dt;
		}
		let clock_exists = case.clock_vanish.map(|v| i < v).unwrap_or(true);
		let mut b = MockInfoBuilder::new();
		// (clock ids are positional: the id stays valid for commands issued after the clock is gone)
		let clock_id = if clock_exists { b.add_clock(clock_ticking, clock_pos.floor() as u64, clock_pos.fract()) } else { MockInfoBuilder::new().add_clock(false, 0, 0.0) };
		let info = b.build();
		if let Some(set) = sets.peek() {
			if set.at == i {
				let start_time = match set.start {
					Start::Immediate => StartTime::Immediate,
					Start::Delayed(d) => StartTime::Delayed(Duration::from_secs_f64(d)),
					Start::Clock(t, f) => StartTime::ClockTime(ClockTime {
						clock: clock_id,
						ticks: t,
						fraction: f,
					}),
				};
				(driver.set)(
					set.target,
					Tween {
						start_time,
						duration: Duration::from_secs_f64(set.dur),
						easing: set.easing.k(),
					},
				);
				// a new tween begins from the current, possibly mid-tween, value
				tween = Some(RefTween {
					from: current,
					target: project_target(case.ty, set.target),
					dur: Duration::from_secs_f64(set.dur).as_secs_f64(),
					easing: set.easing,
					started: false,
					elapsed: 0.0,
					slack: 0.0,
					delay_left: match set.start {
						Start::Delayed(d) => Some(Duration::from_secs_f64(d)),
						_ => None,
					},
					clock_target: match set.start {
						Start::Clock(t, f) => Some((t, f)),
						_ => None,
					},
				});
				transitions += 1;
				sets.next();
			}
		}
		let r = monitor::catch(|| (driver.update)(dt, &info));
		let (value, previous, _finished) = match r {
			Ok(x) => x,
			Err(p) => {
				res.fail(Violation::new("panic", format!("panic: {}", monitor::panic_signature(&p)), format!("update {i}: {p}")));
				break;
			}
		};
		trace.f64(value);
		// continuity across updates: the previous value of this update is the value of the last one
		if !((previous - current).abs() <= eps * (1.0 + current.abs())) {
			res.fail(Violation::new(
				"continuity",
				"previous-value-is-not-last-value",
				format!("update {i}: previous_value() = {previous}, but the last update ended at {current}"),
			));
			break;
		}
		// reference
		let mut lo_hi: (f64, f64) = (current, current);
		let mut must_be_exact_target = false;
		if let Some(t) = tween.as_mut() {
			// has the start time been reached? (one update of quantisation allowed)
			let may_start_now;
			let must_have_started;
			if t.started {
				may_start_now = true;
				must_have_started = true;
			} else if let Some(d) = t.delay_left.as_mut() {
				// the delay is consumed by updates; the tween runs from the update after
				// the one in which it expires - or, at the latest, one update later
				if d.is_zero() {
					may_start_now = true;
					must_have_started = true;
				} else {
					*d = d.saturating_sub(Duration::from_secs_f64(dt));
					may_start_now = d.is_zero();
					must_have_started = false;
				}
			} else if let Some((ticks, frac)) = t.clock_target {
				let reached = clock_exists && clock_ticking && (clock_pos.floor() as u64 > ticks || (clock_pos.floor() as u64 == ticks && clock_pos.fract() >= frac));
				may_start_now = reached;
				must_have_started = reached;
			} else {
				may_start_now = true;
				must_have_started = true;
			}
			if may_start_now && !t.started {
				t.started = true;
				t.slack = dt;
				t.elapsed = 0.0;
			}
			if t.started {
				// immediate and clock starts are exact; a delay may be counted as over in
				// the update in which it expires or in the next one
				let _ = must_have_started;
				let slack = if t.delay_left.is_none() { 0.0 } else { t.slack };
				t.elapsed += dt;
				let f = |e: f64| -> f64 {
					if e <= 1e-15 {
						t.from
					} else if t.dur <= 0.0 || e >= t.dur {
						t.target
					} else {
						t.from + (t.target - t.from) * t.easing.apply(e / t.dur)
					}
				};
				// the elapsed time kira may legitimately have is within one update
				let (a, b) = (f(t.elapsed - slack), f(t.elapsed));
				lo_hi = (a.min(b), a.max(b));
				// over for sure once the latest possible start is a full duration ago (a
				// zero-duration tween takes effect at the first update after its start)
				if t.elapsed - slack >= t.dur - 1e-12 && t.elapsed - slack > 1e-15 {
					must_be_exact_target = true;
				}
			} else {
				// not started: old value
			}
			// range: never leaves the interval between start and target
			let (rl, rh) = (t.from.min(t.target), t.from.max(t.target));
			let tol = eps * (1.0 + rl.abs().max(rh.abs()));
			if value < rl - tol || value > rh + tol {
				res.fail(Violation::new(
					"range",
					"overshoot",
					format!("update {i}: value {value} left the interval between start {} and target {}", t.from, t.target),
				));
				break;
			}
			if must_be_exact_target {
				if value != t.target {
					res.fail(Violation::new(
						"end-point",
						"not-exactly-on-target",
						format!("update {i}: tween over (elapsed {:.6} of {:.6}s) but value is {value:e}, target {:e}", t.elapsed, t.dur, t.target),
					));
					break;
				}
				tween = None;
				transitions += 1;
			} else {
				let tol = eps * (1.0 + lo_hi.0.abs().max(lo_hi.1.abs())) + eps * (t.target - t.from).abs();
				if value < lo_hi.0 - tol || value > lo_hi.1 + tol {
					res.fail(Violation::new(
						"closed-form",
						if t.started { "off-the-easing-curve" } else { "moved-before-start-time" },
						format!(
							"update {i}: value {value}, expected within [{}, {}] (from {} to {} over {}s, easing {:?}, elapsed {:.6}, started {})",
							lo_hi.0, lo_hi.1, t.from, t.target, t.dur, t.easing, t.elapsed, t.started
						),
					));
					break;
				}
			}
		} else if value != current {
			res.fail(Violation::new("hold", "idle-parameter-moved", format!("update {i}: no tween active but the value changed from {current} to {value}")));
			break;
		}
		current = value;
		beh.u64(tween.as_ref().map(|t| 1 + t.started as u64).unwrap_or(0));
	}
	beh.u64(case.ty as u64);
	beh.u64(transitions);
	res.callbacks = case.dts.len() as u64;
	res.sim_seconds = case.dts.iter().sum();
	res.nontrivial = transitions > 0;
	res.hit(&format!("type.{:?}", case.ty));
	res.behaviour_sig = beh.finish();
	res.trace_hash = trace.finish();
	res
}

fn amp(db: f64) -> f64 {
	if db == 0.0 {
		1.0
	} else if db <= -60.0 {
		0.0
	} else {
		10f64.powf(db / 20.0)
	}
}

/// Gain envelope of a looping DC sound whose volume is tweened: read frame by frame.
fn run_envelope(case: &Case) -> CaseResult {
	let mut res = CaseResult::default();
	let mut trace = Hasher64::new();
	let mut beh = Hasher64::new();
	let sr = 1000u32;
	let data = StaticSoundData {
		sample_rate: sr,
		frames: vec![Frame::new(1.0, 1.0); 8].into(),
		settings: Default::default(),
		slice: None,
	}
	.loop_region(0.0..)
	.volume(case.initial as f32);
	let Ok(Ok((mut sound, mut handle))) = monitor::catch(move || data.into_sound()) else {
		res.hit("construction_panicked");
		return res;
	};
	let info = MockInfoBuilder::new().build();
	let dt = 1.0 / sr as f64;
	let mut sets = case.sets.iter().peekable();
	let mut from_db = project_initial(Ty::Db, case.initial);
	let mut active: Option<(f64, f64, f64, EasingSpec, f64, f64)> = None; // from, target, dur, easing, elapsed, delay_left
	let mut last = amp(from_db);
	let mut buf = vec![Frame::ZERO; 64];
	let mut transitions = 0u64;
	'outer: for (i, d) in case.dts.iter().enumerate() {
		let n = ((d * sr as f64).round() as usize).clamp(1, 64);
		let chunk_secs = n as f64 * dt;
		if let Some(set) = sets.peek() {
			if set.at == i {
				let start = match set.start {
					Start::Delayed(d) => StartTime::Delayed(Duration::from_secs_f64(d)),
					_ => StartTime::Immediate,
				};
				handle.set_volume(
					set.target as f32,
					Tween {
						start_time: start,
						duration: Duration::from_secs_f64(set.dur),
						easing: set.easing.k(),
					},
				);
				// starts from the current value (in dB); unknown exactly mid-tween, so take it from the last output
				// (next to the -60 dB threshold a rounding of the decibel value decides between
				// a gain of 0.001 and exact silence: either may be the tween's starting point)
				let cur_db = if last <= 0.0 { -60.0 } else { 20.0 * last.log10() };
				let cur_db = if active.is_none() { from_db } else { cur_db };
				active = Some((
					cur_db,
					project_target(Ty::Db, set.target),
					Duration::from_secs_f64(set.dur).as_secs_f64(),
					set.easing,
					0.0,
					match set.start {
						Start::Delayed(d) => d,
						_ => 0.0,
					},
				));
				transitions += 1;
				sets.next();
			}
		}
		let out = &mut buf[..n];
		let r = monitor::catch(|| {
			sound.on_start_processing();
			sound.process(out, dt, &info);
		});
		if let Err(p) = r {
			res.fail(Violation::new("panic", format!("panic: {}", monitor::panic_signature(&p)), format!("chunk {i}: {p}")));
			break;
		}
		// bounds for this chunk
		let (lo, hi, exact_end) = match active.as_mut() {
			None => (amp(from_db), amp(from_db), true),
			Some((f, t, dur, easing, elapsed, delay)) => {
				let (a_from, a_to) = (amp(*f), amp(*t));
				let (mut lo, hi) = (a_from.min(a_to), a_from.max(a_to));
				if a_from <= 0.001_001 {
					lo = 0.0;
				}
				if *delay > 1e-12 {
					*delay -= chunk_secs;
				} else {
					*elapsed += chunk_secs;
				}
				let _ = easing;
				// over for sure once a whole extra chunk has passed
				let done = *elapsed - chunk_secs - 0.064 >= *dur && *delay <= 1e-12;
				(lo, hi, done)
			}
		};
		for (k, f) in out.iter().enumerate() {
			let g = f.left as f64;
			trace.f32(f.left);
			let tol = 2e-6 * (1.0 + hi);
			if g < lo - tol || g > hi + tol || f.left != f.right {
				res.fail(Violation::new(
					"envelope",
					"gain-outside-start-target-interval",
					format!("chunk {i} frame {k}: gain {g} outside [{lo}, {hi}]"),
				));
				break 'outer;
			}
			last = g;
		}
		if let (Some((f, t, ..)), true) = (active.as_ref(), exact_end) {
			let want = Decibels(*t as f32).as_amplitude();
			if out[n - 1].left != want {
				res.fail(Violation::new(
					"envelope",
					"gain-not-exactly-on-target",
					format!("chunk {i}: tween from {f} dB to {t} dB is over but the gain is {} instead of exactly {want}", out[n - 1].left),
				));
				break;
			}
			from_db = *t;
			active = None;
			transitions += 1;
		}
		beh.u64(active.is_some() as u64);
	}
	beh.u64(transitions);
	res.callbacks = case.dts.len() as u64;
	res.nontrivial = transitions > 0;
	res.hit("type.envelope");
	res.behaviour_sig = beh.finish();
	res.trace_hash = trace.finish();
	res
}

pub struct C06;

impl Check for C06 {
	fn info(&self) -> CheckInfo {
		CheckInfo {
			id: "C06",
			level: "exploration",
			rule: "each case = tweenable type (f64, f32, decibels - also below the -60 dB silence threshold -, panning, rate, mix, duration, vector, clock speed in ticks per second, ticks per second -> ticks per minute, and as a tick length in seconds per tick), start value, a sequence of overlapping set() calls (target, duration incl. 0 and shorter than one update, every built-in easing with positive powers, start immediate / delayed / on a simulated clock that may pause or vanish before the start time - the tween is then dropped and the value stays) and an update-step partition (uniform, multiples, random, dyadic); a quarter of the cases read the per-frame gain envelope of a DC sound instead; 15% render a DC sound through the real manager (sound -> volume-control effect -> sub-track -> send route -> send track / main track) with overlapping set_volume / set_send tweens on any of the five gain stages and on the route volume, optionally pausing and resuming the sub-track in between - instantly, or with fades that are one more interpolated gain on the path; the chunk in which the fade-out ends is silent - (its sounds and effects stand still while it is paused, its own volume and route go on), seeded internal buffer size and callback sizes that are not multiples of it, every output frame compared with the closed form interpolated at (i + 1) / n from the previous chunk's final value; non-trivial = at least one tween started or ended; distinct = hash of the per-update (idle / waiting / running) sequence, type and number of transitions",
			assumptions: vec![
				"timing is allowed one update of quantisation where a start time has to be reached (delayed, clock); immediate tweens are compared at their exact elapsed time".into(),
				"tolerance 1e-9 relative for f64-based types, 1e-5 for f32-based ones; end points, holding and 'previous value == last value' are exact".into(),
				"the clock behind StartTime::ClockTime is a MockInfo rebuilt per update (simulated clock, may pause)".into(),
			],
			components: vec![
				("kira::Parameter, Tween, Easing, Tweenable impls, Value", "real"),
				("StaticSound gain path (envelope stream)", "real"),
				("clock behind ClockTime start times", "stub (MockInfoBuilder)"),
			],
		}
	}
	fn num_cases(&self, tier: Tier) -> u64 {
		match tier {
			Tier::Quick => 200_000,
			Tier::Thorough => 5_000_000,
		}
	}
	fn case(&self, tier: Tier, seed: u64, index: u64) -> Json {
		serde_json::to_value(gen_case(derive_seed(seed, 6, index), tier)).unwrap()
	}
	fn run(&self, case: &Json) -> CaseResult {
		let case: Case = serde_json::from_value(case.clone()).expect("malformed C06 case");
		run_case(&case)
	}
	fn shrink(&self, case: &Json) -> Vec<Json> {
		let c: Case = serde_json::from_value(case.clone()).unwrap();
		if let Some(st) = &c.stage {
			let mut out = vec![];
			let mut push = |st2: super::c06_stage::StageCase| {
				let mut c2 = c.clone();
				c2.stage = Some(st2);
				out.push(serde_json::to_value(c2).unwrap());
			};
			for k in 0..st.sets.len() {
				let mut s2 = st.clone();
				s2.sets.remove(k);
				push(s2);
			}
			if st.callbacks.len() > 1 {
				let mut s2 = st.clone();
				s2.callbacks.pop();
				let n = s2.callbacks.len();
				s2.sets.retain(|s| s.at < n);
				push(s2);
			}
			if st.route.is_some() {
				let mut s2 = st.clone();
				s2.route = None;
				push(s2);
			}
			if st.initial != [0.0; 5] {
				let mut s2 = st.clone();
				s2.initial = [0.0; 5];
				push(s2);
			}
			for k in 0..st.sets.len() {
				if st.sets[k].easing != EasingSpec::Linear {
					let mut s2 = st.clone();
					s2.sets[k].easing = EasingSpec::Linear;
					push(s2);
				}
			}
			return out;
		}
		let mut out = shrink_ops_array(case, "sets");
		if c.dts.len() > 2 {
			let mut c2 = c.clone();
			c2.dts.truncate(c.dts.len() - c.dts.len() / 3 - 1);
			out.push(serde_json::to_value(c2).unwrap());
		}
		if !c.clock_toggles.is_empty() {
			let mut c2 = c.clone();
			c2.clock_toggles.clear();
			out.push(serde_json::to_value(c2).unwrap());
		}
		for (k, s) in c.sets.iter().enumerate() {
			if s.easing != EasingSpec::Linear {
				let mut c2 = c.clone();
				c2.sets[k].easing = EasingSpec::Linear;
				out.push(serde_json::to_value(c2).unwrap());
			}
			if s.start != Start::Immediate {
				let mut c2 = c.clone();
				c2.sets[k].start = Start::Immediate;
				out.push(serde_json::to_value(c2).unwrap());
			}
		}
		out
	}
}
