//! C17, scheduled stream: whatever is linked to a modulator finds it from its first chunk on.
//!
//! The caller creates a modulator, then something linked to it (a sub-track
//! whose effect owns a parameter `FromModulator`, or a sound whose volume is
//! linked), while an audio task runs callbacks; both are preempted at the yield
//! points of the resource rings by the seeded scheduler. Whatever the
//! interleaving, in every chunk in which the linked resource is processed the
//! modulator exists and the linked parameter equals the mapping of its value:
//! the resource never runs ahead of the modulator it was created after.

use std::sync::{Arc, Mutex};

use kira::{
	effect::{Effect, EffectBuilder},
	info::Info,
	modulator::{tweener::TweenerBuilder, ModulatorId},
	sound::static_sound::StaticSoundData,
	track::TrackBuilder,
	AudioManager, AudioManagerSettings, Decibels, Easing, Frame, Mapping, Parameter, Value,
};
use serde::{Deserialize, Serialize};

use crate::{
	backend::{SimBackend, SimBackendSettings},
	core::*,
	monitor::{self, panic_signature, Disarm, Role},
	rng::{Hasher64, Rng},
	sched::Sim,
};

#[derive(Clone, Debug, Serialize, Deserialize)]
pub struct SchedCase {
	pub seed: u64,
	pub warm: usize,
	pub callbacks: usize,
	pub switch_prob: f64,
	/// the linked resource is a sound on the main track (volume linked) instead of a track effect
	pub sound: bool,
	/// instead: an LFO that the audio thread already owns is linked (by a command) to a modulator
	/// created just before the command; it may lag by a callback but must follow in the end
	#[serde(default)]
	pub late_chain: bool,
}

pub fn gen(rng: &mut Rng) -> SchedCase {
	SchedCase {
		seed: rng.next_u64(),
		warm: rng.usize_below(2),
		callbacks: rng.urange(2, 6),
		switch_prob: *rng.pick(&[0.03, 0.1, 0.3, 0.6, 0.9]),
		sound: rng.chance(0.4),
		late_chain: rng.chance(0.3),
	}
}

const VALUE: f64 = 0.25;

struct LinkProbe {
	id: ModulatorId,
	param: Parameter<f64>,
	log: Arc<Mutex<Vec<(Option<f64>, f64)>>>,
}

impl Effect for LinkProbe {
	fn process(&mut self, input: &mut [Frame], dt: f64, info: &Info) {
		let _d = Disarm::new();
		self.param.update(dt * input.len() as f64, info);
		self.log.lock().unwrap().push((info.modulator_value(self.id), self.param.value()));
	}
}

struct LinkProbeBuilder(ModulatorId);

impl EffectBuilder for LinkProbeBuilder {
	type Handle = Arc<Mutex<Vec<(Option<f64>, f64)>>>;
	fn build(self) -> (Box<dyn Effect>, Self::Handle) {
		let log = Arc::new(Mutex::new(vec![]));
		(
			Box::new(LinkProbe {
				id: self.0,
				param: Parameter::new(
					Value::FromModulator {
						id: self.0,
						mapping: Mapping {
							input_range: (0.0, 1.0),
							output_range: (10.0, 20.0),
							easing: Easing::Linear,
						},
					},
					-777.0,
				),
				log: log.clone(),
			}),
			log,
		)
	}
}

/// An LFO (amplitude 0: its value is its offset) owned by the audio thread is told, by a command,
/// to take its offset from a tweener created just before. The command may be read in a callback
/// that has not picked the tweener up yet - the link then does not resolve for that callback -
/// but "not there yet" is not "gone": a few callbacks later the LFO reads the tweener's value.
fn run_late_chain(case: &SchedCase) -> CaseResult {
	use kira::modulator::lfo::LfoBuilder;
	let mut res = CaseResult::default();
	let mut beh = Hasher64::new();
	let sim = Sim::new(case.seed);
	sim.set_random_params(case.switch_prob, 0.1, 60_000);
	let manager = monitor::catch(|| {
		AudioManager::<SimBackend>::new(AudioManagerSettings {
			internal_buffer_size: 8,
			backend_settings: SimBackendSettings { sample_rate: 8000 },
			..Default::default()
		})
		.unwrap()
	});
	let Ok(mut manager) = manager else {
		sim.shutdown();
		return res;
	};
	let device = manager.backend_mut().device.clone();
	let mut out = Vec::new();
	let lfo = manager.add_modulator(LfoBuilder::new().amplitude(0.0).offset(0.5)).unwrap();
	let mut b = TrackBuilder::new();
	let log = b.add_effect(LinkProbeBuilder(lfo.id()));
	let track = manager.add_sub_track(b).unwrap();
	for _ in 0..case.warm + 1 {
		let _ = device.callback(8, 2, &mut out);
	}
	let keep: Arc<Mutex<Vec<Box<dyn std::any::Any + Send>>>> = Arc::new(Mutex::new(vec![Box::new(track)]));
	let manager = Arc::new(Mutex::new(Some(manager)));
	let lfo = Arc::new(Mutex::new(lfo));
	{
		let (keep, manager, lfo) = (keep.clone(), manager.clone(), lfo.clone());
		sim.spawn_task(
			"gameplay",
			Role::Gameplay,
			Box::new(move || {
				let mut g = manager.lock().unwrap();
				let m = g.as_mut().unwrap();
				let tw = m.add_modulator(TweenerBuilder { initial_value: VALUE }).unwrap();
				kira::verif::yield_point("gameplay.between_ops");
				lfo.lock().unwrap().set_offset(
					Value::FromModulator {
						id: tw.id(),
						mapping: Mapping {
							input_range: (0.0, 1.0),
							output_range: (0.0, 1.0),
							easing: Easing::Linear,
						},
					},
					kira::Tween {
						duration: std::time::Duration::ZERO,
						..Default::default()
					},
				);
				keep.lock().unwrap().push(Box::new(tw));
			}),
		);
	}
	{
		let (device, n) = (device.clone(), case.callbacks);
		sim.spawn_task(
			"audio",
			Role::Audio,
			Box::new(move || {
				let mut out = Vec::new();
				for _ in 0..n {
					let rep = device.callback(8, 2, &mut out);
					if let Some(p) = rep.panic {
						panic!("{p}");
					}
					kira::verif::yield_point("audio.between_callbacks");
				}
			}),
		);
	}
	sim.run_random();
	res.count("context_switches", sim.switches());
	if sim.capped() {
		res.inconclusive = true;
	}
	for (role, name, msg) in sim.take_panics() {
		res.fail(Violation::new("panic", format!("task-panic: {}", panic_signature(&msg)), format!("{role:?} task {name} panicked: {msg}")));
	}
	for _ in 0..4 {
		let rep = device.callback(8, 2, &mut out);
		if let Some(p) = rep.panic {
			res.fail(Violation::new("panic", format!("audio-panic: {}", panic_signature(&p)), p));
		}
	}
	if res.violation.is_none() && !res.inconclusive {
		let l = log.lock().unwrap();
		match l.last() {
			Some((seen, _)) if seen.map(|v| (v - VALUE).abs() <= 1e-9).unwrap_or(false) => res.hit("late_chains_following"),
			other => res.fail(Violation::new(
				"linked-parameter",
				"late-link-never-follows",
				format!(
					"an LFO (amplitude 0) was told to take its offset from a tweener (value {VALUE}) created just before the command; four undisturbed callbacks after the race its value is {:?} (last values seen: {:?})",
					other.map(|o| o.0),
					l.iter().rev().take(6).map(|o| o.0).collect::<Vec<_>>()
				),
			)),
		}
	}
	beh.u64(sim.trace_hash());
	res.nontrivial = true;
	res.callbacks = (case.warm + 1 + case.callbacks + 4) as u64;
	res.hit("type.sched_late_modulator_chain");
	res.trace_hash = sim.trace_hash();
	res.behaviour_sig = beh.finish();
	drop(keep);
	drop(lfo);
	drop(manager);
	sim.shutdown();
	res
}

pub fn run(case: &SchedCase) -> CaseResult {
	if case.late_chain {
		return run_late_chain(case);
	}
	let mut res = CaseResult::default();
	let mut beh = Hasher64::new();
	let sim = Sim::new(case.seed);
	sim.set_random_params(case.switch_prob, 0.1, 60_000);
	let manager = monitor::catch(|| {
		AudioManager::<SimBackend>::new(AudioManagerSettings {
			internal_buffer_size: 8,
			backend_settings: SimBackendSettings { sample_rate: 8000 },
			..Default::default()
		})
		.unwrap()
	});
	let Ok(mut manager) = manager else {
		sim.shutdown();
		return res;
	};
	let device = manager.backend_mut().device.clone();
	let mut out = Vec::new();
	for _ in 0..case.warm {
		let _ = device.callback(8, 2, &mut out);
	}
	let keep: Arc<Mutex<Vec<Box<dyn std::any::Any + Send>>>> = Arc::new(Mutex::new(vec![]));
	let log: Arc<Mutex<Option<Arc<Mutex<Vec<(Option<f64>, f64)>>>>>> = Arc::new(Mutex::new(None));
	let manager = Arc::new(Mutex::new(Some(manager)));
	{
		let (keep, manager, log, sound) = (keep.clone(), manager.clone(), log.clone(), case.sound);
		sim.spawn_task(
			"gameplay",
			Role::Gameplay,
			Box::new(move || {
				let mut g = manager.lock().unwrap();
				let m = g.as_mut().unwrap();
				let tw = m.add_modulator(TweenerBuilder { initial_value: VALUE }).unwrap();
				kira::verif::yield_point("gameplay.between_ops");
				if sound {
					// volume: modulator 0..1 -> -60 dB (silence) .. 0 dB; at 0.25 that is -45 dB
					let data = StaticSoundData {
						sample_rate: 8000,
						frames: vec![Frame::new(0.5, 0.5); 8].into(),
						settings: Default::default(),
						slice: None,
					}
					.loop_region(0.0..)
					.volume(Value::FromModulator {
						id: tw.id(),
						mapping: Mapping {
							input_range: (0.0, 1.0),
							output_range: (Decibels(-60.0), Decibels(0.0)),
							easing: Easing::Linear,
						},
					});
					let h = m.play(data).unwrap();
					keep.lock().unwrap().push(Box::new(h));
				} else {
					let mut b = TrackBuilder::new();
					let l = b.add_effect(LinkProbeBuilder(tw.id()));
					let t = m.add_sub_track(b).unwrap();
					*log.lock().unwrap() = Some(l);
					keep.lock().unwrap().push(Box::new(t));
				}
				keep.lock().unwrap().push(Box::new(tw));
			}),
		);
	}
	// every rendered sample, in order
	let rendered: Arc<Mutex<Vec<f32>>> = Arc::new(Mutex::new(vec![]));
	{
		let (device, n, rendered) = (device.clone(), case.callbacks, rendered.clone());
		sim.spawn_task(
			"audio",
			Role::Audio,
			Box::new(move || {
				let mut out = Vec::new();
				for _ in 0..n {
					let rep = device.callback(8, 2, &mut out);
					if let Some(p) = rep.panic {
						panic!("{p}");
					}
					rendered.lock().unwrap().extend_from_slice(&out);
					kira::verif::yield_point("audio.between_callbacks");
				}
			}),
		);
	}
	sim.run_random();
	res.count("context_switches", sim.switches());
	if sim.capped() {
		res.inconclusive = true;
	}
	for (role, name, msg) in sim.take_panics() {
		res.fail(Violation::new("panic", format!("task-panic: {}", panic_signature(&msg)), format!("{role:?} task {name} panicked: {msg}")));
	}
	for _ in 0..3 {
		let rep = device.callback(8, 2, &mut out);
		if let Some(p) = rep.panic {
			res.fail(Violation::new("panic", format!("audio-panic: {}", panic_signature(&p)), p));
		}
		rendered.lock().unwrap().extend_from_slice(&out);
	}
	if res.violation.is_none() && !res.inconclusive {
		if case.sound {
			// every frame is silence (not picked up yet) or the sound at the linked volume, except
			// that a parameter starts from its default (0 dB here) and is interpolated to the
			// linked value over the sound's first internal chunk: at most 7 of 8 frames above it.
			// A sound that ran a chunk before its modulator existed shows 8 more at the default.
			let want = 0.5 * 10f32.powf(-45.0 / 20.0);
			let r = rendered.lock().unwrap();
			let mut heard = 0u64;
			let mut above = 0u64;
			let mut first_above = None;
			for (i, fr) in r.chunks(2).enumerate() {
				let s = fr[0];
				if s == 0.0 {
					continue;
				}
				heard += 1;
				if !((s - want).abs() <= 1e-6) {
					above += 1;
					first_above.get_or_insert((i, s));
					if above > 7 || s > 0.5 + 1e-6 || s < want - 1e-6 || heard != above {
						res.fail(Violation::new(
							"linked-parameter",
							"linked-sound-ran-before-its-modulator",
							format!(
								"frame {i}: a sound whose volume is linked to a modulator created just before it (value {VALUE}: -45 dB, {want}) was rendered at {s}; {above} frames so far were not at the linked volume (first: {first_above:?}) - more than the one internal chunk (8 frames, the last one exact) that the hand-over from the default value takes, as if the modulator did not exist yet"
							),
						));
						break;
					}
				}
			}
			if res.violation.is_none() && heard == 0 {
				res.fail(Violation::new("linked-parameter", "linked-sound-never-heard", "the sound was never rendered although three undisturbed callbacks followed the race".to_string()));
			}
			res.count("linked_samples_checked", heard);
		} else if let Some(l) = log.lock().unwrap().as_ref() {
			let l = l.lock().unwrap();
			for (k, (seen, param)) in l.iter().enumerate() {
				if *seen != Some(VALUE) || (*param - 12.5).abs() > 1e-9 {
					res.fail(Violation::new(
						"linked-parameter",
						"linked-resource-ran-before-its-modulator",
						format!(
							"chunk {k} of a track created right after the modulator its effect is linked to: the effect sees the modulator at {seen:?} (it is {VALUE}) and its linked parameter at {param} (mapping: 12.5)"
						),
					));
					break;
				}
			}
			if res.violation.is_none() && l.is_empty() {
				res.fail(Violation::new("linked-parameter", "linked-track-never-processed", "the track was never processed although three undisturbed callbacks followed the race".to_string()));
			}
			res.count("linked_chunks_checked", l.len() as u64);
		}
	}
	beh.u64(sim.trace_hash());
	res.nontrivial = true;
	res.callbacks = (case.warm + case.callbacks + 3) as u64;
	res.hit("type.sched_modulator_then_link");
	res.trace_hash = sim.trace_hash();
	res.behaviour_sig = beh.finish();
	drop(keep);
	drop(manager);
	sim.shutdown();
	res
}
