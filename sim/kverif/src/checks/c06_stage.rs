//! C06, rendered stream: every gain stage of the mixer (sound volume, track
//! volume, volume-control effect, send-track volume, main-track volume) is a
//! `Parameter<Decibels>`; a DC sound is rendered through the real manager with
//! arbitrary internal buffer sizes and callback sizes (short last chunks), the
//! stages are tweened by overlapping `set_volume` commands, and every output
//! frame is compared with the closed form evaluated at chunk ends and
//! interpolated from the previous chunk's final value at `(i + 1) / n`.

use std::time::Duration;

use kira::{
	effect::volume_control::VolumeControlBuilder,
	sound::static_sound::StaticSoundData,
	track::{MainTrackBuilder, SendTrackBuilder, TrackBuilder},
	AudioManager, AudioManagerSettings, Decibels, Frame, StartTime, Tween,
};
use serde::{Deserialize, Serialize};

use crate::{
	backend::{SimBackend, SimBackendSettings},
	core::*,
	monitor::{self, panic_signature},
	rng::{Hasher64, Rng},
	spec::*,
};

#[derive(Clone, Copy, Debug, Serialize, Deserialize, PartialEq, Eq, Hash)]
pub enum Stage {
	Sound,
	Fx,
	Track,
	Send,
	Main,
	/// the volume of the track's route to the send track (applied per chunk, not per frame)
	Route,
}

const DC: f32 = 0.25;

const STAGES: [Stage; 6] = [Stage::Sound, Stage::Fx, Stage::Track, Stage::Send, Stage::Main, Stage::Route];

#[derive(Clone, Debug, Serialize, Deserialize)]
pub struct StageSet {
	/// issued in the gap before callback `at`
	pub at: usize,
	pub stage: Stage,
	pub target: f32,
	pub dur: f64,
	pub easing: EasingSpec,
}

#[derive(Clone, Debug, Serialize, Deserialize)]
pub struct StageCase {
	pub sample_rate: u32,
	pub ibs: usize,
	/// initial dB of [sound, fx, track, send, main]
	pub initial: [f32; 5],
	/// route volume (fixed) in dB; None: no send route
	pub route: Option<f32>,
	pub callbacks: Vec<usize>,
	pub sets: Vec<StageSet>,
	/// the sub-track is paused (instantly) before callback p and resumed (instantly) before callback r:
	/// its sounds and effects stand still in between, its own volume and routes do not
	#[serde(default)]
	pub pause: Option<(usize, usize)>,
	/// the pause and the resume fade over these many seconds (linear) instead of instantly: the
	/// fade is one more gain on the path, interpolated per frame like the others; the chunk in
	/// which the fade-out ends is silent, the track stands still from then on until the resume
	#[serde(default)]
	pub pause_fade: Option<(f64, f64)>,
}

pub fn gen(rng: &mut Rng, tier: Tier) -> StageCase {
	let sample_rate = *rng.pick(&[1000u32, 8000, 44_100, 48_000]);
	let ibs = *rng.pick(&[1usize, 2, 3, 7, 16, 50, 64, 128]);
	let n_cb = rng.urange(3, if tier == Tier::Quick { 14 } else { 40 });
	let mode = rng.below(4);
	let callbacks: Vec<usize> = (0..n_cb)
		.map(|_| match mode {
			0 => ibs,
			1 => rng.urange(1, 3) * ibs,
			2 => rng.urange(1, 3 * ibs + 1),
			_ => *rng.pick(&[1usize, ibs + 1, 2 * ibs - 1, ibs / 2 + 1, 3 * ibs + ibs / 3]),
		})
		.map(|n| n.clamp(1, 512))
		.collect();
	let total: f64 = callbacks.iter().sum::<usize>() as f64 / sample_rate as f64;
	let db = |rng: &mut Rng| -> f32 {
		let any = rng.frange(-50.0, 6.0) as f32;
		*rng.pick(&[0.0, 0.0, -6.0, -20.0, 3.0, -60.0, any])
	};
	let mut initial = [0.0f32; 5];
	for v in initial.iter_mut() {
		if rng.chance(0.4) {
			*v = db(rng);
		}
	}
	let route = if rng.chance(0.5) { Some(db(rng)) } else { None };
	let n_sets = rng.urange(1, 6);
	let mut sets: Vec<StageSet> = (0..n_sets)
		.map(|_| StageSet {
			at: rng.usize_below(n_cb),
			stage: *rng.pick(&STAGES),
			target: db(rng),
			dur: match rng.below(5) {
				0 => 0.0,
				1 => 0.4 / sample_rate as f64,
				_ => rng.frange(0.0, total * 0.7),
			},
			easing: EasingSpec::gen(rng),
		})
		.collect();
	sets.sort_by_key(|s| s.at);
	if route.is_none() {
		sets.retain(|s| s.stage != Stage::Route);
	}
	let pause = if rng.chance(0.35) && n_cb >= 4 {
		let p = rng.urange(1, n_cb - 2);
		Some((p, rng.urange(p + 1, n_cb)))
	} else {
		None
	};
	StageCase {
		sample_rate,
		ibs,
		initial,
		route,
		callbacks,
		sets,
		pause,
		pause_fade: if pause.is_some() && rng.chance(0.5) {
			let d = |rng: &mut Rng| {
				let any = rng.frange(0.0, total * 0.3);
				*rng.pick(&[0.0, 1.5 / sample_rate as f64, any])
			};
			Some((d(rng), d(rng)))
		} else {
			None
		},
	}
}

fn amp(db: f64) -> f64 {
	if db == 0.0 {
		1.0
	} else if db <= -60.0 {
		0.0
	} else {
		10f64.powf(db / 20.0)
	}
}

/// Reference parameter: the documented closed form sampled at chunk ends.
#[derive(Clone, Copy)]
struct RefParam {
	prev: f64,
	cur: f64,
	tween: Option<(f64, f64, f64, f64, EasingSpec)>, // from, target, elapsed, duration, easing
}

impl RefParam {
	fn new(v: f32) -> Self {
		Self {
			prev: v as f64,
			cur: v as f64,
			tween: None,
		}
	}
	fn set(&mut self, target: f32, dur: f64, easing: EasingSpec) {
		self.tween = Some((self.cur, target as f64, 0.0, Duration::from_secs_f64(dur).as_secs_f64(), easing));
	}
	fn advance(&mut self, secs: f64) {
		self.prev = self.cur;
		if let Some((from, target, elapsed, dur, easing)) = self.tween.as_mut() {
			*elapsed += secs;
			if *elapsed >= *dur {
				self.cur = *target;
				self.tween = None;
			} else {
				self.cur = *from + (*target - *from) * easing.apply(*elapsed / *dur);
			}
		}
	}
	/// (lowest, highest) gain: the two differ only next to the -60 dB silence threshold,
	/// where a rounding of the decibel value decides between 0.001 and exactly 0
	fn gain(&self, i: usize, n: usize) -> (f64, f64) {
		let x = (i + 1) as f64 / n as f64;
		let db = self.prev + (self.cur - self.prev) * x;
		(amp(db - 1e-4), amp(db + 1e-4))
	}
	fn moving(&self) -> bool {
		self.prev != self.cur
	}
}

pub fn run(case: &StageCase) -> CaseResult {
	let mut res = CaseResult::default();
	let mut trace = Hasher64::new();
	let mut beh = Hasher64::new();
	let c = case.clone();
	let built = monitor::catch(move || {
		let mut mb = MainTrackBuilder::new().volume(c.initial[4]);
		let _ = &mut mb;
		let mut manager = AudioManager::<SimBackend>::new(AudioManagerSettings {
			main_track_builder: mb,
			internal_buffer_size: c.ibs,
			backend_settings: SimBackendSettings { sample_rate: c.sample_rate },
			..Default::default()
		})
		.unwrap();
		let send = manager.add_send_track(SendTrackBuilder::new().volume(c.initial[3])).unwrap();
		let mut tb = TrackBuilder::new().volume(c.initial[2]);
		let fx = tb.add_effect(VolumeControlBuilder::new(c.initial[1]));
		if let Some(r) = c.route {
			tb = tb.with_send(send.id(), r);
		}
		let mut track = manager.add_sub_track(tb).unwrap();
		let data = StaticSoundData {
			sample_rate: c.sample_rate,
			frames: vec![Frame::new(DC, DC); 8].into(),
			settings: Default::default(),
			slice: None,
		}
		.loop_region(0.0..)
		.volume(c.initial[0]);
		let sound = track.play(data).unwrap();
		(manager, send, track, fx, sound)
	});
	let Ok((mut manager, mut send, mut track, mut fx, mut sound)) = built else {
		res.hit("construction_panicked");
		return res;
	};
	let device = manager.backend_mut().device.clone();
	let mut params = [
		RefParam::new(case.initial[0]),
		RefParam::new(case.initial[1]),
		RefParam::new(case.initial[2]),
		RefParam::new(case.initial[3]),
		RefParam::new(case.initial[4]),
		RefParam::new(case.route.unwrap_or(-60.0)),
	];
	let send_id = send.id();
	let instant = Tween {
		duration: Duration::ZERO,
		..Default::default()
	};
	let dt = 1.0 / case.sample_rate as f64;
	let mut out = Vec::new();
	let mut sets = case.sets.iter().peekable();
	let mut moving_chunks = 0u64;
	let mut short_moving_chunks = 0u64;
	let mut frames_checked = 0u64;
	// faded pause / resume: the fade parameter (dB, 0 = unity) and where the track's life cycle is
	#[derive(PartialEq, Clone, Copy)]
	enum Life {
		Playing,
		Pausing,
		Paused,
		Resuming,
	}
	let mut fade = RefParam::new(0.0);
	let mut life = Life::Playing;
	'outer: for (cb, &frames) in case.callbacks.iter().enumerate() {
		while let Some(s) = sets.peek() {
			if s.at != cb {
				break;
			}
			let tween = Tween {
				start_time: StartTime::Immediate,
				duration: Duration::from_secs_f64(s.dur),
				easing: s.easing.k(),
			};
			let target = Decibels(s.target);
			match s.stage {
				Stage::Sound => sound.set_volume(target, tween),
				Stage::Fx => fx.set_volume(target, tween),
				Stage::Track => track.set_volume(target, tween),
				Stage::Send => send.set_volume(target, tween),
				Stage::Main => manager.main_track().set_volume(target, tween),
				Stage::Route => {
					let _ = track.set_send(send_id, target, tween);
				}
			}
			let k = STAGES.iter().position(|x| *x == s.stage).unwrap();
			params[k].set(s.target, s.dur, s.easing);
			sets.next();
		}
		if let Some((p, r)) = case.pause {
			let (d1, d2) = case.pause_fade.unwrap_or((0.0, 0.0));
			if cb == p {
				track.pause(if case.pause_fade.is_some() { Tween { duration: Duration::from_secs_f64(d1), ..Default::default() } } else { instant });
				fade.set(-60.0, d1, EasingSpec::Linear);
				life = Life::Pausing;
			}
			if cb == r {
				track.resume(if case.pause_fade.is_some() { Tween { duration: Duration::from_secs_f64(d2), ..Default::default() } } else { instant });
				fade.set(0.0, d2, EasingSpec::Linear);
				life = Life::Resuming;
			}
		}
		let faded = case.pause_fade.is_some();
		let mut paused = !faded && case.pause.map(|(p, r)| cb >= p && cb < r).unwrap_or(false);
		let resuming = !faded && case.pause.map(|(_, r)| cb == r).unwrap_or(false);
		let rep = device.callback(frames, 2, &mut out);
		if let Some(p) = rep.panic {
			res.fail(Violation::new("panic", format!("audio-panic: {}", panic_signature(&p)), p));
			break;
		}
		let mut at = 0usize;
		let mut chunk = 0usize;
		while at < frames {
			let n = (frames - at).min(case.ibs);
			if faded {
				// the track's fade goes first; a fade-out that ends in this chunk makes it Paused at once
				fade.advance(dt * n as f64);
				if fade.tween.is_none() {
					life = match life {
						Life::Pausing => Life::Paused,
						Life::Resuming => Life::Playing,
						l => l,
					};
				}
				paused = life == Life::Paused;
				if paused {
					fade.prev = fade.cur;
				}
			}
			for (k, p) in params.iter_mut().enumerate() {
				// a paused track does not process its sounds and effects: their tweens stand still;
				// its own volume and its routes, the send track and the main track go on
				if paused && (STAGES[k] == Stage::Sound || STAGES[k] == Stage::Fx) {
					p.prev = p.cur;
					continue;
				}
				p.advance(dt * n as f64);
			}
			if paused {
				if let Some(i) = (0..n).find(|i| out[2 * (at + i)] != 0.0 || out[2 * (at + i) + 1] != 0.0) {
					res.fail(Violation::new("rendered-stage", "paused-track-audible", format!("callback {cb} chunk {chunk} frame {i}: output {} while the only sounding track is paused", out[2 * (at + i)])));
					break 'outer;
				}
				at += n;
				chunk += 1;
				continue;
			}
			if resuming && chunk == 0 {
				// (the resume fade ramps over this chunk)
				at += n;
				chunk += 1;
				continue;
			}
			let any_moving = params.iter().any(|p| p.moving()) || (faded && fade.moving());
			if faded && fade.moving() {
				res.hit("stage_chunks_inside_a_pause_or_resume_fade");
			}
			if any_moving {
				moving_chunks += 1;
				if n < case.ibs {
					short_moving_chunks += 1;
				}
			}
			for i in 0..n {
				let g: Vec<(f64, f64)> = params.iter().map(|p| p.gain(i, n)).collect();
				let (f_lo, f_hi) = if faded { fade.gain(i, n) } else { (1.0, 1.0) };
				// (the device output is clipped to [-1, 1])
				let total = |g: [f64; 5], route: f64| -> f64 {
					let pre = g[0] * g[1] * g[2];
					(g[4] * (pre + g[3] * route * pre) * DC as f64)
				};
				// (the route volume is taken once per chunk: anywhere between its value before and after)
				let (r_lo, r_hi) = if case.route.is_some() {
					let (a, b) = (amp(params[5].prev.min(params[5].cur) - 1e-4), amp(params[5].prev.max(params[5].cur) + 1e-4));
					(a, b)
				} else {
					(0.0, 0.0)
				};
				let want_lo = (total([g[0].0, g[1].0, g[2].0, g[3].0, g[4].0], r_lo) * f_lo).min(1.0);
				let want = (total([g[0].1, g[1].1, g[2].1, g[3].1, g[4].1], r_hi) * f_hi).min(1.0);
				let (l, r) = (out[2 * (at + i)] as f64, out[2 * (at + i) + 1] as f64);
				trace.f32(l as f32);
				let tol = 3e-5 * want.abs() + 2e-7;
				if l < want_lo - tol || l > want + tol || l != r {
					let which: Vec<String> = STAGES
						.iter()
						.zip(params.iter())
						.filter(|(_, p)| p.moving())
						.map(|(s, p)| format!("{s:?} {:.4} dB -> {:.4} dB over this chunk", p.prev, p.cur))
						.collect();
					res.fail(Violation::new(
						"rendered-stage",
						"rendered-gain-differs-from-closed-form",
						format!(
							"callback {cb} chunk {chunk} ({n} of {} frames) frame {i}: output {l} / {r}, closed form interpolated at (i+1)/n gives {want}; moving stages: {which:?}",
							case.ibs
						),
					));
					break 'outer;
				}
				frames_checked += 1;
			}
			beh.u64(any_moving as u64 + 2 * (n < case.ibs) as u64);
			at += n;
			chunk += 1;
		}
	}
	for s in &case.sets {
		beh.u64(STAGES.iter().position(|x| *x == s.stage).unwrap() as u64);
	}
	res.callbacks = case.callbacks.len() as u64;
	res.nontrivial = moving_chunks > 0;
	res.hit("type.stage");
	res.count("stage_chunks_with_moving_gain", moving_chunks);
	res.count("stage_short_chunks_with_moving_gain", short_moving_chunks);
	res.count("stage_frames_checked", frames_checked);
	res.behaviour_sig = beh.finish();
	res.trace_hash = trace.finish();
	res
}
