//! C02 - mixer output equals the documented signal-flow sum; nothing leaks or is lost.
//!
//! Track trees with probe sounds (known positive signals, every `process` call
//! logged) and probe effects (affine maps, so order and placement are
//! observable) are rendered through the real manager / renderer on the
//! simulated device. An executable reference mixer recomputes every device
//! buffer from the mirror of what the harness did. Gains that may be mid-tween
//! are intervals, pushed through the (monotone) flow; with fixed gains the check
//! is an exact point comparison. Second oracle: the call log of every probe.

use std::sync::{atomic::Ordering, Arc};

use kira::{
	track::{SendTrackBuilder, SendTrackHandle, TrackBuilder, TrackHandle},
	AudioManager, AudioManagerSettings, Capacities, Decibels, Frame, Tween,
};
use serde::{Deserialize, Serialize};
use serde_json::Value;

use crate::{
	backend::{SimBackend, SimBackendSettings},
	core::*,
	monitor::{self, panic_signature},
	probes::*,
	rng::{derive_seed, Hasher64, Rng},
	spec::dur,
};

#[derive(Clone, Copy, Debug, Serialize, Deserialize, PartialEq)]
pub struct Fx {
	pub gain: f32,
	pub offset: (f32, f32),
}

#[derive(Clone, Copy, Debug, Serialize, Deserialize, PartialEq)]
pub enum Target {
	Main,
	Track(usize),
	Send(usize),
	Route(usize, usize),
}

#[derive(Clone, Debug, Serialize, Deserialize, PartialEq)]
pub enum Op {
	AddSend { db: f32, effects: Vec<Fx> },
	AddTrack { parent: Option<usize>, db: f32, effects: Vec<Fx>, sends: Vec<(usize, f32)> },
	Play { track: Option<usize>, finish_after: Option<u64> },
	StopSound { sound: usize },
	DropTrack { track: usize },
	DropSend { send: usize },
	SetVolume { target: Target, db: f32, tween: f64 },
	Pause { track: usize, tween: f64 },
	Resume { track: usize, tween: f64 },
	Callback { frames: usize },
}

#[derive(Clone, Debug, Serialize, Deserialize)]
pub struct Case {
	pub seed: u64,
	pub sample_rate: u32,
	pub ibs: usize,
	pub main_db: f32,
	pub main_effects: Vec<Fx>,
	pub ops: Vec<Op>,
	/// scheduled stream: routes against racing adds (c02_sched.rs)
	#[serde(default)]
	pub sched: Option<super::c02_sched::SchedCase>,
}

fn amp(db: f32) -> f32 {
	// documented law: 0 dB = 1, <= -60 dB = silence, else 10^(dB/20)
	if db == 0.0 {
		1.0
	} else if db <= -60.0 {
		0.0
	} else {
		10f32.powf(db / 20.0)
	}
}

#[derive(Clone, Debug)]
struct Gain {
	lo: f32,
	hi: f32,
	target: f32,
	settle: f64,
}

impl Gain {
	fn fixed(v: f32) -> Self {
		Self {
			lo: v,
			hi: v,
			target: v,
			settle: f64::NEG_INFINITY,
		}
	}
	fn at(&mut self, t: f64) -> (f32, f32) {
		if t >= self.settle {
			self.lo = self.target;
			self.hi = self.target;
		}
		(self.lo, self.hi)
	}
	fn settled(&self, t: f64) -> bool {
		t >= self.settle
	}
	fn set(&mut self, target: f32, t_apply: f64, dur: f64, slack: f64) {
		self.at(t_apply);
		self.lo = self.lo.min(target);
		self.hi = self.hi.max(target);
		self.target = target;
		self.settle = t_apply + dur + slack;
	}
}

struct MSound {
	shared: Arc<ProbeShared>,
	track: Option<usize>,
	first_cb: u64,
	stop_gap: Option<u64>,
	finish_after: Option<u64>,
	emitted: u64,
	calls: Vec<Call>,
	/// known to have been removed (finished + one callback)
	gone: bool,
}

struct MTrack {
	parent: Option<usize>,
	handle: Option<TrackHandle>,
	vol: Gain,
	fade: Gain,
	/// pause requested and not resumed
	pausing: bool,
	effects: Vec<(Fx, Arc<ProbeShared>)>,
	routes: Vec<(usize, Gain)>,
	first_cb: u64,
	drop_gap: Option<u64>,
	/// a track is not removed before every track below it has been picked up
	removal_floor: u64,
	fx_calls: Vec<Vec<Call>>,
	/// lower bound of the time this track has been processed for: its tweens and
	/// fades only advance while every track above it is advancing
	local: f64,
}

struct MSend {
	handle: Option<SendTrackHandle>,
	vol: Gain,
	effects: Vec<(Fx, Arc<ProbeShared>)>,
	first_cb: u64,
	drop_gap: Option<u64>,
	fx_calls: Vec<Vec<Call>>,
}

fn removed_at(first_cb: u64, drop_gap: Option<u64>) -> u64 {
	match drop_gap {
		None => u64::MAX,
		// removal happens at the first callback at which the resource is already
		// owned by the audio thread: the next one, or the one after if it had not
		// been picked up yet
		Some(d) => d.max(first_cb + 1),
	}
}

fn gen_fx(rng: &mut Rng) -> Fx {
	Fx {
		gain: *rng.pick(&[0.5f32, 0.75, 1.25, 2.0, 1.0]),
		offset: (rng.frange(0.0, 0.002) as f32, rng.frange(0.0, 0.002) as f32),
	}
}

fn gen_db(rng: &mut Rng) -> f32 {
	match rng.below(8) {
		0 => 0.0,
		1 => -60.0,
		2 => 3.0,
		_ => rng.frange(-24.0, 3.0) as f32,
	}
}

fn gen_case(seed: u64, tier: Tier) -> Case {
	let mut rng = Rng::new(seed);
	if rng.chance(0.03) {
		return Case {
			seed,
			sample_rate: 8000,
			ibs: 8,
			main_db: 0.0,
			main_effects: vec![],
			ops: vec![],
			sched: Some(super::c02_sched::gen(&mut rng, tier)),
		};
	}
	let sample_rate = *rng.pick(&[8000u32, 44_100, 48_000]);
	let ibs = *rng.pick(&[1usize, 3, 16, 64, 128, 200]);
	let tweened = rng.chance(0.5);
	let n_ops = rng.urange(6, if tier == Tier::Quick { 40 } else { 90 });
	let mut ops = Vec::new();
	let (mut n_tracks, mut n_sends, mut n_sounds) = (0usize, 0usize, 0usize);
	let tween = |rng: &mut Rng| -> f64 {
		if !tweened {
			0.0
		} else {
			*rng.pick(&[0.0, 0.0, 0.001, 0.01, 0.05])
		}
	};
	let mut paused_this_gap: Vec<usize> = vec![];
	while ops.len() < n_ops {
		let k = rng.weighted(&[5, 12, 14, 4, 4, 2, 8, 4, 4, 22]);
		let op = match k {
			0 if n_sends < 3 => {
				n_sends += 1;
				Op::AddSend {
					db: gen_db(&mut rng),
					effects: (0..rng.usize_below(3)).map(|_| gen_fx(&mut rng)).collect(),
				}
			}
			1 if n_tracks < 20 => {
				let parent = if n_tracks > 0 && rng.chance(0.55) { Some(rng.usize_below(n_tracks)) } else { None };
				let mut sends = vec![];
				for s in 0..n_sends {
					if rng.chance(0.4) {
						sends.push((s, gen_db(&mut rng)));
					}
				}
				n_tracks += 1;
				Op::AddTrack {
					parent,
					db: gen_db(&mut rng),
					effects: (0..rng.usize_below(4)).map(|_| gen_fx(&mut rng)).collect(),
					sends,
				}
			}
			2 if n_sounds < 40 => {
				n_sounds += 1;
				Op::Play {
					track: if n_tracks > 0 && rng.chance(0.8) { Some(rng.usize_below(n_tracks)) } else { None },
					finish_after: if rng.chance(0.3) { Some(rng.below(600)) } else { None },
				}
			}
			3 if n_sounds > 0 => Op::StopSound {
				sound: rng.usize_below(n_sounds),
			},
			4 if n_tracks > 0 => Op::DropTrack {
				track: rng.usize_below(n_tracks),
			},
			5 if n_sends > 0 => Op::DropSend {
				send: rng.usize_below(n_sends),
			},
			6 => {
				let target = match rng.below(4) {
					0 => Target::Main,
					1 if n_sends > 0 => Target::Send(rng.usize_below(n_sends)),
					2 if n_tracks > 0 => Target::Route(rng.usize_below(n_tracks), rng.usize_below(3)),
					_ if n_tracks > 0 => Target::Track(rng.usize_below(n_tracks)),
					_ => Target::Main,
				};
				Op::SetVolume {
					target,
					db: gen_db(&mut rng),
					tween: tween(&mut rng),
				}
			}
			7 if n_tracks > 0 => {
				let t = rng.usize_below(n_tracks);
				if paused_this_gap.contains(&t) {
					continue;
				}
				paused_this_gap.push(t);
				Op::Pause {
					track: t,
					tween: tween(&mut rng),
				}
			}
			8 if n_tracks > 0 => {
				let t = rng.usize_below(n_tracks);
				if paused_this_gap.contains(&t) {
					continue;
				}
				paused_this_gap.push(t);
				Op::Resume {
					track: t,
					tween: tween(&mut rng),
				}
			}
			9 => {
				paused_this_gap.clear();
				Op::Callback {
					frames: match rng.below(5) {
						0 => 1,
						1 => ibs,
						2 => ibs * 2 + 1,
						_ => rng.urange(1, 300),
					},
				}
			}
			_ => continue,
		};
		ops.push(op);
	}
	for _ in 0..2 {
		ops.push(Op::Callback { frames: 50 });
	}
	Case {
		seed,
		sample_rate,
		ibs,
		main_db: if rng.chance(0.5) { 0.0 } else { gen_db(&mut rng) },
		main_effects: (0..rng.usize_below(3)).map(|_| gen_fx(&mut rng)).collect(),
		ops,
		sched: None,
	}
}

fn tween_of(secs: f64) -> Tween {
	Tween {
		duration: dur(secs),
		..Default::default()
	}
}

#[derive(Clone, Copy, PartialEq, Debug)]
enum Expect {
	Full,
	Prefix,
	None,
}

pub fn run_case(case: &Case) -> CaseResult {
	if let Some(sc) = &case.sched {
		return super::c02_sched::run(sc);
	}
	let mut res = CaseResult::default();
	let mut trace = Hasher64::new();
	let mut beh = Hasher64::new();
	let sr = case.sample_rate;
	let dt = 1.0 / sr as f64;
	let slack = 2.0 * case.ibs as f64 / sr as f64 + 1e-9;

	// main track with probe effects
	let mut main_fx: Vec<(Fx, Arc<ProbeShared>)> = Vec::new();
	let mut main_builder = kira::track::MainTrackBuilder::new().volume(case.main_db).sound_capacity(64);
	for fx in &case.main_effects {
		let h = main_builder.add_effect(ProbeEffectBuilder {
			gain: fx.gain,
			offset: fx.offset,
		});
		main_fx.push((*fx, h));
	}
	let manager = monitor::catch(move || {
		AudioManager::<SimBackend>::new(AudioManagerSettings {
			capacities: Capacities {
				sub_track_capacity: 32,
				send_track_capacity: 8,
				..Default::default()
			},
			main_track_builder: main_builder,
			internal_buffer_size: case.ibs,
			backend_settings: SimBackendSettings { sample_rate: sr },
		})
		.unwrap()
	});
	let Ok(mut manager) = manager else {
		res.hit("setup_panicked");
		return res;
	};
	let device = manager.backend_mut().device.clone();
	let mut main_vol = Gain::fixed(amp(case.main_db));
	let mut tracks: Vec<MTrack> = Vec::new();
	let mut sends: Vec<MSend> = Vec::new();
	let mut sounds: Vec<MSound> = Vec::new();
	let mut cb: u64 = 0; // number of the next callback
	let mut frames_total: u64 = 0;
	let mut out = Vec::new();
	let mut next_probe_id = 1u32;
	let mut nonsilent = false;
	let mut exact_chunks = 0u64;
	let mut interval_chunks = 0u64;

	'ops: for (oi, op) in case.ops.iter().enumerate() {
		let t_now = frames_total as f64 / sr as f64;
		match op {
			Op::AddSend { db, effects } => {
				let mut b = SendTrackBuilder::new().volume(*db);
				let mut fx = Vec::new();
				for e in effects {
					let h = b.add_effect(ProbeEffectBuilder {
						gain: e.gain,
						offset: e.offset,
					});
					fx.push((*e, h));
				}
				if let Ok(h) = manager.add_send_track(b) {
					sends.push(MSend {
						handle: Some(h),
						vol: Gain::fixed(amp(*db)),
						effects: fx,
						first_cb: cb,
						drop_gap: None,
						fx_calls: vec![],
					});
				}
			}
			Op::AddTrack { parent, db, effects, sends: routes } => {
				let mut b = TrackBuilder::new().volume(*db).sound_capacity(16).sub_track_capacity(16);
				let mut fx = Vec::new();
				for e in effects {
					let h = b.add_effect(ProbeEffectBuilder {
						gain: e.gain,
						offset: e.offset,
					});
					fx.push((*e, h));
				}
				let mut mroutes = Vec::new();
				for (s, rdb) in routes {
					if let Some(ms) = sends.get(*s) {
						if let Some(h) = &ms.handle {
							b = b.with_send(h, *rdb);
							mroutes.push((*s, Gain::fixed(amp(*rdb))));
						}
					}
				}
				let parent = parent.filter(|p| tracks.get(*p).map(|t| t.handle.is_some()).unwrap_or(false));
				let r = match parent {
					None => manager.add_sub_track(b),
					Some(p) => tracks[p].handle.as_mut().unwrap().add_sub_track(b),
				};
				if let Ok(h) = r {
					tracks.push(MTrack {
						parent,
						handle: Some(h),
						vol: Gain::fixed(amp(*db)),
						fade: Gain::fixed(1.0),
						pausing: false,
						effects: fx,
						routes: mroutes,
						first_cb: cb,
						drop_gap: None,
						removal_floor: 0,
						fx_calls: vec![],
						local: 0.0,
					});
				} else {
					// keep indices stable: a placeholder that never existed
					tracks.push(MTrack {
						parent,
						handle: None,
						vol: Gain::fixed(0.0),
						fade: Gain::fixed(1.0),
						pausing: false,
						effects: vec![],
						routes: vec![],
						first_cb: u64::MAX - 1,
						drop_gap: Some(0),
						removal_floor: 0,
						fx_calls: vec![],
						local: 0.0,
					});
					res.hit("limit_errors");
				}
			}
			Op::Play { track, finish_after } => {
				let track = track.filter(|t| tracks.get(*t).map(|t| t.handle.is_some()).unwrap_or(false));
				let data = ProbeSoundData {
					id: next_probe_id,
					amp: 0.01,
					finish_after: finish_after.unwrap_or(u64::MAX),
				};
				next_probe_id += 1;
				let r = match track {
					None => manager.play(data),
					Some(t) => tracks[t].handle.as_mut().unwrap().play(data),
				};
				if let Ok(shared) = r {
					sounds.push(MSound {
						shared,
						track,
						first_cb: cb,
						stop_gap: None,
						finish_after: *finish_after,
						emitted: 0,
						calls: vec![],
						gone: false,
					});
				} else {
					res.hit("limit_errors");
				}
			}
			Op::StopSound { sound } => {
				if let Some(s) = sounds.get_mut(*sound) {
					if s.stop_gap.is_none() {
						s.shared.stop.store(true, Ordering::SeqCst);
						s.stop_gap = Some(cb);
					}
				}
			}
			Op::DropTrack { track } => {
				if *track < tracks.len() && tracks[*track].handle.is_some() {
					// the whole subtree, children first
					let mut order = vec![*track];
					let mut i = 0;
					while i < order.len() {
						let p = order[i];
						for (c, t) in tracks.iter().enumerate() {
							if t.parent == Some(p) && t.handle.is_some() {
								order.push(c);
							}
						}
						i += 1;
					}
					// a track is removed at the next callback - unless a track below it has not been
					// picked up yet: then it (and everything between) stays for one more callback
					let floor_of = |root: usize, tracks: &Vec<MTrack>| -> u64 {
						let mut floor = 0u64;
						let mut all = vec![root];
						let mut q = 0;
						while q < all.len() {
							let p = all[q];
							for (c, t) in tracks.iter().enumerate() {
								if t.parent == Some(p) && cb < removed_at(t.first_cb, t.drop_gap).max(t.removal_floor) {
									all.push(c);
								}
							}
							q += 1;
						}
						for t in &all {
							if tracks[*t].first_cb < u64::MAX - 8 {
								floor = floor.max(tracks[*t].first_cb + 1);
							}
						}
						floor
					};
					for t in order.iter().rev() {
						let floor = floor_of(*t, &tracks);
						tracks[*t].handle = None;
						tracks[*t].drop_gap = Some(cb);
						tracks[*t].removal_floor = floor;
					}
				}
			}
			Op::DropSend { send } => {
				if let Some(s) = sends.get_mut(*send) {
					if s.handle.take().is_some() {
						s.drop_gap = Some(cb);
					}
				}
			}
			Op::SetVolume { target, db, tween } => {
				let a = amp(*db);
				match target {
					Target::Main => {
						manager.main_track().set_volume(*db, tween_of(*tween));
						main_vol.set(a, t_now, *tween, slack);
					}
					Target::Track(t) => {
						if let Some(mt) = tracks.get_mut(*t) {
							if let Some(h) = mt.handle.as_mut() {
								h.set_volume(*db, tween_of(*tween));
								let l = mt.local;
								mt.vol.set(a, l, *tween, slack);
							}
						}
					}
					Target::Send(s) => {
						if let Some(ms) = sends.get_mut(*s) {
							if let Some(h) = ms.handle.as_mut() {
								h.set_volume(*db, tween_of(*tween));
								ms.vol.set(a, t_now, *tween, slack);
							}
						}
					}
					Target::Route(t, k) => {
						if let Some(mt) = tracks.get_mut(*t) {
							if !mt.routes.is_empty() {
								let k = *k % mt.routes.len();
								let send_idx = mt.routes[k].0;
								if let (Some(h), Some(sh)) = (mt.handle.as_mut(), sends[send_idx].handle.as_ref()) {
									let _ = h.set_send(sh, *db, tween_of(*tween));
									let l = mt.local;
									mt.routes[k].1.set(a, l, *tween, slack);
								}
							}
						}
					}
				}
			}
			Op::Pause { track, tween } => {
				if let Some(mt) = tracks.get_mut(*track) {
					if let Some(h) = mt.handle.as_mut() {
						h.pause(tween_of(*tween));
						let l = mt.local;
						mt.fade.set(0.0, l, *tween, slack);
						mt.pausing = true;
					}
				}
			}
			Op::Resume { track, tween } => {
				if let Some(mt) = tracks.get_mut(*track) {
					if let Some(h) = mt.handle.as_mut() {
						h.resume(tween_of(*tween));
						let l = mt.local;
						mt.fade.set(1.0, l, *tween, slack);
						mt.pausing = false;
					}
				}
			}
			Op::Callback { frames } => {
				let frames = *frames;
				CURRENT_CALLBACK.store(cb, Ordering::SeqCst);
				let rep = device.callback(frames, 2, &mut out);
				if let Some(p) = rep.panic {
					res.fail(Violation::new("panic", format!("audio-panic: {}", panic_signature(&p)), format!("op {oi}: callback panicked: {p}")));
					break 'ops;
				}
				res.callbacks += 1;
				// collect the call logs of this callback
				for s in sounds.iter_mut() {
					s.calls = s.shared.take_calls();
				}
				for t in tracks.iter_mut() {
					t.fx_calls = t.effects.iter().map(|(_, sh)| sh.take_calls()).collect();
				}
				for s in sends.iter_mut() {
					s.fx_calls = s.effects.iter().map(|(_, sh)| sh.take_calls()).collect();
				}
				let main_calls: Vec<Vec<Call>> = main_fx.iter().map(|(_, sh)| sh.take_calls()).collect();
				// internal chunks of this callback
				let mut chunk_lens = Vec::new();
				let mut left = frames;
				while left > 0 {
					let c = left.min(case.ibs);
					chunk_lens.push(c);
					left -= c;
				}
				// presence of every resource during this callback
				let t_present: Vec<bool> = tracks
					.iter()
					.map(|t| cb >= t.first_cb && cb < if t.drop_gap.is_some() { removed_at(t.first_cb, t.drop_gap).max(t.removal_floor) } else { u64::MAX })
					.collect();
				let path_present = |mut t: usize| -> bool {
					loop {
						if !t_present[t] {
							return false;
						}
						match tracks[t].parent {
							Some(p) => t = p,
							None => return true,
						}
					}
				};
				let s_present: Vec<bool> = sends.iter().map(|s| cb >= s.first_cb && cb < removed_at(s.first_cb, s.drop_gap)).collect();
				// sounds: removal one callback after finishing / stopping
				let mut snd_present = Vec::new();
				for s in sounds.iter_mut() {
					let stop_removed = removed_at(s.first_cb, s.stop_gap);
					let mut present = cb >= s.first_cb && cb < stop_removed && !s.gone;
					if let Some(t) = s.track {
						present &= path_present(t);
					}
					snd_present.push(present);
				}

				// ---- oracle 2: call logs ---------------------------------------
				let check_calls = |what: String, calls: &[Call], expect: Expect, is_sound: bool, res: &mut CaseResult| {
					match expect {
						Expect::None => {
							if !calls.is_empty() {
								res.fail(Violation::new(
									"call-log",
									"called-while-removed-or-paused",
									format!("op {oi} (callback {cb}): {what} was asked for {} slices although its branch is removed / paused", calls.len()),
								));
							}
						}
						Expect::Full | Expect::Prefix => {
							if calls.len() > chunk_lens.len() || (expect == Expect::Full && calls.len() != chunk_lens.len()) {
								res.fail(Violation::new(
									"call-log",
									if calls.len() > chunk_lens.len() { "asked-more-than-once" } else { "not-asked-for-every-frame" },
									format!("op {oi} (callback {cb}, {frames} frames, internal buffer {}): {what} got {} process calls {:?}, expected {:?}", case.ibs, calls.len(), calls.iter().map(|c| c.len).collect::<Vec<_>>(), chunk_lens),
								));
								return;
							}
							for (j, c) in calls.iter().enumerate() {
								if c.len != chunk_lens[j] || c.len > case.ibs {
									res.fail(Violation::new(
										"call-log",
										"wrong-slice-length",
										format!("op {oi} (callback {cb}): {what} call {j} has {} frames, expected {} (internal buffer {})", c.len, chunk_lens[j], case.ibs),
									));
									return;
								}
								if (c.dt - dt).abs() > 1e-15 {
									res.fail(Violation::new("call-log", "wrong-dt", format!("op {oi}: {what} was given dt {} at sample rate {sr}", c.dt)));
									return;
								}
								if c.role != monitor::Role::Audio {
									res.fail(Violation::new("call-log", "processed-outside-audio-role", format!("{what} processed in role {:?}", c.role)));
									return;
								}
								if j > 0 && is_sound && c.start != calls[j - 1].start + calls[j - 1].len as u64 {
									res.fail(Violation::new("call-log", "frames-out-of-order", format!("op {oi}: {what} call {j} starts at its frame {} after a call ending at {}", c.start, calls[j - 1].start + calls[j - 1].len as u64)));
									return;
								}
							}
						}
					}
				};
				// pause state of every track at the beginning / end of this callback
				let t_cb_start = frames_total as f64 / sr as f64;
				let t_cb_end = (frames_total + frames as u64) as f64 / sr as f64;
				// Yes = surely paused during the whole callback, No = surely advancing, Maybe otherwise
				let pause_state: Vec<Expect> = tracks
					.iter()
					.map(|t| {
						if t.pausing {
							if t.fade.settled(t.local) {
								Expect::None
							} else {
								Expect::Prefix
							}
						} else {
							Expect::Full
						}
					})
					.collect();
				let path_expect = |mut t: usize| -> Expect {
					let mut e = Expect::Full;
					loop {
						if !t_present[t] {
							return Expect::None;
						}
						match pause_state[t] {
							Expect::None => return Expect::None,
							Expect::Prefix => e = Expect::Prefix,
							Expect::Full => {}
						}
						match tracks[t].parent {
							Some(p) => t = p,
							None => return e,
						}
					}
				};
				for (si, s) in sounds.iter().enumerate() {
					let mut e = if snd_present[si] {
						match s.track {
							None => Expect::Full,
							Some(t) => path_expect(t),
						}
					} else {
						Expect::None
					};
					// a sound that finishes by itself is removed at the callback after the
					// one in which it reached its end; until then it is still asked
					if e != Expect::None && s.finish_after.map(|f| s.emitted >= f).unwrap_or(false) && s.first_cb < cb {
						e = Expect::None;
					}
					check_calls(format!("sound {si}"), &s.calls, e, true, &mut res);
				}
				for (ti, t) in tracks.iter().enumerate() {
					let e = path_expect(ti);
					for (k, calls) in t.fx_calls.iter().enumerate() {
						check_calls(format!("effect {k} of track {ti}"), calls, e, false, &mut res);
					}
				}
				for (si, s) in sends.iter().enumerate() {
					let e = if s_present[si] { Expect::Full } else { Expect::None };
					for (k, calls) in s.fx_calls.iter().enumerate() {
						check_calls(format!("effect {k} of send {si}"), calls, e, false, &mut res);
					}
				}
				for (k, calls) in main_calls.iter().enumerate() {
					check_calls(format!("effect {k} of the main track"), calls, Expect::Full, false, &mut res);
				}
				if res.violation.is_some() {
					break 'ops;
				}

				// ---- oracle 1: reference mixer per internal chunk -----------------
				let children: Vec<Vec<usize>> = (0..tracks.len())
					.map(|p| (0..tracks.len()).filter(|c| tracks[*c].parent == Some(p)).collect())
					.collect();
				let mut offset = 0usize;
				for (j, n) in chunk_lens.iter().enumerate() {
					let n = *n;
					let tc = (frames_total + offset as u64) as f64 / sr as f64;
					let mut send_in_lo = vec![vec![Frame::ZERO; n]; sends.len()];
					let mut send_in_hi = vec![vec![Frame::ZERO; n]; sends.len()];
					let mut all_points = true;
					// emission of a sound in this chunk: its j-th call of this callback, if any
					fn emission(s: &MSound, j: usize) -> Option<&Vec<Frame>> {
						s.calls.get(j).map(|c| &c.frames)
					}
					// recursive evaluation, children before parents: process in reverse creation order
					// is the branch above a track processed at all? (0/1 factors for the bounds)
					let mut anc_lo = vec![1.0f32; tracks.len()];
					let mut anc_hi = vec![1.0f32; tracks.len()];
					for ti in 0..tracks.len() {
						if let Some(p) = tracks[ti].parent {
							let p_lo = if !t_present[p] || tracks[p].pausing { 0.0 } else { anc_lo[p] };
							let p_hi = if !t_present[p] || (tracks[p].pausing && tracks[p].fade.settled(tracks[p].local)) { 0.0 } else { anc_hi[p] };
							anc_lo[ti] = p_lo;
							anc_hi[ti] = p_hi;
						}
					}
					let mut t_out_lo: Vec<Option<Vec<Frame>>> = vec![None; tracks.len()];
					let mut t_out_hi: Vec<Option<Vec<Frame>>> = vec![None; tracks.len()];
					for ti in (0..tracks.len()).rev() {
						if !t_present[ti] {
							continue;
						}
						let mut lo = vec![Frame::ZERO; n];
						let mut hi = vec![Frame::ZERO; n];
						for c in &children[ti] {
							if let (Some(cl), Some(ch)) = (&t_out_lo[*c], &t_out_hi[*c]) {
								for i in 0..n {
									lo[i] += cl[i];
									hi[i] += ch[i];
								}
							}
						}
						for (si, s) in sounds.iter().enumerate() {
							if s.track == Some(ti) && snd_present[si] {
								if let Some(e) = emission(s, j) {
									for i in 0..n.min(e.len()) {
										lo[i] += e[i];
										hi[i] += e[i];
									}
								}
							}
						}
						let t = &mut tracks[ti];
						for (fx, _) in &t.effects {
							for i in 0..n {
								lo[i] = Frame::new(lo[i].left * fx.gain + fx.offset.0, lo[i].right * fx.gain + fx.offset.1);
								hi[i] = Frame::new(hi[i].left * fx.gain + fx.offset.0, hi[i].right * fx.gain + fx.offset.1);
							}
						}
						let tl = t.local;
						let (vlo, vhi) = t.vol.at(tl);
						let (mut flo, mut fhi) = t.fade.at(tl);
						if t.pausing {
							// from the moment the pause fade may have finished the track may already be silent
							flo = 0.0;
							if t.fade.settled(tl) {
								fhi = 0.0;
							}
						}
						if vlo != vhi || flo != fhi {
							all_points = false;
						}
						for i in 0..n {
							lo[i] = lo[i] * (vlo * flo);
							hi[i] = hi[i] * (vhi * fhi);
						}
						for (s, g) in t.routes.iter_mut() {
							let (rlo, rhi) = g.at(tl);
							if rlo != rhi {
								all_points = false;
							}
							if s_present[*s] {
								for i in 0..n {
									send_in_lo[*s][i] += lo[i] * (rlo * anc_lo[ti]);
									send_in_hi[*s][i] += hi[i] * (rhi * anc_hi[ti]);
								}
							}
						}
						t_out_lo[ti] = Some(lo);
						t_out_hi[ti] = Some(hi);
					}
					let mut bus_lo = vec![Frame::ZERO; n];
					let mut bus_hi = vec![Frame::ZERO; n];
					for ti in 0..tracks.len() {
						if tracks[ti].parent.is_none() {
							if let (Some(l), Some(h)) = (&t_out_lo[ti], &t_out_hi[ti]) {
								for i in 0..n {
									bus_lo[i] += l[i];
									bus_hi[i] += h[i];
								}
							}
						}
					}
					for (si, s) in sends.iter_mut().enumerate() {
						if !s_present[si] {
							continue;
						}
						let (mut lo, mut hi) = (std::mem::take(&mut send_in_lo[si]), std::mem::take(&mut send_in_hi[si]));
						for (fx, _) in &s.effects {
							for i in 0..n {
								lo[i] = Frame::new(lo[i].left * fx.gain + fx.offset.0, lo[i].right * fx.gain + fx.offset.1);
								hi[i] = Frame::new(hi[i].left * fx.gain + fx.offset.0, hi[i].right * fx.gain + fx.offset.1);
							}
						}
						let (vlo, vhi) = s.vol.at(tc);
						if vlo != vhi {
							all_points = false;
						}
						for i in 0..n {
							bus_lo[i] += lo[i] * vlo;
							bus_hi[i] += hi[i] * vhi;
						}
					}
					for (si, s) in sounds.iter().enumerate() {
						if s.track.is_none() && snd_present[si] {
							if let Some(e) = emission(s, j) {
								for i in 0..n.min(e.len()) {
									bus_lo[i] += e[i];
									bus_hi[i] += e[i];
								}
							}
						}
					}
					for (fx, _) in &main_fx {
						for i in 0..n {
							bus_lo[i] = Frame::new(bus_lo[i].left * fx.gain + fx.offset.0, bus_lo[i].right * fx.gain + fx.offset.1);
							bus_hi[i] = Frame::new(bus_hi[i].left * fx.gain + fx.offset.0, bus_hi[i].right * fx.gain + fx.offset.1);
						}
					}
					let (mlo, mhi) = main_vol.at(tc);
					if mlo != mhi {
						all_points = false;
					}
					if all_points {
						exact_chunks += 1;
					} else {
						interval_chunks += 1;
					}
					for i in 0..n {
						let got = (out[2 * (offset + i)], out[2 * (offset + i) + 1]);
						let lo = ((bus_lo[i].left * mlo).min(1.0), (bus_lo[i].right * mlo).min(1.0));
						let hi = ((bus_hi[i].left * mhi).min(1.0), (bus_hi[i].right * mhi).min(1.0));
						trace.f32(got.0);
						trace.f32(got.1);
						if got.0 != 0.0 || got.1 != 0.0 {
							nonsilent = true;
						}
						for (g, l, h, chn) in [(got.0, lo.0, hi.0, 'L'), (got.1, lo.1, hi.1, 'R')] {
							let tol = 2e-5 * h.abs() + 1e-7;
							let bad = if h == 0.0 { g != 0.0 } else { !(g >= l - tol && g <= h + tol) };
							if bad {
								let sig = if h == 0.0 {
									"silence-expected"
								} else if all_points {
									"output-differs-from-signal-flow"
								} else {
									"output-outside-signal-flow-bounds"
								};
								res.fail(Violation::new(
									"reference-mixer",
									sig,
									format!(
										"op {oi} (callback {cb}) chunk {j} frame {i} channel {chn}: device has {g}, reference {}",
										if l == h { format!("{h}") } else { format!("[{l}, {h}]") }
									),
								));
								break 'ops;
							}
						}
					}
					offset += n;
					for ti in 0..tracks.len() {
						if t_present[ti] && anc_lo[ti] == 1.0 {
							tracks[ti].local += n as f64 / sr as f64;
						}
					}
				}
				// bookkeeping after the callback
				for s in sounds.iter_mut() {
					let n: u64 = s.calls.iter().map(|c| c.len as u64).sum();
					if let Some(f) = s.finish_after {
						if s.emitted >= f && s.first_cb < cb {
							s.gone = true;
						}
					}
					s.emitted += n;
				}
				let _ = t_cb_end;
				frames_total += frames as u64;
				res.frames += frames as u64;
				cb += 1;
				beh.u64(tracks.iter().filter(|t| t.handle.is_some()).count() as u64);
				beh.u64(sounds.iter().filter(|s| !s.calls.is_empty()).count().min(6) as u64);
				beh.u64(chunk_lens.len().min(4) as u64);
			}
		}
	}
	res.count("chunks_checked_exactly", exact_chunks);
	res.count("chunks_checked_by_bounds", interval_chunks);
	res.count("tracks", tracks.len() as u64);
	res.count("sounds", sounds.len() as u64);
	res.sim_seconds = frames_total as f64 / sr as f64;
	res.nontrivial = nonsilent;
	drop(tracks);
	drop(sends);
	drop(manager);
	res.behaviour_sig = beh.finish();
	res.trace_hash = trace.finish();
	res
}

pub struct C02;

impl Check for C02 {
	fn info(&self) -> CheckInfo {
		CheckInfo {
			id: "C02",
			level: "exploration",
			rule: "3% of the cases are scheduled: a gameplay task adds send track(s), a track routed to them (optionally nested) and a DC sound while an audio task runs callbacks under seeded random schedules at the yield points of the resource rings - every output sample is silence or the full documented sum; the others: each case = seeded history over {add send track, add (nested) sub-track with probe-effect chain and send routes, play probe sound (optionally self-finishing), stop sound, drop a track subtree, drop a send track, set volume of main / track / send / route (fixed or tweened), pause / resume a track, device callback of arbitrary size} at a seeded internal buffer size and sample rate; non-trivial = non-silent output; distinct = hash of the per-callback (live tracks, sounds asked, chunks) sequence",
			assumptions: vec![
				"probe sounds emit positive samples and probe effects are affine with positive gain and offsets, so every gain acts monotonically and interval bounds are sound".into(),
				"a gain that may be mid-tween (from the command until duration + two internal buffers later) is an interval between its previous and target amplitude; the exact interpolation inside a chunk is C06's subject".into(),
				"pause and resume of one track are not issued in the same gap between two callbacks (their relative order is not documented)".into(),
				"dropping a track drops the handles of its whole subtree in the same gap (other orders belong to C12)".into(),
			],
			components: vec![
				("AudioManager, Renderer, Mixer, MainTrack, Track, SendTrack, routes, Parameter, resource storage", "real"),
				("sounds and effects", "stub (probe implementations of the public Sound / Effect traits)"),
				("audio device", "stub (SimBackend)"),
			],
		}
	}
	fn num_cases(&self, tier: Tier) -> u64 {
		match tier {
			Tier::Quick => 150_000,
			Tier::Thorough => 4_000_000,
		}
	}
	fn case(&self, tier: Tier, seed: u64, index: u64) -> Value {
		serde_json::to_value(gen_case(derive_seed(seed, 2, index), tier)).unwrap()
	}
	fn run(&self, case: &Value) -> CaseResult {
		let case: Case = serde_json::from_value(case.clone()).expect("malformed C02 case");
		run_case(&case)
	}
	fn shrink(&self, case: &Value) -> Vec<Value> {
		if !case["sched"].is_null() {
			let c: Case = serde_json::from_value(case.clone()).unwrap();
			let sc = c.sched.clone().unwrap();
			let mut out = vec![];
			let mut push = |sc2: super::c02_sched::SchedCase| out.push(serde_json::to_value(Case { sched: Some(sc2), ..c.clone() }).unwrap());
			if sc.sends > 1 {
				push(super::c02_sched::SchedCase { sends: 1, ..sc.clone() });
			}
			if sc.nested {
				push(super::c02_sched::SchedCase { nested: false, ..sc.clone() });
			}
			if sc.warm > 0 {
				push(super::c02_sched::SchedCase { warm: 0, ..sc.clone() });
			}
			if sc.callbacks > 1 {
				push(super::c02_sched::SchedCase { callbacks: sc.callbacks - 1, ..sc.clone() });
			}
			return out;
		}
		let mut out = shrink_ops_array(case, "ops");
		let mut c = case.clone();
		if c["main_effects"].as_array().map(|a| !a.is_empty()).unwrap_or(false) {
			c["main_effects"] = Value::Array(vec![]);
			out.push(c);
		}
		out
	}
}
