//! C09 - a streaming sound behaves exactly like a static sound of the same audio.
//!
//! Differential simulation: the same audio, settings and command history are
//! given to a `StaticSoundData` and to a `StreamingSoundData` over a scripted
//! decoder (arbitrary packet sizes, early-landing seeks). The decoder thread is a
//! gated simulator task that is run "until its ring is full, it sleeps or ends"
//! before every callback (deterministic "decoder keeps ahead"). Output frames
//! must be bit-identical, states identical at every callback, positions within
//! one frame until the sound ends.

use kira::{
	info::MockInfoBuilder,
	sound::{PlaybackState, SoundData},
	Frame,
};
use serde::{Deserialize, Serialize};
use serde_json::Value;

use crate::{
	core::*,
	decoder::DecoderSpec,
	monitor::{self, Role},
	rng::{derive_seed, Hasher64, Rng},
	sched::{Sim, StepEnd},
	spec::*,
	world::{static_data, streaming_data, NoResolver},
};

#[derive(Clone, Debug, Serialize, Deserialize)]
pub struct Case {
	pub seed: u64,
	pub decoder: DecoderSpec,
	pub slice: Option<(usize, usize)>,
	pub settings: SoundSettingsSpec,
	pub device_rate: u32,
	pub chunks: Vec<usize>,
	pub cmds: Vec<(usize, SoundCmd)>,
}

fn gen_tween(rng: &mut Rng) -> TweenSpec {
	let any = rng.frange(0.0, 0.02);
	TweenSpec {
		start: if rng.chance(0.75) { StartSpec::Immediate } else { StartSpec::Delayed(rng.frange(0.0, 0.004)) },
		dur: *rng.pick(&[0.0, 0.0005, 0.002, 0.01, any]),
		easing: EasingSpec::gen(rng),
	}
}

fn gen_case(seed: u64, tier: Tier) -> Case {
	let mut rng = Rng::new(seed);
	// long runs: more source frames are consumed than the streaming sound's ring buffer
	// (16384 slots) holds, so its read and write positions wrap around
	let long = rng.chance(0.03);
	let long_chunk = *rng.pick(&[128usize, 256, 500, 1000, 1021]);
	// (a third of the long runs end exactly where the decoder's push that fills the ring is also
	// the last frame of the audio: 16383 frames plus a whole number of callbacks)
	let long_edge = long && rng.chance(0.35);
	let len = match rng.below(10) {
		_ if long_edge => 16_383 + rng.usize_below(12) * long_chunk,
		_ if long => {
			if rng.chance(0.5) {
				rng.urange(17_000, 45_000)
			} else {
				rng.urange(4, 300)
			}
		}
		0 => rng.urange(0, 4),
		1..=6 => rng.urange(4, 300),
		_ => rng.urange(300, 3000),
	};
	let sample_rate = *rng.pick(&[8000u32, 22_050, 44_100, 48_000, 8001, 1000]);
	let data = DataSpec {
		len,
		sample_rate,
		signal: Signal::Noise {
			seed: rng.next_u64(),
			amp: 0.9,
		},
	};
	let slice = if !long_edge && rng.chance(0.3) && len > 0 {
		let a = rng.usize_below(len);
		Some((a, rng.urange(a, len)))
	} else {
		None
	};
	let n = slice.map(|(a, b)| b - a).unwrap_or(len);
	let pos = |rng: &mut Rng| -> Pos {
		let i = rng.usize_below(n + 2);
		if rng.chance(0.5) {
			Pos::Samples(i)
		} else {
			Pos::Secs(i as f64 / sample_rate as f64)
		}
	};
	let loop_region = if long_edge {
		None
	} else if long && len < 17_000 {
		Some(RegionSpec {
			start: Pos::Samples(rng.usize_below(n.max(2) / 2)),
			end: None,
		})
	} else if rng.chance(0.45) {
		let a = rng.usize_below(n + 1);
		let b = match rng.below(4) {
			0 => None,
			_ => Some(Pos::Samples(rng.usize_below(n + 2))),
		};
		Some(RegionSpec {
			start: Pos::Samples(a),
			end: b,
		})
	} else {
		None
	};
	let rate = match rng.below(10) {
		_ if long_edge => 1.0,
		_ if long => *rng.pick(&[1.0, 1.0, 1.7, 2.0]),
		0..=3 => 1.0,
		4 => 0.0,
		5 => 0.5,
		6 => 2.0,
		7 => std::f64::consts::FRAC_1_SQRT_2,
		_ => rng.frange(0.0, 3.0),
	};
	let settings = SoundSettingsSpec {
		start: if long_edge || rng.chance(0.8) { StartSpec::Immediate } else { StartSpec::Delayed(rng.frange(0.0, 0.003)) },
		start_position: if long_edge || rng.chance(0.5) { Pos::Samples(0) } else { pos(&mut rng) },
		loop_region,
		reverse: false,
		volume: Val::Fixed(Db(*rng.pick(&[0.0f32, -6.0, -20.0, 3.0, -60.0]))),
		rate: Val::Fixed(Rate(rate)),
		panning: Val::Fixed(Pan(*rng.pick(&[0.0f32, 0.0, -1.0, 1.0, 0.3]))),
		fade_in: if !long_edge && rng.chance(0.2) { Some(gen_tween(&mut rng)) } else { None },
	};
	let decoder = DecoderSpec {
		data,
		packets: {
			let mut p: Vec<usize> = (0..rng.urange(1, 4)).map(|_| *rng.pick(&[0usize, 1, 2, 3, 7, 17, 64, 256, 1000])).collect();
			if p.iter().all(|x| *x == 0) {
				p.push(3);
			}
			p
		},
		seek_gran: *rng.pick(&[1usize, 1, 2, 3, 16, 64, 1000]),
		fail_decode: vec![],
		fail_seek: vec![],
		fail_sticky: false,
		slow: 0,
	};
	let device_rate = if long || rng.chance(0.6) { sample_rate } else { *rng.pick(&[8000u32, 44_100, 48_000, 96_000]) };
	let budget = match tier {
		_ if long_edge => len + 4 * long_chunk,
		_ if long => rng.urange(17_500, 36_000),
		Tier::Quick => 700,
		Tier::Thorough => 2500,
	};
	let mut chunks = Vec::new();
	let mut total = 0;
	let mode = rng.below(3);
	while total < budget {
		let c = match mode {
			_ if long => long_chunk,
			0 => rng.urange(1, 16),
			1 => *rng.pick(&[1usize, 7, 64, 128]),
			_ => rng.urange(1, 200),
		};
		chunks.push(c);
		total += c;
		// now and then an empty slice: time does not pass, but what is due at once (a command with
		// a zero-duration tween, a start time that has arrived) is due in both implementations
		if !long && rng.chance(0.04) {
			chunks.push(0);
		}
	}
	let mut cmds = Vec::new();
	if !long && rng.chance(0.6) {
		let k = rng.urange(1, 5);
		for _ in 0..k {
			let at = rng.usize_below(chunks.len());
			let cmd = match rng.below(9) {
				0 | 1 => SoundCmd::Pause(gen_tween(&mut rng)),
				2 | 3 => SoundCmd::Resume(gen_tween(&mut rng)),
				4 => SoundCmd::Stop(gen_tween(&mut rng)),
				5 => SoundCmd::ResumeAt(StartSpec::Delayed(rng.frange(0.0, 0.004)), gen_tween(&mut rng)),
				6 => SoundCmd::SetVolume(Val::Fixed(Db(rng.frange(-30.0, 6.0) as f32)), gen_tween(&mut rng)),
				7 => SoundCmd::SetRate(Val::Fixed(Rate(*rng.pick(&[0.0, 0.5, 1.0, 2.0, 1.3]))), gen_tween(&mut rng)),
				// (targets from a pool: a panning change that ends exactly at the centre occurs)
				_ => SoundCmd::SetPanning(
					Val::Fixed(Pan({
						let r = rng.frange(-1.0, 1.0) as f32;
						*rng.pick(&[0.0f32, 0.0, -1.0, 1.0, r, r])
					})),
					gen_tween(&mut rng),
				),
			};
			cmds.push((at, cmd));
		}
		cmds.sort_by_key(|c| c.0);
	}
	// (long runs: half of them are stopped early with a fade that outlasts everything the
	// streaming sound had buffered when the stop was issued - the decoder must keep feeding it)
	if long && !long_edge && rng.chance(0.5) {
		let fade_frames = rng.urange(17_000, 30_000);
		cmds.push((
			rng.urange(1, 4).min(chunks.len() - 1),
			SoundCmd::Stop(TweenSpec {
				start: StartSpec::Immediate,
				dur: fade_frames as f64 / (sample_rate as f64 * rate.max(0.5)),
				easing: EasingSpec::Linear,
			}),
		));
		while total < fade_frames + 4 * long_chunk {
			chunks.push(long_chunk);
			total += long_chunk;
		}
	}
	Case {
		seed,
		decoder,
		slice,
		settings,
		device_rate,
		chunks,
		cmds,
	}
}

pub fn run_case(case: &Case) -> CaseResult {
	let mut res = CaseResult::default();
	let mut trace = Hasher64::new();
	let mut beh = Hasher64::new();
	let sim = Sim::new(case.seed);
	let r = NoResolver;
	let st = static_data(&case.decoder.data, case.slice, &case.settings, &r);
	let st_built = monitor::catch(move || st.into_sound());
	let (sd, probe) = streaming_data(&case.decoder, case.slice, &case.settings, &r);
	let sd_built = monitor::catch(move || sd.into_sound());
	let (mut s_sound, mut s_handle, mut d_sound, mut d_handle) = match (st_built, sd_built) {
		(Ok(Ok((a, b))), Ok(Ok((c, d)))) => (a, b, c, d),
		_ => {
			// construction panicked / failed on the caller's thread for one of them
			res.hit("construction_failed");
			res.trace_hash = trace.finish();
			sim.shutdown();
			return res;
		}
	};
	let decoder_task = sim.live_tasks(Role::Decoder);
	let info = MockInfoBuilder::new().build();
	let dt = 1.0 / case.device_rate as f64;
	let max_chunk = case.chunks.iter().copied().max().unwrap_or(1);
	let mut a = vec![Frame::ZERO; max_chunk];
	let mut b = vec![Frame::ZERO; max_chunk];
	let mut cmd_iter = case.cmds.iter().peekable();
	let mut nonsilent = 0u64;
	let mut frames_out = 0u64;
	let mut ended = false;
	let mut ring_full_seen = false;
	'chunks: for (ci, chunk) in case.chunks.iter().enumerate() {
		while let Some((at, cmd)) = cmd_iter.peek() {
			if *at > ci {
				break;
			}
			macro_rules! both {
				($h:ident => $e:expr) => {{
					{
						let $h = &mut s_handle;
						$e;
					}
					{
						let $h = &mut d_handle;
						$e;
					}
				}};
			}
			match cmd {
				SoundCmd::Pause(t) => both!(h => h.pause(t.k(&r))),
				SoundCmd::Resume(t) => both!(h => h.resume(t.k(&r))),
				SoundCmd::ResumeAt(s, t) => both!(h => h.resume_at(s.k(&r), t.k(&r))),
				SoundCmd::Stop(t) => both!(h => h.stop(t.k(&r))),
				SoundCmd::SetVolume(v, t) => both!(h => h.set_volume(v.k(&r), t.k(&r))),
				SoundCmd::SetRate(v, t) => both!(h => h.set_playback_rate(v.k(&r), t.k(&r))),
				SoundCmd::SetPanning(v, t) => both!(h => h.set_panning(v.k(&r), t.k(&r))),
				_ => {}
			}
			res.hit("commands");
			cmd_iter.next();
		}
		// the decoder keeps ahead: run it until its ring is full, it has nothing to do or ends
		for id in &decoder_task {
			match sim.step(*id, 40_000) {
				StepEnd::Slept => ring_full_seen = true,
				StepEnd::Done => {}
				StepEnd::Limit => {}
			}
		}
		let out_a = &mut a[..*chunk];
		let out_b = &mut b[..*chunk];
		out_a.fill(Frame::ZERO);
		out_b.fill(Frame::ZERO);
		let ra = monitor::catch(|| {
			s_sound.on_start_processing();
			s_sound.process(out_a, dt, &info);
		});
		let rb = monitor::catch(|| {
			d_sound.on_start_processing();
			d_sound.process(out_b, dt, &info);
		});
		if let Err(p) = &rb {
			res.fail(Violation::new("panic", format!("panic: {}", monitor::panic_signature(p)), format!("streaming sound panicked at chunk {ci}: {p}")));
			break;
		}
		if let Err(p) = &ra {
			res.fail(Violation::new("panic", format!("panic: {}", monitor::panic_signature(p)), format!("static sound panicked at chunk {ci}: {p}")));
			break;
		}
		for k in 0..*chunk {
			let (x, y) = (out_a[k], out_b[k]);
			trace.f32(y.left);
			trace.f32(y.right);
			frames_out += 1;
			if x.left != 0.0 || x.right != 0.0 {
				nonsilent += 1;
			}
			if x.left.to_bits() != y.left.to_bits() || x.right.to_bits() != y.right.to_bits() {
				// -0.0 vs 0.0 is not an audible difference
				if !(x.left == y.left && x.right == y.right) {
					res.fail(Violation::new(
						"static-vs-streaming",
						"output-differs",
						format!("chunk {ci} frame {k} (output frame {}): static ({}, {}) vs streaming ({}, {})", frames_out - 1, x.left, x.right, y.left, y.right),
					));
					break 'chunks;
				}
			}
		}
		let (sa, sb) = (s_handle.state(), d_handle.state());
		trace.u64(sa as u64);
		trace.u64(sb as u64);
		beh.u64(sa as u64);
		if sa != sb {
			res.fail(Violation::new(
				"static-vs-streaming",
				"state-differs",
				format!("after chunk {ci}: static reports {sa:?}, streaming reports {sb:?}"),
			));
			break;
		}
		if sa == PlaybackState::Stopped {
			ended = true;
		}
		if !ended {
			let sr = case.decoder.data.sample_rate as f64;
			let (pa, pb) = (s_handle.position() * sr, d_handle.position() * sr);
			// positions are published at the start of a callback: compare what both
			// published for the same callback
			// once the last frame has been heard the sound has ended as far as positions
			// are concerned (the state follows two source frames later)
			let n = case.slice.map(|(a, b)| b - a).unwrap_or(case.decoder.data.len) as f64;
			let at_tail = pa >= n - 1.0 || pb >= n - 1.0;
			if !at_tail && !((pa - pb).abs() <= 1.0 + 1e-6) {
				res.fail(Violation::new(
					"static-vs-streaming",
					"position-differs",
					format!("after chunk {ci}: static position {pa:.3} frames, streaming {pb:.3} frames"),
				));
				break;
			}
		}
	}
	if let Some(e) = d_handle.pop_error() {
		res.fail(Violation::new("static-vs-streaming", "unexpected-decoder-error", format!("fault-free decoder reported {e:?}")));
	}
	for (role, name, msg) in sim.take_panics() {
		res.fail(Violation::new("panic", format!("task-panic: {}", monitor::panic_signature(&msg)), format!("{role:?} task {name} panicked: {msg}")));
	}
	if ended {
		res.hit("cases_reaching_stopped");
	}
	if ring_full_seen {
		res.hit("cases_with_full_ring");
	}
	if case.settings.loop_region.is_some() {
		res.hit("cases_with_loop");
	}
	res.count("decoder_decode_calls", probe.decode_calls.load(std::sync::atomic::Ordering::SeqCst));
	res.count("decoder_seek_calls", probe.seek_calls.load(std::sync::atomic::Ordering::SeqCst));
	beh.u64(ended as u64);
	beh.u64(case.settings.loop_region.is_some() as u64);
	beh.u64(case.decoder.seek_gran.min(4) as u64);
	beh.u64((case.settings.rate.fixed().map(|r| r.0).unwrap_or(1.0) * 8.0) as u64);
	res.frames = frames_out;
	res.callbacks = case.chunks.len() as u64;
	res.sim_seconds = frames_out as f64 * dt;
	res.nontrivial = nonsilent > 0;
	drop(s_sound);
	drop(d_sound);
	drop(d_handle);
	sim.shutdown();
	res.behaviour_sig = beh.finish();
	res.trace_hash = trace.finish();
	res
}

pub struct C09;

impl Check for C09 {
	fn info(&self) -> CheckInfo {
		CheckInfo {
			id: "C09",
			level: "exploration",
			rule: "each case = audio content + length (0..3000; 3% long runs of 17 000..45 000 frames or a short loop played that long, so that the streaming ring buffer's 16384 slots wrap; a third of those end exactly where the push that fills the ring is the last frame, half of the rest are stopped with a fade longer than the ring holds), slice, start position, loop region, rate >= 0 (incl. 0), volume / panning, fade-in, a command history (pause / resume / resume_at / stop / set_volume / set_playback_rate / set_panning with tweens, no seeks), decoder packet-size cycle (0..1000, variable) and seek granularity (1..1000), device rate and chunk-size sequence (now and then an empty slice); the static and the streaming implementation run side by side; non-trivial = non-silent output; distinct = hash of (state after each chunk, ended, loop, seek granularity class, rate class)",
			assumptions: vec![
				"both sounds are driven directly through the public Sound trait (on_start_processing + process) with an empty MockInfo".into(),
				"'decoder keeps ahead' = the gated decoder task is run until it sleeps on a full ring or ends before every callback; chunks are at most 200 frames at rate <= 3, far below the 16384-frame ring".into(),
			],
			components: vec![
				("StaticSound, StreamingSound, PlaybackStateManager, Parameter, Transport", "real"),
				("DecodeScheduler loop on its own thread", "real, gated by the simulator"),
				("Decoder", "stub (scripted: packet sizes, seek granularity)"),
			],
		}
	}
	fn num_cases(&self, tier: Tier) -> u64 {
		match tier {
			Tier::Quick => 60_000,
			Tier::Thorough => 1_200_000,
		}
	}
	fn case(&self, tier: Tier, seed: u64, index: u64) -> Value {
		serde_json::to_value(gen_case(derive_seed(seed, 9, index), tier)).unwrap()
	}
	fn run(&self, case: &Value) -> CaseResult {
		let case: Case = serde_json::from_value(case.clone()).expect("malformed C09 case");
		run_case(&case)
	}
	fn shrink(&self, case: &Value) -> Vec<Value> {
		let mut out = shrink_ops_array(case, "cmds");
		out.extend(shrink_ops_array(case, "chunks"));
		let c: Case = serde_json::from_value(case.clone()).unwrap();
		let mut push = |c2: Case| out.push(serde_json::to_value(c2).unwrap());
		if c.slice.is_some() {
			push(Case { slice: None, ..c.clone() });
		}
		if c.settings.loop_region.is_some() {
			let mut s = c.settings.clone();
			s.loop_region = None;
			push(Case { settings: s, ..c.clone() });
		}
		if c.settings.fade_in.is_some() {
			let mut s = c.settings.clone();
			s.fade_in = None;
			push(Case { settings: s, ..c.clone() });
		}
		if c.settings.rate != Val::Fixed(Rate(1.0)) {
			let mut s = c.settings.clone();
			s.rate = Val::Fixed(Rate(1.0));
			push(Case { settings: s, ..c.clone() });
		}
		if c.decoder.data.len > 8 {
			let mut d = c.decoder.clone();
			d.data.len /= 2;
			push(Case { decoder: d, slice: None, ..c.clone() });
		}
		if c.decoder.packets != vec![64] {
			let mut d = c.decoder.clone();
			d.packets = vec![64];
			push(Case { decoder: d, ..c.clone() });
		}
		if c.decoder.seek_gran != 1 {
			let mut d = c.decoder.clone();
			d.seek_gran = 1;
			push(Case { decoder: d, ..c.clone() });
		}
		out
	}
}
