//! C05 - clocks keep exact audio time; clock-scheduled events fire in the right buffer.
//!
//! Stream "ops": clocks, clock commands, speed tweens (also scheduled on other
//! clocks) and clock-scheduled events (sound start, resume, tween start) are run
//! through the real manager on the simulated device next to a reference clock
//! that accumulates speed x dt once per internal chunk; scheduled events must
//! begin inside the chunk during which the reference clock reaches their time.
//!
//! Stream "sched": an audio task, a reader task calling `ClockHandle::time()`
//! and a gameplay task are interleaved at the yield points inside the shared
//! clock state by the seeded gate scheduler; every value read must be one the
//! clock had (regular-register semantics) and reads must not go backwards.

use std::sync::{Arc, Mutex};

use kira::sound::PlaybackState;
use serde::{Deserialize, Serialize};
use serde_json::Value as Json;

use crate::{
	core::*,
	known,
	monitor::{self, panic_signature, Role},
	rng::{derive_seed, Hasher64, Rng},
	sched::Sim,
	spec::*,
	world::*,
};

#[derive(Clone, Copy, Debug, Serialize, Deserialize, PartialEq)]
pub enum SStart {
	Immediate,
	Delayed(f64),
	Clock { clock: usize, ticks: u64, fraction: f64 },
}

#[derive(Clone, Copy, Debug, Serialize, Deserialize, PartialEq)]
pub enum COp {
	AddClock { tps: f64 },
	Start(usize),
	Pause(usize),
	Stop(usize),
	SetSpeed { clock: usize, tps: f64, start: SStart, dur: f64, easing: EasingSpec },
	DropClock(usize),
	/// a DC sound on the main track that starts at a clock time
	PlayAt { clock: usize, ticks: u64, fraction: f64 },
	/// pause sound `sound` now (no fade) and resume it at a clock time (no fade)
	PauseResumeAt { sound: usize, clock: usize, ticks: u64, fraction: f64 },
	Callback { frames: usize },
}

#[derive(Clone, Debug, Serialize, Deserialize)]
pub struct Case {
	pub seed: u64,
	pub sample_rate: u32,
	pub ibs: usize,
	pub ops: Vec<COp>,
	/// present for the schedule-exploration stream
	pub sched: Option<SchedCase>,
	/// second schedule-exploration stream: clock, then a sound scheduled on it (c05_sched2.rs)
	#[serde(default)]
	pub sched2: Option<super::c05_sched2::Sched2Case>,
}

#[derive(Clone, Debug, Serialize, Deserialize)]
pub struct SchedCase {
	pub tps: f64,
	pub callbacks: Vec<usize>,
	pub reads: usize,
	pub switch_prob: f64,
	/// recorded schedule (replay / witness); None = draw from the seed
	pub schedule: Option<Vec<u8>>,
}

fn gen_ops_case(seed: u64, tier: Tier) -> Case {
	let mut rng = Rng::new(seed);
	let sample_rate = *rng.pick(&[8000u32, 44_100, 48_000]);
	let ibs = *rng.pick(&[1usize, 7, 64, 128, 500]);
	let n_ops = rng.urange(8, if tier == Tier::Quick { 45 } else { 120 });
	let own_ok = !known::is_open("C05-own-clock-tween");
	let mut ops = vec![];
	let mut n_clocks = 0usize;
	let mut n_sounds = 0usize;
	let unit = ibs as f64 / sample_rate as f64;
	while ops.len() < n_ops {
		let k = rng.weighted(&[if n_clocks < 4 { 6 } else { 0 }, 8, 3, 2, 6, 1, 7, 3, 24]);
		let op = match k {
			0 => {
				n_clocks += 1;
				// ticks per second chosen so that several ticks happen within a run
				COp::AddClock {
					tps: *rng.pick(&[1.0, 0.5, 3.3, 10.0]) / unit / *rng.pick(&[1.0, 4.0, 16.0]),
				}
			}
			1 if n_clocks > 0 => COp::Start(rng.usize_below(n_clocks)),
			2 if n_clocks > 0 => COp::Pause(rng.usize_below(n_clocks)),
			3 if n_clocks > 0 => COp::Stop(rng.usize_below(n_clocks)),
			4 if n_clocks > 0 => {
				let clock = rng.usize_below(n_clocks);
				let start = match rng.below(5) {
					0 | 1 => SStart::Immediate,
					2 => SStart::Delayed(rng.frange(0.0, 6.0 * unit)),
					_ => {
						let mut other = rng.usize_below(n_clocks);
						if other == clock && !own_ok {
							other = (clock + 1) % n_clocks;
						}
						if other == clock && !own_ok {
							continue;
						}
						SStart::Clock {
							clock: other,
							ticks: rng.below(5),
							fraction: if rng.chance(0.5) { 0.0 } else { rng.f64() },
						}
					}
				};
				COp::SetSpeed {
					clock,
					tps: *rng.pick(&[1.0, 0.5, 3.3, 10.0, 0.0]) / unit / *rng.pick(&[1.0, 4.0]),
					start,
					dur: *rng.pick(&[0.0, 0.3 * unit, 5.0 * unit, 20.0 * unit]),
					easing: EasingSpec::gen(&mut rng),
				}
			}
			5 if n_clocks > 0 => COp::DropClock(rng.usize_below(n_clocks)),
			6 if n_clocks > 0 && n_sounds < 8 => {
				n_sounds += 1;
				COp::PlayAt {
					clock: rng.usize_below(n_clocks),
					ticks: rng.below(6),
					fraction: if rng.chance(0.5) { 0.0 } else { rng.f64() },
				}
			}
			7 if n_clocks > 0 && n_sounds > 0 => COp::PauseResumeAt {
				sound: rng.usize_below(n_sounds),
				clock: rng.usize_below(n_clocks),
				ticks: rng.below(8),
				fraction: if rng.chance(0.5) { 0.0 } else { rng.f64() },
			},
			8 => COp::Callback {
				frames: match rng.below(4) {
					0 => ibs,
					1 => 1,
					2 => ibs * 2 + 1,
					_ => rng.urange(1, 3 * ibs + 2),
				},
			},
			_ => continue,
		};
		ops.push(op);
	}
	for _ in 0..3 {
		ops.push(COp::Callback { frames: ibs });
	}
	Case {
		seed,
		sample_rate,
		ibs,
		ops,
		sched: None,
		sched2: None,
	}
}

// ---------------------------------------------------------------------------
// reference clock
// ---------------------------------------------------------------------------

#[derive(Clone, Debug)]
struct RefTween {
	from: f64,
	to: f64,
	dur: f64,
	easing: EasingSpec,
	time: f64,
	start: RStart,
}

#[derive(Clone, Debug)]
enum RStart {
	Immediate,
	Delayed(std::time::Duration),
	Clock { clock: usize, ticks: u64, fraction: f64 },
}

#[derive(Clone, Debug)]
struct RefClock {
	first_cb: u64,
	drop_gap: Option<u64>,
	ticking: bool,
	state: Option<(u64, f64)>,
	speed: f64,
	tween: Option<RefTween>,
	// commands waiting for the next on_start_processing
	pending_ticking: Option<bool>,
	pending_reset: bool,
	pending_speed: Option<RefTween>,
	/// value the handle should report (published at on_start_processing)
	published: (u64, f64),
	published_ticking: bool,
}

impl RefClock {
	fn present(&self, cb: u64) -> bool {
		cb >= self.first_cb
			&& match self.drop_gap {
				None => true,
				Some(d) => cb < d.max(self.first_cb + 1),
			}
	}
	fn time(&self) -> f64 {
		self.state.map(|(t, f)| t as f64 + f).unwrap_or(0.0)
	}
}

struct Ev {
	sound: usize,
	clock: usize,
	target: f64,
	/// first callback at which the sound (or the resume command) is seen by the audio thread
	first_cb: u64,
	done: bool,
	cancelled: bool,
	kind: u8, // 0 = start, 1 = resume
}

pub fn run_ops_case(case: &Case) -> CaseResult {
	let mut res = CaseResult::default();
	let mut trace = Hasher64::new();
	let mut beh = Hasher64::new();
	let cfg = WorldConfig {
		sample_rate: case.sample_rate,
		internal_buffer_size: case.ibs,
		caps: CapsSpec {
			clocks: 4,
			..Default::default()
		},
		..Default::default()
	};
	let Ok(mut world) = World::new(&cfg, None) else {
		res.hit("setup_panicked");
		return res;
	};
	let sr = case.sample_rate;
	let dt = 1.0 / sr as f64;
	let mut clocks: Vec<RefClock> = vec![];
	let mut events: Vec<Ev> = vec![];
	let mut sound_active: Vec<bool> = vec![]; // audible according to the reference
	let mut cb: u64 = 0;
	let amp_of = |k: usize| -> f32 { 1.0 / (1u32 << (k + 2)) as f32 };
	let mut nonsilent = false;
	let mut starts_checked = 0u64;

	'ops: for (oi, op) in case.ops.iter().enumerate() {
		match op {
			COp::AddClock { tps } => {
				let o = world.exec(&Op::AddClock {
					speed: Val::Fixed(Speed::TicksPerSecond(*tps)),
				});
				if o.created {
					clocks.push(RefClock {
						first_cb: cb,
						drop_gap: None,
						ticking: false,
						state: None,
						speed: *tps,
						tween: None,
						pending_ticking: None,
						pending_reset: false,
						pending_speed: None,
						published: (0, 0.0),
						published_ticking: false,
					});
				}
			}
			COp::Start(c) | COp::Pause(c) | COp::Stop(c) => {
				if clocks.is_empty() {
					continue;
				}
				let c = *c % clocks.len();
				if clocks[c].drop_gap.is_some() {
					continue;
				}
				let cmd = match op {
					COp::Start(_) => ClockCmd::Start,
					COp::Pause(_) => ClockCmd::Pause,
					_ => ClockCmd::Stop,
				};
				world.exec(&Op::Clock { clock: c, cmd });
				match op {
					COp::Start(_) => clocks[c].pending_ticking = Some(true),
					COp::Pause(_) => clocks[c].pending_ticking = Some(false),
					_ => {
						clocks[c].pending_ticking = Some(false);
						clocks[c].pending_reset = true;
						// stop() publishes zero at once
						clocks[c].published = (0, 0.0);
					}
				}
			}
			COp::SetSpeed { clock, tps, start, dur, easing } => {
				if clocks.is_empty() {
					continue;
				}
				let c = *clock % clocks.len();
				if clocks[c].drop_gap.is_some() {
					continue;
				}
				let start_spec = match start {
					SStart::Immediate => StartSpec::Immediate,
					SStart::Delayed(d) => StartSpec::Delayed(*d),
					SStart::Clock { clock, ticks, fraction } => StartSpec::Clock {
						clock: *clock % clocks.len(),
						ticks: *ticks,
						fraction: *fraction,
					},
				};
				world.exec(&Op::Clock {
					clock: c,
					cmd: ClockCmd::SetSpeed(
						Val::Fixed(Speed::TicksPerSecond(*tps)),
						TweenSpec {
							start: start_spec,
							dur: *dur,
							easing: *easing,
						},
					),
				});
				clocks[c].pending_speed = Some(RefTween {
					from: 0.0,
					to: *tps,
					dur: std::time::Duration::from_secs_f64(*dur).as_secs_f64(),
					easing: *easing,
					time: 0.0,
					start: match start {
						SStart::Immediate => RStart::Immediate,
						SStart::Delayed(d) => RStart::Delayed(std::time::Duration::from_secs_f64(*d)),
						SStart::Clock { clock, ticks, fraction } => RStart::Clock {
							clock: *clock % clocks.len(),
							ticks: *ticks,
							fraction: *fraction,
						},
					},
				});
			}
			COp::DropClock(c) => {
				if clocks.is_empty() {
					continue;
				}
				let c = *c % clocks.len();
				if clocks[c].drop_gap.is_none() {
					world.exec(&Op::Drop { kind: Kind::Clock, index: c });
					clocks[c].drop_gap = Some(cb);
				}
			}
			COp::PlayAt { clock, ticks, fraction } => {
				if clocks.is_empty() {
					continue;
				}
				let c = *clock % clocks.len();
				let k = sound_active.len();
				if k >= 8 {
					continue;
				}
				let o = world.exec(&Op::PlayStatic {
					track: None,
					data: DataSpec {
						len: 4,
						sample_rate: sr,
						signal: Signal::Dc(amp_of(k)),
					},
					slice: None,
					settings: SoundSettingsSpec {
						start: StartSpec::Clock {
							clock: c,
							ticks: *ticks,
							fraction: *fraction,
						},
						loop_region: Some(RegionSpec {
							start: Pos::Samples(0),
							end: None,
						}),
						..Default::default()
					},
				});
				if o.created {
					sound_active.push(false);
					events.push(Ev {
						sound: k,
						clock: c,
						target: *ticks as f64 + *fraction,
						first_cb: cb,
						done: false,
						cancelled: false,
						kind: 0,
					});
				}
			}
			COp::PauseResumeAt { sound, clock, ticks, fraction } => {
				if clocks.is_empty() || sound_active.is_empty() {
					continue;
				}
				let k = *sound % sound_active.len();
				let c = *clock % clocks.len();
				// only for sounds that are playing and have no other event pending
				if !sound_active[k] || events.iter().any(|e| e.sound == k && !e.done && !e.cancelled) {
					continue;
				}
				world.exec(&Op::Sound {
					sound: k,
					cmd: SoundCmd::ResumeAt(
						StartSpec::Clock {
							clock: c,
							ticks: *ticks,
							fraction: *fraction,
						},
						TweenSpec::INSTANT,
					),
				});
				// resume_at on a playing sound puts it into WaitingToResume: silent until the clock time
				sound_active[k] = false;
				events.push(Ev {
					sound: k,
					clock: c,
					target: *ticks as f64 + *fraction,
					first_cb: cb,
					done: false,
					cancelled: false,
					kind: 1,
				});
			}
			COp::Callback { frames } => {
				let frames = *frames;
				let rep = world.callback(frames, 2);
				if let Some(p) = rep.panic {
					res.fail(Violation::new("panic", format!("audio-panic: {}", panic_signature(&p)), format!("op {oi}: {p}")));
					break 'ops;
				}
				// ---- reference: on_start_processing ------------------------------
				for c in clocks.iter_mut() {
					if !c.present(cb) {
						continue;
					}
					if let Some(mut t) = c.pending_speed.take() {
						t.from = c.speed;
						c.tween = Some(t);
					}
					if let Some(t) = c.pending_ticking.take() {
						c.ticking = t;
					}
					if c.pending_reset {
						c.pending_reset = false;
						c.state = None;
					}
					c.published = c.state.unwrap_or((0, 0.0));
					c.published_ticking = c.ticking;
				}
				// ---- reference: per internal chunk --------------------------------
				let mut offset = 0usize;
				while offset < frames {
					let n = (frames - offset).min(case.ibs);
					let cdt = dt * n as f64;
					for ci in 0..clocks.len() {
						if !clocks[ci].present(cb) {
							continue;
						}
						// speed parameter
						if let Some(mut t) = clocks[ci].tween.take() {
							let started = match &mut t.start {
								RStart::Immediate => true,
								RStart::Delayed(left) => {
									if left.is_zero() {
										true
									} else {
										*left = left.saturating_sub(std::time::Duration::from_secs_f64(cdt));
										false
									}
								}
								RStart::Clock { clock, ticks, fraction } => {
									// (a clock's own time is as good a start time as any other clock's)
									let o = &clocks[*clock];
									o.present(cb) && o.ticking && {
										let (t0, f0) = o.state.unwrap_or((0, 0.0));
										t0 > *ticks || (t0 == *ticks && f0 >= *fraction)
									}
								}
							};
							if started {
								t.start = RStart::Immediate;
								t.time += cdt;
								if t.time >= t.dur {
									clocks[ci].speed = t.to;
								} else {
									clocks[ci].speed = t.from + (t.to - t.from) * t.easing.apply(t.time / t.dur);
									clocks[ci].tween = Some(t);
								}
							} else {
								clocks[ci].tween = Some(t);
							}
						}
						let c = &mut clocks[ci];
						if c.ticking {
							let (mut ticks, mut frac) = c.state.unwrap_or((0, 0.0));
							frac += c.speed * cdt;
							while frac >= 1.0 {
								frac -= 1.0;
								ticks += 1;
							}
							c.state = Some((ticks, frac));
						}
					}
					// scheduled events: begin in the chunk during which the clock reaches the time
					for e in events.iter_mut() {
						if e.done || e.cancelled || cb < e.first_cb {
							continue;
						}
						let c = &clocks[e.clock];
						if !c.present(cb) {
							e.cancelled = true;
							continue;
						}
						let reached_strict = c.ticking && c.time() >= e.target + 1e-7;
						let reached_loose = c.ticking && c.time() >= e.target - 1e-7;
						// what the device rendered in this chunk for this sound
						let a = amp_of(e.sound);
						let mut first_on = None;
						for i in 0..n {
							let s = world.out[2 * (offset + i)];
							// decode: is bit (sound) set in the sum of distinct powers of two?
							let q = (s / a).floor() as u64;
							if q % 2 == 1 {
								first_on = Some(i);
								break;
							}
						}
						if first_on.is_some() && !reached_loose {
							res.fail(Violation::new(
								"schedule-window",
								"event-early",
								format!(
									"op {oi} (callback {cb}) chunk at frame {offset}: sound {} ({}) is audible although clock {} is at {:.9} (ticking {}) and the target is {:.9}",
									e.sound,
									if e.kind == 0 { "start" } else { "resume" },
									e.clock,
									c.time(),
									c.ticking,
									e.target
								),
							));
							break 'ops;
						}
						if reached_strict {
							// must have begun inside this chunk (anywhere in it) and stay on
							let on_at_end = {
								let s = world.out[2 * (offset + n - 1)];
								((s / a).floor() as u64) % 2 == 1
							};
							if first_on.is_none() || !on_at_end {
								res.fail(Violation::new(
									"schedule-window",
									"event-late",
									format!(
										"op {oi} (callback {cb}) chunk at frame {offset}..{}: clock {} reached {:.9} >= target {:.9} during this buffer but sound {} ({}) did not begin in it",
										offset + n,
										e.clock,
										c.time(),
										e.target,
										e.sound,
										if e.kind == 0 { "start" } else { "resume" }
									),
								));
								break 'ops;
							}
							e.done = true;
							sound_active[e.sound] = true;
							starts_checked += 1;
						} else if first_on.is_some() {
							// within the numerical tie window: accept
							e.done = true;
							sound_active[e.sound] = true;
						}
					}
					// sounds without a pending event are audible iff the reference says so
					for (k, active) in sound_active.iter().enumerate() {
						if events.iter().any(|e| e.sound == k && !e.done) {
							continue;
						}
						let a = amp_of(k);
						for i in 0..n {
							let s = world.out[2 * (offset + i)];
							let on = ((s / a).floor() as u64) % 2 == 1;
							if on != *active {
								res.fail(Violation::new(
									"schedule-window",
									"unexpected-audibility",
									format!("op {oi} (callback {cb}) frame {}: sound {k} audible = {on}, reference says {}", offset + i, active),
								));
								break 'ops;
							}
						}
					}
					offset += n;
				}
				for s in &world.out {
					trace.f32(*s);
					if *s != 0.0 {
						nonsilent = true;
					}
				}
				// ---- clock time read from the handles --------------------------------
				for (ci, c) in clocks.iter().enumerate() {
					let Some(h) = world.clocks[ci].handle.as_ref() else { continue };
					if !c.present(cb) {
						continue;
					}
					let t = h.time();
					let got = t.ticks as f64 + t.fraction;
					let want = c.published.0 as f64 + c.published.1;
					trace.f64(got);
					if !((got - want).abs() <= 1e-9 * (1.0 + want.abs())) || !(0.0..1.0).contains(&t.fraction) {
						res.fail(Violation::new(
							"reference-clock",
							"clock-time-wrong",
							format!("op {oi} (callback {cb}): clock {ci} reports {} + {:.12}, the reference clock is at {} + {:.12}", t.ticks, t.fraction, c.published.0, c.published.1),
						));
						break 'ops;
					}
					if h.ticking() != c.published_ticking {
						res.fail(Violation::new("reference-clock", "ticking-flag-wrong", format!("op {oi}: clock {ci} reports ticking = {}, reference {}", h.ticking(), c.published_ticking)));
						break 'ops;
					}
					res.hit("clock_reads_compared");
				}
				// ---- cancelled events: the sound must become Stopped ---------------------
				for e in events.iter_mut() {
					if e.cancelled && !e.done {
						// two callbacks of grace
						let removed_at = clocks[e.clock].drop_gap.map(|d| d.max(clocks[e.clock].first_cb + 1)).unwrap_or(0);
						if cb >= removed_at.max(e.first_cb) + 2 {
							let st = world.sounds[e.sound].handle.as_ref().map(|h| h.state());
							if st != Some(PlaybackState::Stopped) {
								res.fail(Violation::new(
									"schedule-window",
									"waiting-on-missing-clock-not-stopped",
									format!("op {oi} (callback {cb}): sound {} waits for clock {} which no longer exists, but reports {:?}", e.sound, e.clock, st),
								));
								break 'ops;
							}
							e.done = true;
							res.hit("cancelled_events_checked");
						}
					}
				}
				beh.u64(clocks.iter().filter(|c| c.present(cb) && c.ticking).count() as u64);
				beh.u64(events.iter().filter(|e| e.done).count() as u64);
				cb += 1;
			}
		}
	}
	res.count("scheduled_events_checked", starts_checked);
	res.frames = world.frames_rendered;
	res.callbacks = world.callbacks;
	res.sim_seconds = world.sim_seconds;
	res.nontrivial = nonsilent || clocks.iter().any(|c| c.state.map(|s| s.0 > 0).unwrap_or(false));
	res.behaviour_sig = beh.finish();
	res.trace_hash = trace.finish();
	res
}

// ---------------------------------------------------------------------------
// schedule exploration: reader vs audio thread vs stop()
// ---------------------------------------------------------------------------

#[derive(Clone, Debug)]
enum Event {
	OspBegin(u64, usize),
	OspEnd(u64, usize),
	Read { inv: u64, ret: u64, ticks: u64, fraction: f64 },
}

fn gen_sched_case(seed: u64, _tier: Tier) -> Case {
	let mut rng = Rng::new(seed);
	let sample_rate = 1000u32;
	let ibs = *rng.pick(&[4usize, 16, 64]);
	let n_cb = rng.urange(3, 8);
	Case {
		seed,
		sample_rate,
		ibs,
		ops: vec![],
		sched: Some(SchedCase {
			tps: *rng.pick(&[37.3, 111.7, 13.9, 250.3]),
			callbacks: (0..n_cb).map(|_| rng.urange(1, 40)).collect(),
			reads: rng.urange(4, 14),
			switch_prob: *rng.pick(&[0.04, 0.15, 0.4, 0.8]),
			schedule: None,
		}),
		sched2: None,
	}
}

pub fn run_sched_case(case: &Case) -> CaseResult {
	let sc = case.sched.as_ref().unwrap();
	let mut res = CaseResult::default();
	let sim = Sim::new(case.seed);
	sim.set_random_params(sc.switch_prob, 0.05, 20_000);
	if let Some(s) = &sc.schedule {
		sim.set_replay_schedule(s.clone());
	}
	let cfg = WorldConfig {
		sample_rate: case.sample_rate,
		internal_buffer_size: case.ibs,
		..Default::default()
	};
	let Ok(mut world) = World::new(&cfg, Some(sim.clone())) else {
		sim.shutdown();
		return res;
	};
	world.exec(&Op::AddClock {
		speed: Val::Fixed(Speed::TicksPerSecond(sc.tps)),
	});
	world.exec(&Op::Clock {
		clock: 0,
		cmd: ClockCmd::Start,
	});
	// one callback before the race so that the clock is owned by the audio thread and started
	let first = world.callback(case.ibs, 2);
	if first.panic.is_some() {
		sim.shutdown();
		return res;
	}
	let history: Arc<Mutex<Vec<Event>>> = Arc::new(Mutex::new(Vec::new()));
	let device = world.device.clone();
	let handle = world.clocks[0].handle.take().unwrap();
	// reference publications, replicating the documented accumulation
	let dt = 1.0 / case.sample_rate as f64;
	let mut pubs: Vec<(u64, f64)> = vec![];
	{
		let (mut ticks, mut frac) = (0u64, 0.0f64);
		let mut advance = |frames: usize, ticks: &mut u64, frac: &mut f64| {
			let mut left = frames;
			while left > 0 {
				let n = left.min(case.ibs);
				*frac += sc.tps * (dt * n as f64);
				while *frac >= 1.0 {
					*frac -= 1.0;
					*ticks += 1;
				}
				left -= n;
			}
		};
		advance(case.ibs, &mut ticks, &mut frac);
		for f in &sc.callbacks {
			pubs.push((ticks, frac)); // published at the start of this callback
			advance(*f, &mut ticks, &mut frac);
		}
	}
	// tasks
	{
		let h = history.clone();
		let sim2 = sim.clone();
		let cbs = sc.callbacks.clone();
		sim.spawn_task(
			"audio",
			Role::Audio,
			Box::new(move || {
				let mut out = Vec::new();
				for (k, f) in cbs.iter().enumerate() {
					h.lock().unwrap().push(Event::OspBegin(sim2.stamp(), k));
					let _ = device.on_start_processing();
					h.lock().unwrap().push(Event::OspEnd(sim2.stamp(), k));
					let _ = device.process_only(*f, 2, &mut out);
				}
			}),
		);
	}
	{
		let h = history.clone();
		let sim2 = sim.clone();
		let reads = sc.reads;
		sim.spawn_task(
			"reader",
			Role::Reader,
			Box::new(move || {
				for _ in 0..reads {
					let inv = sim2.stamp();
					let t = handle.time();
					let ret = sim2.stamp();
					h.lock().unwrap().push(Event::Read {
						inv,
						ret,
						ticks: t.ticks,
						fraction: t.fraction,
					});
					kira::verif::yield_point("reader.between_reads");
				}
			}),
		);
	}
	let stop_used = false;
	sim.run_random();
	let capped = sim.capped();
	let hist = history.lock().unwrap().clone();
	let mut trace = Hasher64::new();
	trace.u64(sim.trace_hash());
	let mut beh = Hasher64::new();
	beh.u64(sim.trace_hash());
	// ---- oracle ----------------------------------------------------------
	let mut osp_begin = vec![u64::MAX; sc.callbacks.len()];
	let mut osp_end = vec![u64::MAX; sc.callbacks.len()];
	for e in &hist {
		match e {
			Event::OspBegin(s, k) => osp_begin[*k] = *s,
			Event::OspEnd(s, k) => osp_end[*k] = *s,
			_ => {}
		}
	}
	// publication -1: the value published by the warm-up callback
	let initial = (0u64, 0.0f64);
	let word_only = known::is_open("C05-torn-clock-read");
	let mut last_read: Option<(u64, f64)> = None;
	let mut reads_checked = 0u64;
	let mut concurrent_reads = 0u64;
	for e in &hist {
		if let Event::Read { inv, ret, ticks, fraction } = e {
			trace.u64(*ticks);
			trace.f64(*fraction);
			// publications that may be visible: invoked before the read returned and not
			// superseded by one that completed before the read began
			let mut newest_completed: i64 = -1;
			for k in 0..sc.callbacks.len() {
				if osp_end[k] < *inv {
					newest_completed = k as i64;
				}
			}
			let mut candidates: Vec<(u64, f64)> = vec![];
			if newest_completed < 0 {
				candidates.push(initial);
			}
			for k in 0..sc.callbacks.len() {
				if osp_begin[k] <= *ret && (k as i64) >= newest_completed {
					candidates.push(pubs[k]);
				}
			}
			if candidates.len() > 1 {
				concurrent_reads += 1;
			}
			let pair_ok = candidates.iter().any(|c| c.0 == *ticks && c.1 == *fraction);
			let words_ok = candidates.iter().any(|c| c.0 == *ticks) && candidates.iter().any(|c| c.1 == *fraction);
			if !(pair_ok || (word_only && words_ok)) {
				res.fail(Violation::new(
					"regular-register",
					if words_ok { "torn-clock-read" } else { "clock-read-invented-value" },
					format!(
						"reader saw ({ticks}, {fraction:.12}) between stamps {inv} and {ret}; the clock had (and could show) only {:?}",
						candidates
					),
				));
				break;
			}
			if !word_only {
				if let Some(l) = last_read {
					if (*ticks, *fraction) < l && !stop_used {
						res.fail(Violation::new("regular-register", "clock-read-went-backwards", format!("successive reads {:?} then ({ticks}, {fraction})", l)));
						break;
					}
				}
			}
			last_read = Some((*ticks, *fraction));
			reads_checked += 1;
		}
	}
	res.count("reads_checked", reads_checked);
	res.count("reads_overlapping_a_publication", concurrent_reads);
	res.count("context_switches", sim.switches());
	if word_only {
		res.hit("runs_with_pair_check_relaxed_to_words(known finding open)");
	}
	res.inconclusive = capped;
	res.nontrivial = concurrent_reads > 0;
	res.callbacks = sc.callbacks.len() as u64;
	res.frames = sc.callbacks.iter().sum::<usize>() as u64;
	res.sim_seconds = res.frames as f64 * dt;
	for (role, name, msg) in sim.take_panics() {
		res.fail(Violation::new("panic", format!("task-panic: {}", panic_signature(&msg)), format!("{role:?} task {name}: {msg}")));
	}
	drop(world);
	sim.shutdown();
	res.behaviour_sig = beh.finish();
	res.trace_hash = trace.finish();
	res
}

pub struct C05;

impl Check for C05 {
	fn info(&self) -> CheckInfo {
		CheckInfo {
			id: "C05",
			level: "exploration",
			rule: "1/16 of the cases: a gameplay task adds a clock, starts it and plays a sound scheduled on it while an audio task runs callbacks under seeded random schedules - the sound must start, not be cancelled - or (40% of these) stops a running clock with stop() against the callbacks: three undisturbed callbacks later it is not ticking and reads zero; the others: stream ops (3/4 of the cases): seeded history over {add clock, start, pause, stop, set speed (immediate / delayed / on another clock's time, any easing and duration), drop clock, play a DC sound at a clock time, resume a sound at a clock time, callback of arbitrary size} at seeded internal buffer size and sample rate; stream sched (1/4): audio task (callbacks split into on_start_processing + process), reader task (ClockHandle::time() in a loop) under seeded random schedules at the yield points inside the shared clock state; non-trivial = a clock ticked or audio was rendered (ops) / at least one read overlapped a publication (sched); distinct = hash of per-callback (ticking clocks, fired events) (ops) / hash of the (task, site) yield trace (sched)",
			assumptions: vec![
				"the reference clock replicates the documented accumulation (speed x dt once per internal chunk, clocks updated in creation order before the mixer) in f64; tolerance 1e-9 ticks".into(),
				"a scheduled event may begin anywhere inside the internal buffer during which the reference clock reaches its time; a numerical tie window of 1e-7 ticks accepts the neighbouring buffer".into(),
				"sched stream: interleavings are sequentially consistent at the granularity of the yield points (each atomic access is one step)".into(),
			],
			components: vec![
				("Clock, ClockHandle, ClockShared, Clocks storage, Info::when_to_start, StartTime, Parameter<ClockSpeed>", "real"),
				("StaticSound (DC probe signal), MainTrack, Renderer", "real"),
				("audio device", "stub (SimBackend)"),
				("thread scheduler (sched stream)", "simulated (gate scheduler over real threads)"),
			],
		}
	}
	fn num_cases(&self, tier: Tier) -> u64 {
		match tier {
			Tier::Quick => 40_000,
			Tier::Thorough => 1_200_000,
		}
	}
	fn case(&self, tier: Tier, seed: u64, index: u64) -> Json {
		let s = derive_seed(seed, 5, index);
		let c = if index % 16 == 7 {
			let mut rng = Rng::new(s);
			Case {
				seed: s,
				sample_rate: 1000,
				ibs: 8,
				ops: vec![],
				sched: None,
				sched2: Some(super::c05_sched2::gen(&mut rng)),
			}
		} else if index % 4 == 3 {
			gen_sched_case(s, tier)
		} else {
			gen_ops_case(s, tier)
		};
		serde_json::to_value(c).unwrap()
	}
	fn run(&self, case: &Json) -> CaseResult {
		let case: Case = serde_json::from_value(case.clone()).expect("malformed C05 case");
		if let Some(s2) = &case.sched2 {
			super::c05_sched2::run(s2)
		} else if case.sched.is_some() {
			run_sched_case(&case)
		} else {
			run_ops_case(&case)
		}
	}
	fn shrink(&self, case: &Json) -> Vec<Json> {
		let c: Case = serde_json::from_value(case.clone()).unwrap();
		if let Some(sc) = &c.sched {
			let mut out = vec![];
			if sc.reads > 1 {
				let mut c2 = c.clone();
				c2.sched.as_mut().unwrap().reads = sc.reads / 2;
				out.push(serde_json::to_value(c2).unwrap());
			}
			if sc.callbacks.len() > 1 {
				let mut c2 = c.clone();
				c2.sched.as_mut().unwrap().callbacks.pop();
				out.push(serde_json::to_value(c2).unwrap());
			}
			return out;
		}
		shrink_ops_array(case, "ops")
	}
}
