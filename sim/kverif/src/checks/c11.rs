//! C11 - rendered audio does not depend on buffer sizes.
//!
//! Twin worlds: the same scene (fixed parameters, immediate starts, no commands
//! in flight) is built in three worlds that differ only in the internal buffer
//! size and in how the device partitions its callbacks; the rendered streams are
//! compared frame by frame - bit-for-bit without recursive effects, |d| <= 1e-6 + 1e-4 |x|
//! with them.

use serde::{Deserialize, Serialize};
use serde_json::Value;

use crate::{
	core::*,
	decoder::DecoderSpec,
	gen::{Tiers, G},
	monitor::panic_signature,
	rng::{derive_seed, Hasher64, Rng},
	sched::Sim,
	spec::*,
	world::*,
};

#[derive(Clone, Debug, Serialize, Deserialize)]
pub struct Case {
	pub seed: u64,
	pub cfg: WorldConfig,
	pub channels: u16,
	pub setup: Vec<Op>,
	/// (internal buffer size, callback sizes) per world; all sum to the same total
	pub worlds: Vec<(usize, Vec<usize>)>,
	/// overflow scene: one sound (+0.5, 0, -0.5, 0, ...) copied frame by frame under a main-track
	/// gain of +1000 dB, two channels: the sum described by the documentation is 5e49 or 0, so
	/// every sample is full scale with the source's sign, or silence
	#[serde(default)]
	pub overflow: bool,
}

/// A built-in effect at fixed parameters. The scene must be a *stable* system, or a rounding
/// difference of one ulp grows without bound and no tolerance means anything: corner frequencies stay
/// below 0.45 x `sample_rate`, and an effect nested in a delay's feedback loop (`depth` 1) never adds
/// gain (the loop gain stays below unity).
pub fn fixed_effect(g: &mut G, depth: usize, sample_rate: u32) -> EffectSpec {
	let rng = &mut *g.rng;
	let nested = depth > 0;
	let top = 0.45 * sample_rate as f64;
	match rng.below(8) {
		0 => EffectSpec::Filter {
			mode: *rng.pick(&[FilterModeS::LowPass, FilterModeS::BandPass, FilterModeS::HighPass, FilterModeS::Notch]),
			cutoff: Val::Fixed(rng.frange(50.0, 15_000.0).min(top)),
			resonance: Val::Fixed(rng.frange(0.0, if nested { 0.3 } else { 0.9 })),
			mix: Val::Fixed(MixS(rng.f64() as f32)),
		},
		1 => EffectSpec::Eq {
			kind: *rng.pick(&[EqKindS::Bell, EqKindS::LowShelf, EqKindS::HighShelf]),
			frequency: Val::Fixed(rng.frange(50.0, 10_000.0).min(top)),
			gain: Val::Fixed(Db(rng.frange(-12.0, if nested { 0.0 } else { 12.0 }) as f32)),
			q: Val::Fixed(rng.frange(0.3, 4.0)),
		},
		2 => {
			let feedback_effects = if depth == 0 && rng.chance(0.3) { vec![fixed_effect(g, 1, sample_rate)] } else { vec![] };
			let rng = &mut *g.rng;
			let max_feedback = if feedback_effects.is_empty() { -1.0 } else { -6.0 };
			EffectSpec::Delay {
				// from below one internal buffer to several
				time: *rng.pick(&[0.0001, 0.0005, 0.002, 0.01, 0.05]),
				feedback: Val::Fixed(Db(rng.frange(-30.0, max_feedback) as f32)),
				mix: Val::Fixed(MixS(rng.f64() as f32)),
				feedback_effects,
			}
		}
		3 => EffectSpec::Reverb {
			feedback: Val::Fixed(rng.frange(0.0, if nested { 0.2 } else { 0.95 })),
			damping: Val::Fixed(rng.f64()),
			stereo_width: Val::Fixed(rng.f64()),
			mix: Val::Fixed(MixS(rng.f64() as f32)),
		},
		4 => EffectSpec::Compressor {
			threshold: Val::Fixed(rng.frange(-40.0, 0.0)),
			ratio: Val::Fixed(rng.frange(1.0, 10.0)),
			attack: Val::Fixed(Secs(rng.frange(0.0005, 0.05))),
			release: Val::Fixed(Secs(rng.frange(0.001, 0.2))),
			makeup: Val::Fixed(Db(rng.frange(-6.0, if nested { 0.0 } else { 6.0 }) as f32)),
			mix: Val::Fixed(MixS(rng.f64() as f32)),
		},
		5 => EffectSpec::Distortion {
			kind: *rng.pick(&[DistKindS::HardClip, DistKindS::SoftClip]),
			drive: Val::Fixed(Db(rng.frange(-12.0, if nested { 0.0 } else { 24.0 }) as f32)),
			mix: Val::Fixed(MixS(rng.f64() as f32)),
		},
		6 => EffectSpec::Volume(Val::Fixed(Db(rng.frange(-20.0, if nested { 0.0 } else { 6.0 }) as f32))),
		_ => EffectSpec::Panning(Val::Fixed(Pan(rng.frange(-1.0, 1.0) as f32))),
	}
}

fn fixed_effects(g: &mut G, max: usize, sample_rate: u32) -> Vec<EffectSpec> {
	let n = if g.rng.chance(0.35) { 0 } else { g.rng.urange(1, max) };
	(0..n).map(|_| fixed_effect(g, 0, sample_rate)).collect()
}

fn has_recursive(effects: &[EffectSpec]) -> bool {
	effects.iter().any(|e| e.is_recursive())
}

fn gen_case(seed: u64, tier: Tier) -> Case {
	let mut rng = Rng::new(seed);
	let sample_rate = *rng.pick(&[8000u32, 22_050, 44_100, 48_000, 96_000, 8001]);
	let channels = *rng.pick(&[1u16, 2, 2, 2, 3, 6]);
	// overflow scenes (4%): a gain so large that the mix overflows (+1000 dB on the main track)
	// over sounds with exactly silent frames in between: the mix holds +-inf and, where 0 x inf
	// meets, isolated non-finite frames. What the device gets for each frame (full scale or
	// silence) must not depend on the partition either
	let overflow = rng.chance(0.04);
	let channels = if overflow { 2 } else { channels };
	let mut g = G::new(&mut rng, Tiers { t1: 0.0, t2: 0.0 });
	g.allow_mod_links = false;
	g.allow_clock_starts = false;
	let cfg = WorldConfig {
		sample_rate,
		internal_buffer_size: 128,
		caps: CapsSpec::default(),
		main_volume: Val::Fixed(Db(if overflow { 1000.0 } else { g.rng.frange(-12.0, 3.0) as f32 })),
		main_effects: if overflow { vec![] } else { fixed_effects(&mut g, 2, sample_rate) },
		main_sound_capacity: 16,
	};
	let mut setup = Vec::new();
	let n_sends = if overflow { 0 } else { g.rng.usize_below(3) };
	for _ in 0..n_sends {
		setup.push(Op::AddSend {
			volume: Val::Fixed(Db(g.rng.frange(-12.0, 3.0) as f32)),
			effects: fixed_effects(&mut g, 2, sample_rate),
		});
	}
	let spatial = !overflow && g.rng.chance(0.25);
	if spatial {
		setup.push(Op::AddListener {
			position: Val::Fixed(V3([g.rng.frange(-5.0, 5.0) as f32, 0.0, g.rng.frange(-5.0, 5.0) as f32])),
			orientation: Val::Fixed(Q4([0.0, 0.0, 0.0, 1.0])),
		});
	}
	let n_tracks = if overflow { 0 } else { g.rng.usize_below(5) };
	for t in 0..n_tracks {
		let mut sends = vec![];
		for s in 0..n_sends {
			if g.rng.chance(0.5) {
				sends.push((s, Val::Fixed(Db(g.rng.frange(-20.0, 0.0) as f32))));
			}
		}
		let spec = TrackSpec {
			volume: Val::Fixed(Db(g.rng.frange(-12.0, 3.0) as f32)),
			effects: fixed_effects(&mut g, 3, sample_rate),
			sound_capacity: 8,
			sub_track_capacity: 4,
			sends,
			persist: false,
		};
		let sp = if spatial && g.rng.chance(0.5) {
			Some(SpatialSpec {
				listener: 0,
				position: Val::Fixed(V3([g.rng.frange(-20.0, 20.0) as f32, g.rng.frange(-2.0, 2.0) as f32, g.rng.frange(-20.0, 20.0) as f32])),
				distances: (1.0, 50.0),
				attenuation: Some(EasingSpec::Linear),
				strength: Val::Fixed(g.rng.f64() as f32),
			})
		} else {
			None
		};
		setup.push(Op::AddTrack {
			parent: if t > 0 && g.rng.chance(0.4) { Some(g.rng.usize_below(t)) } else { None },
			spec,
			spatial: sp,
		});
	}
	// prelude (a quarter of the scenes with tracks): some tracks are paused and resumed with
	// fades before anything plays. The fades themselves are quantised to internal chunks (so
	// nothing audible happens during them); once every world has them Playing again - a fade
	// plus two of the largest internal buffers later - the renderings must agree as before
	if n_tracks > 0 && g.rng.chance(0.25) {
		let chosen: Vec<usize> = (0..n_tracks).filter(|_| g.rng.chance(0.6)).collect();
		let d1 = *g.rng.pick(&[0.0, 0.004, 0.03]);
		let d2 = *g.rng.pick(&[0.001, 0.004, 0.03]);
		let fade = |dur: f64| TweenSpec {
			start: StartSpec::Immediate,
			dur,
			easing: EasingSpec::Linear,
		};
		for t in &chosen {
			setup.push(Op::Track {
				track: *t,
				cmd: TrackCmd::Pause(fade(d1)),
			});
		}
		setup.push(Op::Callback {
			frames: (d1 * sample_rate as f64) as usize + g.rng.urange(1, 300),
			channels,
		});
		for t in &chosen {
			setup.push(Op::Track {
				track: *t,
				cmd: TrackCmd::Resume(fade(d2)),
			});
		}
		setup.push(Op::Callback {
			frames: (d2 * sample_rate as f64) as usize + 2 * 4096 + 16,
			channels,
		});
	}
	let n_sounds = if overflow { 1 } else { g.rng.urange(1, 5) };
	let mut any_streaming = false;
	let total_frames = match tier {
		Tier::Quick => g.rng.urange(300, 2500),
		Tier::Thorough => g.rng.urange(300, 9000),
	};
	for _ in 0..n_sounds {
		let len = g.rng.urange(1, 3000);
		let data = DataSpec {
			len,
			sample_rate: 0, // set below
			signal: match g.rng.below(3) {
				0 => Signal::Noise {
					seed: g.rng.next_u64(),
					amp: 0.5,
				},
				1 => Signal::Sine {
					cpf: g.rng.frange(0.002, 0.3) as f32,
					amp: 0.5,
				},
				_ => Signal::Index { scale: 8192.0 },
			},
		};
		let data = if overflow { DataSpec { signal: Signal::Gapped { amp: 0.5 }, ..data } } else { data };
		let streaming = !overflow && g.rng.chance(0.3);
		any_streaming |= streaming;
		let rate = match g.rng.below(6) {
			0..=2 => 1.0,
			3 => 0.5,
			4 => g.rng.frange(0.1, if streaming { 2.0 } else { 3.0 }),
			_ => 2.0,
		};
		// a streaming sound must not be able to drain its 16384-frame ring within one
		// callback (<= 4000 frames below): source rate == device rate, rate <= 2
		let mut data = data;
		data.sample_rate = if streaming { sample_rate } else { *g.rng.pick(&[sample_rate, sample_rate, 8000, 44_100, 48_000]) };
		let rate = if !streaming && g.rng.chance(0.2) { -rate } else { rate };
		// (overflow scenes: copied frame by frame, so that the silent frames stay exactly silent)
		let rate = if overflow { 1.0 } else { rate };
		if overflow {
			data.sample_rate = sample_rate;
		}
		let loop_region = if g.rng.chance(0.4) {
			let a = g.rng.usize_below(len);
			Some(RegionSpec {
				start: Pos::Samples(a),
				end: if g.rng.chance(0.4) { None } else { Some(Pos::Samples(g.rng.urange(a + 1, len + 1))) },
			})
		} else {
			None
		};
		let loop_region = if overflow { None } else { loop_region };
		let settings = SoundSettingsSpec {
			start: StartSpec::Immediate,
			start_position: if overflow || g.rng.chance(0.6) { Pos::Samples(0) } else { Pos::Samples(g.rng.usize_below(len)) },
			loop_region,
			reverse: !overflow && !streaming && g.rng.chance(0.15),
			volume: Val::Fixed(Db(if overflow { 0.0 } else { g.rng.frange(-18.0, 0.0) as f32 })),
			rate: Val::Fixed(Rate(rate)),
			panning: Val::Fixed(Pan(*g.rng.pick(&[0.0f32, -1.0, 1.0, 0.4, -0.7]))),
			fade_in: None,
		};
		let track = if n_tracks > 0 && g.rng.chance(0.75) { Some(g.rng.usize_below(n_tracks)) } else { None };
		if streaming {
			setup.push(Op::PlayStreaming {
				track,
				decoder: DecoderSpec {
					data,
					packets: vec![*g.rng.pick(&[1usize, 17, 64, 500])],
					seek_gran: *g.rng.pick(&[1usize, 8]),
					fail_decode: vec![],
					fail_seek: vec![],
					fail_sticky: false,
					slow: 0,
				},
				slice: None,
				settings,
			});
		} else {
			setup.push(Op::PlayStatic {
				track,
				data,
				slice: None,
				settings,
			});
		}
	}
	// second kind of prelude (half of the scenes without effects and streaming sounds): commands on a looping
	// static sound - a volume tween, and an instant pause and resume while it runs - and then rest.
	// While the tween runs the worlds differ (it advances chunk by chunk); once it has surely ended
	// the sound has the same position and exactly the target gain everywhere
	// (only in scenes without effects: an effect with memory - a filter, a compressor, a reverb -
	// legitimately remembers that the worlds differed while the tween ran)
	let no_effects = cfg.main_effects.is_empty()
		&& setup.iter().all(|o| match o {
			Op::AddTrack { spec, spatial, .. } => spec.effects.is_empty() && spatial.is_none(),
			Op::AddSend { effects, .. } => effects.is_empty(),
			_ => true,
		});
	if !overflow && !any_streaming && no_effects && g.rng.chance(0.5) {
		let mut play_no = 0usize;
		let mut chosen = None;
		for op in setup.iter_mut() {
			match op {
				Op::PlayStatic { settings, .. } => {
					settings.loop_region = Some(RegionSpec { start: Pos::Samples(0), end: None });
					chosen = Some(play_no);
					break;
				}
				Op::PlayStreaming { .. } => play_no += 1,
				_ => {}
			}
		}
		if let Some(sound) = chosen {
			let d = *g.rng.pick(&[0.002, 0.01, 0.04]);
			let instant = TweenSpec { start: StartSpec::Immediate, dur: 0.0, easing: EasingSpec::Linear };
			setup.push(Op::Sound {
				sound,
				cmd: SoundCmd::SetVolume(Val::Fixed(Db(g.rng.frange(-20.0, 0.0) as f32)), TweenSpec { start: StartSpec::Immediate, dur: d, easing: EasingSpec::Linear }),
			});
			setup.push(Op::Callback { frames: g.rng.urange(1, 200), channels });
			if g.rng.chance(0.7) {
				setup.push(Op::Sound { sound, cmd: SoundCmd::Pause(instant) });
				setup.push(Op::Callback { frames: g.rng.urange(1, 200), channels });
				setup.push(Op::Sound { sound, cmd: SoundCmd::Resume(instant) });
			}
			// (in pieces that a device could ask for)
			let mut left = (d * sample_rate as f64) as usize + 2 * 4096 + 16;
			while left > 0 {
				let c = left.min(3000);
				setup.push(Op::Callback { frames: c, channels });
				left -= c;
			}
		}
	}
	// three worlds: different internal buffer sizes and callback partitions
	let mut worlds = Vec::new();
	for w in 0..3 {
		let ibs = if w == 0 { 1 } else { *g.rng.pick(&[1usize, 2, 3, 7, 64, 128, 129, 500, 4096]) };
		let mut parts = Vec::new();
		let mut left = total_frames;
		let mode = g.rng.below(5);
		while left > 0 {
			let c = match mode {
				0 => 1,
				1 => ibs,
				2 => g.rng.urange(1, 400),
				3 => *g.rng.pick(&[0usize, 1, ibs.saturating_sub(1).max(1), ibs + 1, 2 * ibs + 3]),
				_ => left,
			}
			.min(left)
			.min(if any_streaming { 4000 } else { usize::MAX });
			if c == 0 && parts.last() == Some(&0) {
				continue;
			}
			parts.push(c);
			left -= c;
			if mode == 0 && parts.len() > 600 {
				// (the rest in large pieces - still within what a streaming sound's ring can feed
				// during one callback, which the decoder task cannot interrupt here)
				while left > 0 {
					let c = left.min(if any_streaming { 4000 } else { usize::MAX });
					parts.push(c);
					left -= c;
				}
			}
		}
		worlds.push((ibs, parts));
	}
	Case {
		seed,
		cfg,
		channels,
		setup,
		worlds,
		overflow,
	}
}

pub fn run_case(case: &Case) -> CaseResult {
	let mut res = CaseResult::default();
	let mut trace = Hasher64::new();
	let mut beh = Hasher64::new();
	let sim = Sim::new(case.seed);
	let mut recursive = has_recursive(&case.cfg.main_effects);
	for op in &case.setup {
		match op {
			// spatialization interpolates the listener per frame (a*(1-t) + a*t is not
			// bit-identical to a): the property promises bit-equality only for sounds,
			// mixing and volume, so spatial scenes are compared with the tolerance
			Op::AddTrack { spec, spatial, .. } => recursive |= has_recursive(&spec.effects) || spatial.is_some(),
			Op::AddSend { effects, .. } => recursive |= has_recursive(effects),
			_ => {}
		}
	}
	let mut streams: Vec<Vec<f32>> = Vec::new();
	let ch = case.channels.max(1) as usize;
	for (wi, (ibs, parts)) in case.worlds.iter().enumerate() {
		let mut cfg = case.cfg.clone();
		cfg.internal_buffer_size = *ibs;
		let first_task = sim.task_count();
		let Ok(mut world) = World::new(&cfg, Some(sim.clone())) else {
			res.hit("setup_panicked");
			sim.shutdown();
			return res;
		};
		for op in &case.setup {
			let o = world.exec(op);
			if o.gameplay_panic.is_some() {
				res.hit("setup_op_panicked");
			}
		}
		let my_decoders: Vec<usize> = sim.task_ids_from(first_task);
		let mut stream = Vec::new();
		for frames in parts {
			for d in &my_decoders {
				let _ = sim.step(*d, 40_000);
			}
			let rep = world.callback(*frames, case.channels.max(1));
			if let Some(p) = rep.panic {
				res.fail(Violation::new("panic", format!("audio-panic: {}", panic_signature(&p)), format!("world {wi} (internal buffer {ibs}): callback of {frames} frames panicked: {p}")));
				break;
			}
			stream.extend_from_slice(&world.out);
		}
		res.frames += world.frames_rendered;
		res.callbacks += world.callbacks;
		res.sim_seconds += world.sim_seconds;
		streams.push(stream);
		drop(world);
		if res.violation.is_some() {
			break;
		}
	}
	if res.violation.is_none() {
		let base = &streams[0];
		let mut nonsilent = false;
		for s in base {
			trace.f32(*s);
			if *s != 0.0 {
				nonsilent = true;
			}
		}
		res.nontrivial = nonsilent;
		if case.overflow {
			// the sum the documentation describes is source x pan x 10^50: far outside [-1, 1] where
			// the source is not silent, exactly 0 where it is (that f32 turns these into inf and
			// 0 x inf is the renderer's business): full scale with the source's sign, or silence
			if let Some(Op::PlayStatic { data, settings, .. }) = case.setup.iter().find(|o| matches!(o, Op::PlayStatic { .. })) {
				let pan = match settings.panning {
					Val::Fixed(Pan(p)) => p,
					_ => 0.0,
				};
				for k in 0..base.len() / ch {
					let src = if k < data.len { data.frame(k) } else { kira::Frame::ZERO };
					let f = src.panned(kira::Panning(pan));
					for (c, v) in [f.left, f.right].iter().enumerate() {
						let want = if *v > 0.0 { 1.0 } else if *v < 0.0 { -1.0 } else { 0.0 };
						let got = base[k * ch + c];
						if got != want {
							res.fail(Violation::new(
								"overflow",
								"overflowing-sum-not-clamped",
								format!("frame {k} channel {c}: the source frame is {v} (after panning {pan}), the main track's gain +1000 dB: the documented sum is {} and the device must get {want}, it got {got}", if *v == 0.0 { "0".to_string() } else { format!("{:e}", *v as f64 * 1e50) }),
							));
							break;
						}
					}
					if res.violation.is_some() {
						break;
					}
				}
				res.hit("overflow_scenes_checked");
			}
		}
		for (wi, s) in streams.iter().enumerate().skip(1) {
			if s.len() != base.len() {
				res.fail(Violation::new("twin-worlds", "length-differs", format!("world {wi} rendered {} samples, world 0 {}", s.len(), base.len())));
				break;
			}
			for (j, (x, y)) in base.iter().zip(s.iter()).enumerate() {
				let bad = if recursive { !((x - y).abs() <= 1e-6 + 1e-4 * x.abs().max(y.abs())) && !(x.is_nan() && y.is_nan()) } else { x != y && !(x.is_nan() && y.is_nan()) };
				if bad {
					res.fail(Violation::new(
						"twin-worlds",
						if recursive { "buffer-size-dependent-output-recursive" } else { "buffer-size-dependent-output" },
						format!(
							"frame {} channel {}: {} with internal buffer {} vs {} with internal buffer {} (callbacks {:?}...)",
							j / ch,
							j % ch,
							x,
							case.worlds[0].0,
							y,
							case.worlds[wi].0,
							&case.worlds[wi].1[..case.worlds[wi].1.len().min(6)]
						),
					));
					break;
				}
			}
			if res.violation.is_some() {
				break;
			}
			res.hit("world_pairs_compared");
		}
	}
	if recursive {
		res.hit("scenes_in_tolerance_class(recursive_effects_or_spatial)");
	} else {
		res.hit("scenes_bit_exact_class");
	}
	beh.u64(recursive as u64);
	beh.u64(case.setup.len() as u64);
	for (ibs, parts) in &case.worlds {
		beh.u64(*ibs as u64);
		beh.u64(parts.len().min(8) as u64);
	}
	beh.u64(case.channels as u64);
	for (role, name, msg) in sim.take_panics() {
		res.fail(Violation::new("panic", format!("task-panic: {}", panic_signature(&msg)), format!("{role:?} task {name}: {msg}")));
	}
	sim.shutdown();
	res.behaviour_sig = beh.finish();
	res.trace_hash = trace.finish();
	res
}

pub struct C11;

impl Check for C11 {
	fn info(&self) -> CheckInfo {
		CheckInfo {
			id: "C11",
			level: "exploration",
			rule: "each case = a scene (main/sub/spatial/send tracks with every built-in effect at fixed parameters incl. effects nested in a delay's feedback loop, 1..5 static or streaming sounds with any rate, loop, reverse, pan, immediate start; a quarter of the scenes with tracks begin with a prelude in which some tracks are paused and resumed with fades before anything plays, and play once every world has them Playing again; half of the scenes without effects and streaming sounds begin with commands on a looping static sound (a volume tween, an instant pause and resume while it runs) and are compared once the tween has surely ended; 4% are overflow scenes - one sound with exactly silent frames in between, copied frame by frame under a main-track gain of +1000 dB, so that the mix holds infinities and isolated non-finite frames: every sample is full scale with the source's sign, or silence) rendered in three worlds that differ only in internal buffer size (1..4096) and callback partition (1-frame, equal to the buffer, random, non-multiples, zero-frame, one huge callback); non-trivial = non-silent output; distinct = hash of (recursive?, scene size, buffer sizes, partition classes, channels)",
			assumptions: vec![
				"parameters are constant (no modulators, tweens, delayed or clock starts, no commands after setup), as the property requires".into(),
				"streaming decoders are run until they sleep or end before every callback in every world (decoder keeps ahead)".into(),
			],
			components: vec![
				("Renderer chunking, Mixer, tracks, sends, all built-in effects, static + streaming sounds", "real"),
				("audio device / callback partition", "stub (SimBackend)"),
				("Decoder", "stub (scripted decoder)"),
			],
		}
	}
	fn num_cases(&self, tier: Tier) -> u64 {
		match tier {
			Tier::Quick => 8_000,
			Tier::Thorough => 100_000,
		}
	}
	fn case(&self, tier: Tier, seed: u64, index: u64) -> Value {
		serde_json::to_value(gen_case(derive_seed(seed, 11, index), tier)).unwrap()
	}
	fn run(&self, case: &Value) -> CaseResult {
		let case: Case = serde_json::from_value(case.clone()).expect("malformed C11 case");
		run_case(&case)
	}
	fn shrink(&self, case: &Value) -> Vec<Value> {
		let c: Case = serde_json::from_value(case.clone()).unwrap();
		// (a prelude is only valid as a whole: commands, then the callbacks that let them come to rest)
		let prelude_ops = |c: &Case| c.setup.iter().filter(|o| matches!(o, Op::Callback { .. } | Op::Track { .. } | Op::Sound { .. })).count();
		let keep = prelude_ops(&c);
		let mut out: Vec<Value> = shrink_ops_array(case, "setup")
			.into_iter()
			.filter(|v| serde_json::from_value::<Case>(v.clone()).map(|c2| prelude_ops(&c2) == keep).unwrap_or(false))
			.collect();
		if c.worlds.len() > 2 {
			for drop in 1..c.worlds.len() {
				let mut c2 = c.clone();
				c2.worlds.remove(drop);
				out.push(serde_json::to_value(c2).unwrap());
			}
		}
		if !c.cfg.main_effects.is_empty() {
			let mut c2 = c.clone();
			c2.cfg.main_effects.clear();
			out.push(serde_json::to_value(c2).unwrap());
		}
		// shorter renderings
		let total: usize = c.worlds[0].1.iter().sum();
		if total > 64 {
			let mut c2 = c.clone();
			for (_, parts) in c2.worlds.iter_mut() {
				let mut left = total / 2;
				let mut np = Vec::new();
				for p in parts.iter() {
					let q = (*p).min(left);
					np.push(q);
					left -= q;
					if left == 0 {
						break;
					}
				}
				*parts = np;
			}
			out.push(serde_json::to_value(c2).unwrap());
		}
		out
	}
}
