//! C05, second scheduled stream: a sound scheduled on a clock that was created just before it.
//!
//! The caller necessarily creates the clock before the sound that starts at one
//! of its times. A gameplay task does `add_clock`, `start`, `play(sound @ tick n)`
//! while an audio task runs callbacks, preempted at the yield points of the
//! resource rings. Whatever the interleaving, the sound must not be cancelled
//! ("the clock does not exist") while the clock's handle is alive: it is heard
//! once the clock gets there.

use std::sync::{Arc, Mutex};

use kira::{
	clock::{ClockSpeed, ClockTime},
	sound::{static_sound::StaticSoundData, PlaybackState},
	AudioManager, AudioManagerSettings, Frame, StartTime,
};
use serde::{Deserialize, Serialize};

use crate::{
	backend::{SimBackend, SimBackendSettings},
	core::*,
	monitor::{self, panic_signature, Role},
	rng::{Hasher64, Rng},
	sched::Sim,
};

#[derive(Clone, Debug, Serialize, Deserialize)]
pub struct Sched2Case {
	pub seed: u64,
	pub ticks: u64,
	pub warm: usize,
	pub callbacks: usize,
	pub switch_prob: f64,
	/// the sound is played on a sub-track instead of the main track
	pub on_track: bool,
	/// instead: a running clock is stopped while callbacks run; it must end up stopped at time zero
	#[serde(default)]
	pub stop_race: bool,
}

pub fn gen(rng: &mut Rng) -> Sched2Case {
	Sched2Case {
		seed: rng.next_u64(),
		ticks: rng.below(3),
		warm: rng.usize_below(2),
		callbacks: rng.urange(2, 6),
		switch_prob: *rng.pick(&[0.03, 0.1, 0.3, 0.6, 0.9]),
		on_track: rng.chance(0.4),
		stop_race: rng.chance(0.4),
	}
}

/// `ClockHandle::stop()` ("stops and resets the clock") against callbacks: whatever the
/// interleaving, a few undisturbed callbacks later the clock is not ticking and reads zero.
fn run_stop_race(case: &Sched2Case) -> CaseResult {
	let mut res = CaseResult::default();
	let mut beh = Hasher64::new();
	let sim = Sim::new(case.seed);
	sim.set_random_params(case.switch_prob, 0.1, 60_000);
	let manager = monitor::catch(|| {
		AudioManager::<SimBackend>::new(AudioManagerSettings {
			internal_buffer_size: 8,
			backend_settings: SimBackendSettings { sample_rate: 1000 },
			..Default::default()
		})
		.unwrap()
	});
	let Ok(mut manager) = manager else {
		sim.shutdown();
		return res;
	};
	let device = manager.backend_mut().device.clone();
	let mut out = Vec::new();
	// 37.5 ticks per second: 0.3 ticks per 8-frame callback, so that both words of the time move
	let mut clock = manager.add_clock(ClockSpeed::TicksPerSecond(37.5)).unwrap();
	clock.start();
	for _ in 0..case.warm + 2 + case.ticks as usize * 3 {
		let _ = device.callback(8, 2, &mut out);
	}
	let before = clock.time();
	let clock = Arc::new(Mutex::new(clock));
	{
		let clock = clock.clone();
		sim.spawn_task(
			"gameplay",
			Role::Gameplay,
			Box::new(move || {
				kira::verif::yield_point("gameplay.between_ops");
				clock.lock().unwrap().stop();
			}),
		);
	}
	{
		let (device, n) = (device.clone(), case.callbacks);
		sim.spawn_task(
			"audio",
			Role::Audio,
			Box::new(move || {
				let mut out = Vec::new();
				for _ in 0..n {
					let rep = device.callback(8, 2, &mut out);
					if let Some(p) = rep.panic {
						panic!("{p}");
					}
					kira::verif::yield_point("audio.between_callbacks");
				}
			}),
		);
	}
	sim.run_random();
	res.count("context_switches", sim.switches());
	if sim.capped() {
		res.inconclusive = true;
	}
	for (role, name, msg) in sim.take_panics() {
		res.fail(Violation::new("panic", format!("task-panic: {}", panic_signature(&msg)), format!("{role:?} task {name} panicked: {msg}")));
	}
	for _ in 0..3 {
		let rep = device.callback(8, 2, &mut out);
		if let Some(p) = rep.panic {
			res.fail(Violation::new("panic", format!("audio-panic: {}", panic_signature(&p)), p));
		}
	}
	if res.violation.is_none() && !res.inconclusive {
		let c = clock.lock().unwrap();
		let (ticking, t) = (c.ticking(), c.time());
		if ticking || t.ticks != 0 || t.fraction != 0.0 {
			res.fail(Violation::new(
				"clock-model",
				"stopped-clock-not-reset",
				format!(
					"a running clock (at {}.{:03} ticks) was stopped with stop() while callbacks ran; three undisturbed callbacks later it reports ticking = {ticking}, time = {} ticks + {:.6}: stopping must reset it to zero",
					before.ticks,
					(before.fraction * 1000.0) as u64,
					t.ticks,
					t.fraction
				),
			));
		} else {
			res.hit("clocks_stopped_under_a_race");
		}
	}
	beh.u64(sim.trace_hash());
	res.nontrivial = true;
	res.callbacks = (case.warm + 2 + case.ticks as usize * 3 + case.callbacks + 3) as u64;
	res.hit("type.sched_stop_race");
	res.trace_hash = sim.trace_hash();
	res.behaviour_sig = beh.finish();
	drop(clock);
	drop(manager);
	sim.shutdown();
	res
}

pub fn run(case: &Sched2Case) -> CaseResult {
	if case.stop_race {
		return run_stop_race(case);
	}
	let mut res = CaseResult::default();
	let mut beh = Hasher64::new();
	let sim = Sim::new(case.seed);
	sim.set_random_params(case.switch_prob, 0.1, 60_000);
	let manager = monitor::catch(|| {
		AudioManager::<SimBackend>::new(AudioManagerSettings {
			internal_buffer_size: 8,
			backend_settings: SimBackendSettings { sample_rate: 1000 },
			..Default::default()
		})
		.unwrap()
	});
	let Ok(mut manager) = manager else {
		sim.shutdown();
		return res;
	};
	let device = manager.backend_mut().device.clone();
	let mut out = Vec::new();
	for _ in 0..case.warm {
		let _ = device.callback(8, 2, &mut out);
	}
	let keep: Arc<Mutex<Vec<Box<dyn std::any::Any + Send>>>> = Arc::new(Mutex::new(vec![]));
	let sound: Arc<Mutex<Option<kira::sound::static_sound::StaticSoundHandle>>> = Arc::new(Mutex::new(None));
	let manager = Arc::new(Mutex::new(Some(manager)));
	{
		let (keep, sound, manager, ticks, on_track) = (keep.clone(), sound.clone(), manager.clone(), case.ticks, case.on_track);
		sim.spawn_task(
			"gameplay",
			Role::Gameplay,
			Box::new(move || {
				let mut g = manager.lock().unwrap();
				let m = g.as_mut().unwrap();
				// 125 ticks per second: one tick per 8-frame callback at 1000 Hz
				let mut clock = m.add_clock(ClockSpeed::TicksPerSecond(125.0)).unwrap();
				kira::verif::yield_point("gameplay.between_ops");
				clock.start();
				kira::verif::yield_point("gameplay.between_ops");
				let data = StaticSoundData {
					sample_rate: 1000,
					frames: vec![Frame::new(0.25, 0.25); 8].into(),
					settings: Default::default(),
					slice: None,
				}
				.loop_region(0.0..)
				.start_time(StartTime::ClockTime(ClockTime {
					clock: clock.id(),
					ticks,
					fraction: 0.0,
				}));
				let h = if on_track {
					let mut t = m.add_sub_track(kira::track::TrackBuilder::new()).unwrap();
					kira::verif::yield_point("gameplay.between_ops");
					let h = t.play(data).unwrap();
					keep.lock().unwrap().push(Box::new(t));
					h
				} else {
					m.play(data).unwrap()
				};
				*sound.lock().unwrap() = Some(h);
				keep.lock().unwrap().push(Box::new(clock));
			}),
		);
	}
	{
		let (device, n) = (device.clone(), case.callbacks);
		sim.spawn_task(
			"audio",
			Role::Audio,
			Box::new(move || {
				let mut out = Vec::new();
				for _ in 0..n {
					let rep = device.callback(8, 2, &mut out);
					if let Some(p) = rep.panic {
						panic!("{p}");
					}
					kira::verif::yield_point("audio.between_callbacks");
				}
			}),
		);
	}
	sim.run_random();
	res.count("context_switches", sim.switches());
	if sim.capped() {
		res.inconclusive = true;
	}
	for (role, name, msg) in sim.take_panics() {
		res.fail(Violation::new("panic", format!("task-panic: {}", panic_signature(&msg)), format!("{role:?} task {name} panicked: {msg}")));
	}
	// the clock runs on: a few undisturbed callbacks later the sound must be audible
	let mut audible = false;
	for _ in 0..case.ticks as usize + 4 {
		let rep = device.callback(8, 2, &mut out);
		if let Some(p) = rep.panic {
			res.fail(Violation::new("panic", format!("audio-panic: {}", panic_signature(&p)), p));
		}
		audible |= out.iter().any(|s| *s != 0.0);
	}
	if res.violation.is_none() && !res.inconclusive {
		let state = sound.lock().unwrap().as_ref().map(|h| h.state());
		if state != Some(PlaybackState::Playing) || !audible {
			res.fail(Violation::new(
				"schedule-window",
				"scheduled-sound-cancelled-although-its-clock-exists",
				format!(
					"a sound scheduled for tick {} of a clock created (and started) just before it reports {state:?} and is {} {} callbacks after the clock must have got there; the clock's handle is alive",
					case.ticks,
					if audible { "audible" } else { "not audible" },
					case.ticks + 4
				),
			));
		} else {
			res.hit("scheduled_sounds_started");
		}
	}
	beh.u64(sim.trace_hash());
	res.nontrivial = true;
	res.callbacks = (case.warm + case.callbacks + case.ticks as usize + 4) as u64;
	res.hit("type.sched_clock_then_sound");
	res.trace_hash = sim.trace_hash();
	res.behaviour_sig = beh.finish();
	drop(sound);
	drop(keep);
	drop(manager);
	sim.shutdown();
	res
}
