//! C12 - pausing a track freezes its subtree; removal follows handle / persistence rules.
//!
//! Track trees carry a probe effect per track and probe sounds (every call
//! logged) plus static sounds with start delays. A seeded history pauses,
//! resumes (immediately / delayed / at a clock time) and drops track handles in
//! any order, with persistence on or off. Oracles: (freeze) once a pause fade has
//! surely ended nothing beneath the node is called, static sounds keep their
//! position and their start delays stop counting, and everything continues
//! without a jump after the resume; (removal) a track keeps being processed as
//! long as its handle, a descendant's handle or - if persistent - an unfinished
//! sound is alive, and is gone within two callbacks once none is; (state) the
//! state read from the handle never panics, is one of the five values and equals
//! Paused / Playing once the model is sure.

use std::sync::{atomic::Ordering, Arc};

use kira::{
	sound::static_sound::StaticSoundHandle,
	track::{SpatialTrackBuilder, SpatialTrackHandle, TrackBuilder, TrackHandle, TrackPlaybackState},
	AudioManager, AudioManagerSettings, Capacities, StartTime, Tween,
};
use serde::{Deserialize, Serialize};
use serde_json::Value as Json;

use crate::{
	backend::{SimBackend, SimBackendSettings},
	core::*,
	known,
	monitor::{self, panic_signature},
	probes::*,
	rng::{derive_seed, Hasher64, Rng},
	spec::*,
	world::{static_data, NoResolver},
};

#[derive(Clone, Copy, Debug, Serialize, Deserialize, PartialEq)]
pub enum ResumeAt {
	Now,
	Delayed(f64),
	/// ticks on clock 0
	Clock(u64),
	/// resume now, with a fade-in tween whose own start is delayed by that many seconds: the track
	/// runs (silently) from now on, only its fade waits
	NowFadeDelayed(f64),
}

#[derive(Clone, Debug, Serialize, Deserialize, PartialEq)]
pub enum Op {
	AddTrack {
		parent: Option<usize>,
		persist: bool,
		/// a spatial track (at the listener's position) instead of a plain one
		#[serde(default)]
		spatial: bool,
	},
	PlayProbe { track: usize, finish_after: Option<u64> },
	/// a static DC sound with a start delay (seconds)
	PlayDelayed { track: usize, delay: f64 },
	StopSound { sound: usize },
	DropTrack { track: usize },
	Pause { track: usize, tween: f64 },
	Resume { track: usize, at: ResumeAt, tween: f64 },
	StartClock,
	DropClock,
	Callback { frames: usize },
}

#[derive(Clone, Debug, Serialize, Deserialize)]
pub struct Case {
	pub seed: u64,
	pub ibs: usize,
	pub ops: Vec<Op>,
	/// scheduled stream: the removal decision against a racing owner (c12_sched.rs)
	#[serde(default)]
	pub sched: Option<super::c12_sched::SchedCase>,
}

fn gen_case(seed: u64, tier: Tier) -> Case {
	let mut rng = Rng::new(seed);
	if rng.chance(0.04) {
		return Case {
			seed,
			ibs: 8,
			ops: vec![],
			sched: Some(super::c12_sched::gen(&mut rng, tier)),
		};
	}
	let ibs = *rng.pick(&[4usize, 16, 64]);
	let unit = ibs as f64 / 8000.0;
	let n = rng.urange(8, if tier == Tier::Quick { 50 } else { 120 });
	let clock_ok = !known::is_open("C12-track-resume-clock-removed");
	let mut ops = vec![];
	let (mut nt, mut ns) = (0usize, 0usize);
	let mut touched: Vec<usize> = vec![];
	while ops.len() < n {
		let op = match rng.weighted(&[10, 10, 4, 3, 6, 7, 7, 1, 1, 24]) {
			0 if nt < 10 => {
				nt += 1;
				Op::AddTrack {
					parent: if nt > 1 && rng.chance(0.6) { Some(rng.usize_below(nt - 1)) } else { None },
					persist: rng.chance(0.35),
					spatial: rng.chance(0.25),
				}
			}
			1 if nt > 0 && ns < 30 => {
				ns += 1;
				Op::PlayProbe {
					track: rng.usize_below(nt),
					finish_after: if rng.chance(0.5) { Some(rng.below(200)) } else { None },
				}
			}
			2 if nt > 0 => Op::PlayDelayed {
				track: rng.usize_below(nt),
				delay: rng.frange(0.0, 8.0 * unit),
			},
			3 if ns > 0 => Op::StopSound { sound: rng.usize_below(ns) },
			4 if nt > 0 => Op::DropTrack { track: rng.usize_below(nt) },
			5 if nt > 0 => {
				let t = rng.usize_below(nt);
				if touched.contains(&t) {
					continue;
				}
				touched.push(t);
				let pause = Op::Pause {
					track: t,
					tween: *rng.pick(&[0.0, 0.0, 2.0 * unit, 6.0 * unit]),
				};
				if rng.chance(0.2) {
					// pause and resume in this order between the same two callbacks: the resume
					// is the last word (the opposite order is not generated: the two kinds travel
					// in separate mailboxes and the audio thread reads the pause first)
					ops.push(pause);
					Op::Resume {
						track: t,
						at: ResumeAt::Now,
						tween: *rng.pick(&[0.0, 2.0 * unit, 6.0 * unit]),
					}
				} else {
					pause
				}
			}
			6 if nt > 0 => {
				let t = rng.usize_below(nt);
				if touched.contains(&t) {
					continue;
				}
				touched.push(t);
				Op::Resume {
					track: t,
					at: match rng.below(7) {
						6 => ResumeAt::NowFadeDelayed(rng.frange(0.5 * unit, 6.0 * unit)),
						0 | 1 | 2 => ResumeAt::Now,
						3 | 4 => ResumeAt::Delayed(rng.frange(0.0, 6.0 * unit)),
						_ => ResumeAt::Clock(rng.below(4)),
					},
					tween: *rng.pick(&[0.0, 0.0, 2.0 * unit, 6.0 * unit]),
				}
			}
			7 => Op::StartClock,
			8 if clock_ok => Op::DropClock,
			9 => {
				touched.clear();
				Op::Callback {
					frames: if rng.chance(0.6) { ibs } else { rng.urange(1, 3 * ibs) },
				}
			}
			_ => continue,
		};
		ops.push(op);
	}
	for _ in 0..3 {
		ops.push(Op::Callback { frames: ibs });
	}
	Case { seed, ibs, ops, sched: None }
}

#[derive(Clone, Copy, Debug, PartialEq)]
enum PauseM {
	/// advancing; a resume fade may still be running until `settle`
	Running { settle: f64 },
	/// pause requested; surely paused once local time >= settle
	Pausing { settle: f64 },
	/// resume requested for later: waiting until local time `wake_lo..wake_hi`, then fading
	Waiting { wake_lo: f64, wake_hi: f64, tween: f64, clock: Option<u64> },
}

/// a plain or a spatial sub-track handle (the same life-cycle rules apply to both)
enum AnyTrack {
	Plain(TrackHandle),
	Spatial(SpatialTrackHandle),
}

macro_rules! any_track {
	($s:expr, $h:ident => $e:expr) => {
		match $s {
			AnyTrack::Plain($h) => $e,
			AnyTrack::Spatial($h) => $e,
		}
	};
}

impl AnyTrack {
	fn add_sub_track(&mut self, b: TrackBuilder) -> Result<AnyTrack, kira::ResourceLimitReached> {
		any_track!(self, h => h.add_sub_track(b)).map(AnyTrack::Plain)
	}
	fn add_spatial_sub_track(&mut self, l: kira::listener::ListenerId, pos: mint::Vector3<f32>, b: SpatialTrackBuilder) -> Result<AnyTrack, kira::ResourceLimitReached> {
		any_track!(self, h => h.add_spatial_sub_track(l, pos, b)).map(AnyTrack::Spatial)
	}
	fn play<D: kira::sound::SoundData>(&mut self, d: D) -> Result<D::Handle, kira::PlaySoundError<D::Error>> {
		any_track!(self, h => h.play(d))
	}
	fn pause(&mut self, t: Tween) {
		any_track!(self, h => h.pause(t))
	}
	fn resume(&mut self, t: Tween) {
		any_track!(self, h => h.resume(t))
	}
	fn resume_at(&mut self, st: StartTime, t: Tween) {
		any_track!(self, h => h.resume_at(st, t))
	}
	fn state(&self) -> TrackPlaybackState {
		any_track!(self, h => h.state())
	}
}

struct MT {
	parent: Option<usize>,
	persist: bool,
	handle: Option<AnyTrack>,
	fx: Arc<ProbeShared>,
	first_cb: u64,
	marked_gap: Option<u64>,
	/// first callback at which nothing keeps the track alive any more
	clear_since: Option<u64>,
	pause: PauseM,
	/// lower / upper bound of the time this track has been processed for
	local_lo: f64,
	local_hi: f64,
	/// lower / upper bound of the time this track itself has been advancing (its sounds' time)
	run_lo: f64,
	run_hi: f64,
	calls: Vec<Call>,
	gone: bool,
}

struct MS {
	track: usize,
	probe: Option<Arc<ProbeShared>>,
	stat: Option<StaticSoundHandle>,
	delay: f64,
	first_cb: u64,
	stop_gap: Option<u64>,
	finish_after: Option<u64>,
	emitted: u64,
	/// local time of its track when it was played
	played_at_lo: f64,
	played_at_hi: f64,
	calls: Vec<Call>,
	last_pos: f64,
	frozen_streak: u32,
	/// finished (by itself or stopped) before this callback
	finished_before: Option<u64>,
}

#[derive(Clone, Copy, PartialEq, Debug)]
enum Expect {
	Full,
	Either,
	None,
}

pub fn run_case(case: &Case) -> CaseResult {
	if let Some(sc) = &case.sched {
		return super::c12_sched::run(sc);
	}
	let mut res = CaseResult::default();
	let mut trace = Hasher64::new();
	let mut beh = Hasher64::new();
	let sr = 8000u32;
	let ibs = case.ibs;
	let manager = monitor::catch(move || {
		AudioManager::<SimBackend>::new(AudioManagerSettings {
			capacities: Capacities {
				sub_track_capacity: 16,
				clock_capacity: 2,
				..Default::default()
			},
			internal_buffer_size: ibs,
			backend_settings: SimBackendSettings { sample_rate: sr },
			..Default::default()
		})
		.unwrap()
	});
	let Ok(mut manager) = manager else { return res };
	let device = manager.backend_mut().device.clone();
	// the listener of the spatial tracks: alive for the whole case, at the tracks' own position
	let Ok(listener) = manager.add_listener(mint::Vector3 { x: 0.0f32, y: 0.0, z: 0.0 }, mint::Quaternion { v: mint::Vector3 { x: 0.0f32, y: 0.0, z: 0.0 }, s: 1.0 }) else {
		return res;
	};
	let mut clock = manager.add_clock(kira::clock::ClockSpeed::TicksPerSecond(sr as f64 / case.ibs as f64 / 4.0)).ok();
	let clock_id = clock.as_ref().map(|c| c.id());
	let mut clock_started = false;
	let mut clock_dropped_gap: Option<u64> = None;
	let mut tracks: Vec<MT> = vec![];
	let mut sounds: Vec<MS> = vec![];
	let mut cb = 0u64;
	let mut out = Vec::new();
	let slack = 2.0 * case.ibs as f64 / sr as f64 + 1e-9;
	let mut next_id = 1u32;
	let mut freeze_checks = 0u64;
	let mut removal_checks = 0u64;

	'ops: for (oi, op) in case.ops.iter().enumerate() {
		match op {
			Op::AddTrack { parent, persist, spatial } => {
				let parent = parent.filter(|p| tracks.get(*p).map(|t| t.handle.is_some()).unwrap_or(false));
				let (r, fx) = if *spatial {
					res.hit("spatial_tracks");
					let mut b = SpatialTrackBuilder::new().sound_capacity(32).sub_track_capacity(16).persist_until_sounds_finish(*persist);
					let fx = b.add_effect(ProbeEffectBuilder { gain: 1.0, offset: (0.0, 0.0) });
					let (lid, pos) = (listener.id(), mint::Vector3 { x: 0.0f32, y: 0.0, z: 0.0 });
					let r = match parent {
						None => manager.add_spatial_sub_track(lid, pos, b).map(AnyTrack::Spatial),
						Some(p) => tracks[p].handle.as_mut().unwrap().add_spatial_sub_track(lid, pos, b),
					};
					(r, fx)
				} else {
					let mut b = TrackBuilder::new().sound_capacity(32).sub_track_capacity(16).persist_until_sounds_finish(*persist);
					let fx = b.add_effect(ProbeEffectBuilder { gain: 1.0, offset: (0.0, 0.0) });
					let r = match parent {
						None => manager.add_sub_track(b).map(AnyTrack::Plain),
						Some(p) => tracks[p].handle.as_mut().unwrap().add_sub_track(b),
					};
					(r, fx)
				};
				match r {
					Ok(h) => tracks.push(MT {
						parent,
						persist: *persist,
						handle: Some(h),
						fx,
						first_cb: cb,
						marked_gap: None,
						clear_since: None,
						pause: PauseM::Running { settle: f64::NEG_INFINITY },
						local_lo: 0.0,
						local_hi: 0.0,
						run_lo: 0.0,
						run_hi: 0.0,
						calls: vec![],
						gone: false,
					}),
					Err(_) => {
						// keep indices stable
						tracks.push(MT {
							parent,
							persist: false,
							handle: None,
							fx,
							first_cb: u64::MAX - 8,
							marked_gap: Some(0),
							clear_since: Some(0),
							pause: PauseM::Running { settle: f64::NEG_INFINITY },
							local_lo: 0.0,
							local_hi: 0.0,
							run_lo: 0.0,
							run_hi: 0.0,
							calls: vec![],
							gone: true,
						});
					}
				}
			}
			Op::PlayProbe { track, finish_after } => {
				let Some(t) = tracks.get_mut(*track) else { continue };
				let Some(h) = t.handle.as_mut() else { continue };
				let id = next_id;
				next_id += 1;
				if let Ok(p) = h.play(ProbeSoundData {
					id,
					amp: 0.01,
					finish_after: finish_after.unwrap_or(u64::MAX),
				}) {
					sounds.push(MS {
						track: *track,
						probe: Some(p),
						stat: None,
						delay: 0.0,
						first_cb: cb,
						stop_gap: None,
						finish_after: *finish_after,
						emitted: 0,
						played_at_lo: t.run_lo,
						played_at_hi: t.run_hi,
						calls: vec![],
						last_pos: 0.0,
						frozen_streak: 0,
						finished_before: None,
					});
				}
			}
			Op::PlayDelayed { track, delay } => {
				let Some(t) = tracks.get_mut(*track) else { continue };
				let Some(h) = t.handle.as_mut() else { continue };
				let data = static_data(
					&DataSpec {
						len: 4000,
						sample_rate: sr,
						signal: Signal::Dc(0.01),
					},
					None,
					&SoundSettingsSpec {
						start: StartSpec::Delayed(*delay),
						..Default::default()
					},
					&NoResolver,
				);
				if let Ok(sh) = h.play(data) {
					sounds.push(MS {
						track: *track,
						probe: None,
						stat: Some(sh),
						delay: std::time::Duration::from_secs_f64(*delay).as_secs_f64(),
						first_cb: cb,
						stop_gap: None,
						finish_after: None,
						emitted: 0,
						played_at_lo: t.run_lo,
						played_at_hi: t.run_hi,
						calls: vec![],
						last_pos: 0.0,
						frozen_streak: 0,
						finished_before: None,
					});
				}
			}
			Op::StopSound { sound } => {
				if let Some(s) = sounds.get_mut(*sound) {
					if let (Some(p), None) = (&s.probe, s.stop_gap) {
						p.stop.store(true, Ordering::SeqCst);
						s.stop_gap = Some(cb);
						// finished() is true from the next on_start_processing on: removed there,
						// or one callback later if it had not been picked up yet
						if s.finished_before.is_none() {
							s.finished_before = Some(cb.max(s.first_cb + 1));
						}
					}
				}
			}
			Op::DropTrack { track } => {
				if let Some(t) = tracks.get_mut(*track) {
					if t.handle.take().is_some() {
						t.marked_gap = Some(cb);
					}
				}
			}
			Op::Pause { track, tween } => {
				if let Some(t) = tracks.get_mut(*track) {
					if let Some(h) = t.handle.as_mut() {
						h.pause(Tween {
							duration: dur(*tween),
							..Default::default()
						});
						t.pause = PauseM::Pausing {
							settle: t.local_hi.max(t.local_lo) + *tween + slack,
						};
					}
				}
			}
			Op::Resume { track, at, tween } => {
				let clock_alive = clock.is_some();
				if let Some(t) = tracks.get_mut(*track) {
					if let Some(h) = t.handle.as_mut() {
						let tw = Tween {
							duration: dur(*tween),
							..Default::default()
						};
						match at {
							ResumeAt::Now => {
								h.resume(tw);
								t.pause = PauseM::Running { settle: t.local_hi + *tween + slack };
							}
							ResumeAt::NowFadeDelayed(d) => {
								h.resume(Tween {
									start_time: StartTime::Delayed(dur(*d)),
									..tw
								});
								t.pause = PauseM::Running { settle: t.local_hi + *d + *tween + slack };
							}
							ResumeAt::Delayed(d) => {
								h.resume_at(StartTime::Delayed(dur(*d)), tw);
								t.pause = PauseM::Waiting {
									wake_lo: t.local_lo + *d - 1e-9,
									wake_hi: t.local_hi + *d + slack,
									tween: *tween,
									clock: None,
								};
							}
							ResumeAt::Clock(ticks) => {
								if let (Some(id), true) = (clock_id, clock_alive) {
									h.resume_at(
										StartTime::ClockTime(kira::clock::ClockTime {
											clock: id,
											ticks: *ticks,
											fraction: 0.0,
										}),
										tw,
									);
									t.pause = PauseM::Waiting {
										wake_lo: f64::INFINITY,
										wake_hi: f64::INFINITY,
										tween: *tween,
										clock: Some(*ticks),
									};
								}
							}
						}
					}
				}
			}
			Op::StartClock => {
				if let Some(c) = clock.as_mut() {
					c.start();
					clock_started = true;
				}
			}
			Op::DropClock => {
				if clock.take().is_some() {
					clock_dropped_gap = Some(cb);
				}
			}
			Op::Callback { frames } => {
				let frames = *frames;
				CURRENT_CALLBACK.store(cb, Ordering::SeqCst);
				let rep = device.callback(frames, 2, &mut out);
				if let Some(p) = rep.panic {
					res.fail(Violation::new("panic", format!("audio-panic: {}", panic_signature(&p)), format!("op {oi} (callback {cb}): {p}")));
					break 'ops;
				}
				for s in &out {
					trace.f32(*s);
				}
				let secs = frames as f64 / sr as f64;
				for t in tracks.iter_mut() {
					t.calls = t.fx.take_calls();
				}
				for s in sounds.iter_mut() {
					if let Some(p) = &s.probe {
						s.calls = p.take_calls();
					}
				}
				let nchunks = frames.div_ceil(case.ibs);
				// ---- what keeps each track alive at the start of this callback -----------
				let n = tracks.len();
				// unfinished sounds per track (probe sounds only count while not finished)
				let mut unfinished = vec![false; n];
				for s in sounds.iter() {
					if s.first_cb > cb {
						continue;
					}
					let finished = match (&s.probe, s.finished_before) {
						(_, Some(f)) => f <= cb,
						(None, None) => false,
						_ => false,
					};
					if !finished {
						unfinished[s.track] = true;
					}
				}
				let marked = |t: &MT| t.marked_gap.map(|g| g <= cb).unwrap_or(false);
				let mut must_stay = vec![false; n];
				for ti in (0..n).rev() {
					let t = &tracks[ti];
					if t.gone || t.first_cb > cb {
						continue;
					}
					let mut stay = !marked(t) || (t.persist && unfinished[ti]);
					for ci in 0..n {
						if tracks[ci].parent == Some(ti) && !tracks[ci].gone && must_stay[ci] {
							stay = true;
						}
					}
					must_stay[ti] = stay;
				}
				for ti in 0..n {
					if !tracks[ti].gone && tracks[ti].first_cb <= cb {
						if must_stay[ti] {
							tracks[ti].clear_since = None;
						} else if tracks[ti].clear_since.is_none() {
							tracks[ti].clear_since = Some(cb);
						}
					}
				}
				// ---- pause model per track ---------------------------------------------
				// (lo = surely advancing, hi = possibly advancing) during this callback
				let mut adv_lo = vec![false; n];
				let mut adv_hi = vec![false; n];
				// could the clock have reached the tick by now? (generous: any started clock that is
				// still owned by the audio thread - a dropped clock is removed at the next callback,
				// the one after if it had not been picked up yet)
				let clock_reached = |_ticks: u64| -> bool { clock_started && clock_dropped_gap.map(|d| cb <= d.max(1)).unwrap_or(true) };
				for ti in 0..n {
					let parent_lo = tracks[ti].parent.map(|p| adv_lo[p]).unwrap_or(true);
					let parent_hi = tracks[ti].parent.map(|p| adv_hi[p]).unwrap_or(true);
					let t = &mut tracks[ti];
					if t.gone || t.first_cb > cb {
						continue;
					}
					if let PauseM::Waiting { wake_lo, wake_hi, tween, clock: c } = t.pause {
						// woken for sure?
						let woke_surely = match c {
							None => t.local_lo >= wake_hi,
							Some(_) => false,
						};
						if woke_surely {
							t.pause = PauseM::Running { settle: t.local_hi + tween + slack };
						} else {
							let _ = wake_lo;
						}
					}
					let (self_lo, self_hi) = match t.pause {
						PauseM::Running { .. } => (true, true),
						PauseM::Pausing { settle } => (false, !(t.local_lo >= settle)),
						PauseM::Waiting { wake_lo, clock: c, .. } => match c {
							None => (false, t.local_hi + secs >= wake_lo),
							Some(ticks) => (false, clock_reached(ticks)),
						},
					};
					// the track's own timers run whenever its parent chain is advancing
					if parent_lo {
						t.local_lo += secs;
					}
					if parent_hi {
						t.local_hi += secs;
					}
					adv_lo[ti] = parent_lo && self_lo;
					adv_hi[ti] = parent_hi && self_hi;
					if adv_lo[ti] {
						t.run_lo += secs;
					}
					if adv_hi[ti] {
						t.run_hi += secs;
					}
				}
				// ---- expectations and checks ---------------------------------------------
				for ti in 0..n {
					let t = &tracks[ti];
					if t.first_cb > cb {
						continue;
					}
					// removal: processed as long as something keeps it alive, gone two callbacks after nothing does
					let ancestors_stay = {
						let mut ok = true;
						let mut p = t.parent;
						while let Some(pi) = p {
							if tracks[pi].gone || !must_stay[pi] {
								ok = false;
							}
							p = tracks[pi].parent;
						}
						ok
					};
					let ancestors_gone = {
						let mut g = false;
						let mut p = t.parent;
						while let Some(pi) = p {
							if tracks[pi].gone {
								g = true;
							}
							p = tracks[pi].parent;
						}
						g
					};
					// the parent processes its sub-tracks only while it is advancing itself
					let parent_lo = t.parent.map(|p| adv_lo[p]).unwrap_or(true);
					let parent_hi = t.parent.map(|p| adv_hi[p]).unwrap_or(true);
					let expect = if t.gone || ancestors_gone {
						Expect::None
					} else if t.clear_since.map(|g| cb >= g.max(t.first_cb) + 2).unwrap_or(false) {
						Expect::None
					} else if must_stay[ti] && ancestors_stay && parent_lo {
						// processed: its effect runs iff the track itself is advancing
						if adv_lo[ti] {
							Expect::Full
						} else if adv_hi[ti] {
							Expect::Either
						} else {
							Expect::None
						}
					} else if !parent_hi || !adv_hi[ti] {
						Expect::None
					} else {
						Expect::Either
					};
					let ncalls = t.calls.len();
					match expect {
						Expect::Full if ncalls != nchunks => {
							let why = if t.marked_gap.is_none() {
								"its handle is alive"
							} else if t.persist && unfinished[ti] {
								"it persists until its sounds finish and has an unfinished sound"
							} else {
								"a descendant track is alive"
							};
							res.fail(Violation::new(
								"removal-rules",
								if ncalls == 0 { "track-removed-or-frozen-while-it-must-play" } else { "track-processed-partially" },
								format!("op {oi} (callback {cb}): track {ti} was processed for {ncalls} of {nchunks} internal buffers although {why} and nothing above it is paused"),
							));
							break 'ops;
						}
						Expect::None if ncalls != 0 => {
							let why = if t.gone || ancestors_gone || t.clear_since.is_some() && !matches!(t.pause, PauseM::Pausing { .. }) {
								"it should have been removed (handle dropped, no live descendant, no unfinished persistent sound) two callbacks ago"
							} else {
								"it, or a track above it, is paused"
							};
							res.fail(Violation::new(
								"freeze-or-removal",
								if why.starts_with("it should") { "track-not-removed" } else { "processed-while-paused" },
								format!("op {oi} (callback {cb}): track {ti} was processed ({ncalls} internal buffers) although {why}"),
							));
							break 'ops;
						}
						_ => {}
					}
					// a track waiting for a clock time has resumed once it is seen being processed
					if let (PauseM::Waiting { tween, clock: Some(_), .. }, true, Expect::Either) = (t.pause, ncalls > 0, expect) {
						let settle = t.local_hi + tween + slack;
						tracks[ti].pause = PauseM::Running { settle };
					}
					let t = &tracks[ti];
					if expect == Expect::None && t.clear_since.is_some() {
						removal_checks += 1;
					}
					if expect == Expect::None && t.clear_since.is_none() {
						freeze_checks += 1;
					}
				}
				// mark tracks as gone once they have certainly been removed
				for ti in 0..n {
					if let Some(g) = tracks[ti].clear_since {
						if cb >= g.max(tracks[ti].first_cb) + 2 {
							tracks[ti].gone = true;
						}
					}
				}
				// sounds: a probe sound is asked iff its track is processed and advancing
				for s in sounds.iter_mut() {
					if s.first_cb > cb {
						continue;
					}
					let t = &tracks[s.track];
					let track_calls = t.calls.len();
					if let Some(_p) = &s.probe {
						let already_finished = s.finished_before.map(|f| f <= cb).unwrap_or(false);
						let n_calls = s.calls.len();
						if already_finished {
							if n_calls != 0 {
								res.fail(Violation::new("removal-rules", "finished-sound-still-processed", format!("op {oi} (callback {cb}): a sound that finished before the previous callback was processed again")));
								break 'ops;
							}
						} else if n_calls != track_calls {
							res.fail(Violation::new(
								"freeze-or-removal",
								"sound-and-track-disagree",
								format!("op {oi} (callback {cb}): track {} ran its effects for {track_calls} internal buffers but its sound was asked {n_calls} times", s.track),
							));
							break 'ops;
						}
						let add: u64 = s.calls.iter().map(|c| c.len as u64).sum();
						s.emitted += add;
						if s.finished_before.is_none() {
							let done = s.finish_after.map(|f| s.emitted >= f).unwrap_or(false);
							if done {
								// finished() is true from the next on_start_processing on
								s.finished_before = Some(cb + 1);
							}
						}
					}
					if let Some(h) = &s.stat {
						let pos = h.position();
						let t_lo = t.run_lo - s.played_at_hi;
						let t_hi = t.run_hi - s.played_at_lo;
						// start delays do not count while the subtree is frozen
						if pos > 0.0 && t_hi + slack < s.delay {
							res.fail(Violation::new(
								"freeze",
								"start-delay-advanced-while-frozen",
								format!("op {oi} (callback {cb}): a sound with a start delay of {:.4}s has started although its track has been running for at most {:.4}s since it was played", s.delay, t_hi),
							));
							break 'ops;
						}
						if pos == 0.0 && t_lo > s.delay + 2.0 * slack + secs && track_calls > 0 && !t.gone && s.last_pos == 0.0 && adv_lo[s.track] {
							res.fail(Violation::new(
								"freeze",
								"delayed-sound-never-started",
								format!("op {oi} (callback {cb}): a sound with a start delay of {:.4}s has not started although its track has been running for at least {:.4}s", s.delay, t_lo),
							));
							break 'ops;
						}
						// position frozen while the track is surely not advancing, no jumps otherwise
						// (the position is published at the start of a callback and so still moves once
						// at the first frozen callback)
						if track_calls == 0 && !adv_hi[s.track] {
							s.frozen_streak += 1;
						} else {
							s.frozen_streak = 0;
						}
						if s.frozen_streak >= 2 && pos != s.last_pos {
							res.fail(Violation::new("freeze", "position-advanced-while-frozen", format!("op {oi} (callback {cb}): a static sound's position moved from {} to {pos} while its track is frozen", s.last_pos)));
							break 'ops;
						}
						if pos < s.last_pos - 1e-9 || pos > s.last_pos + 2.0 * secs + 2.0 * slack {
							res.fail(Violation::new("freeze", "position-jumped", format!("op {oi} (callback {cb}): a static sound's position jumped from {} to {pos}", s.last_pos)));
							break 'ops;
						}
						s.last_pos = pos;
						// a static sound that has played to its end finishes like any other
						if s.finished_before.is_none() && h.state() == kira::sound::PlaybackState::Stopped {
							s.finished_before = Some(cb + 1);
						}
					}
				}
				// ---- state read from the handles -----------------------------------------
				for ti in 0..n {
					let t = &tracks[ti];
					let Some(h) = &t.handle else { continue };
					let st = monitor::catch(|| h.state());
					let st = match st {
						Ok(s) => s,
						Err(p) => {
							res.fail(Violation::new(
								"state",
								format!("state-query-panicked: {}", panic_signature(&p)),
								format!("op {oi} (callback {cb}): TrackHandle::state() of track {ti} panicked: {p}"),
							));
							break 'ops;
						}
					};
					trace.u64(st as u64);
					beh.u64(st as u64);
					let parent_lo = t.parent.map(|p| adv_lo[p]).unwrap_or(true);
					let _ = parent_lo;
					match t.pause {
						PauseM::Pausing { settle } if t.local_lo >= settle + secs && st != TrackPlaybackState::Paused => {
							res.fail(Violation::new("state", "not-paused-after-fade", format!("op {oi} (callback {cb}): track {ti} was paused and its fade is long over, but it reports {st:?}")));
							break 'ops;
						}
						PauseM::Running { settle } if t.local_lo >= settle + secs && st != TrackPlaybackState::Playing => {
							res.fail(Violation::new("state", "not-playing-after-resume", format!("op {oi} (callback {cb}): track {ti} was resumed and its fade is long over, but it reports {st:?}")));
							break 'ops;
						}
						_ => {}
					}
				}
				beh.u64(tracks.iter().filter(|t| !t.gone && t.first_cb <= cb).count() as u64);
				cb += 1;
			}
		}
	}
	res.count("freeze_checks", freeze_checks);
	res.count("removal_checks", removal_checks);
	res.count("tracks", tracks.len() as u64);
	res.callbacks = cb;
	res.nontrivial = freeze_checks + removal_checks > 0;
	drop(tracks);
	drop(sounds);
	drop(manager);
	res.behaviour_sig = beh.finish();
	res.trace_hash = trace.finish();
	res
}

pub struct C12;

impl Check for C12 {
	fn info(&self) -> CheckInfo {
		CheckInfo {
			id: "C12",
			level: "exploration",
			rule: "4% of the cases are scheduled (c12_sched.rs): a gameplay task adds child tracks / plays sounds on a parent and drops the parent's handle against an audio task running callbacks, judged at quiescence (a live child is still processed, an accepted sound on a persisting parent still played); or a reader task polls TrackHandle::state() while the audio task cancels a resume_at whose clock was removed; the others: each case = seeded history over {add (nested) track - plain or, a quarter of them, spatial at the listener's position - with persistence on / off, play a probe sound (optionally self-finishing), play a static sound with a start delay, stop a sound, drop one track handle (parents, children, in any order), pause with a fade, resume now / delayed / at a clock time / now with a fade-in tween that itself starts later, start / drop the clock, callback} at a seeded internal buffer size; non-trivial = at least one 'frozen' or 'removed' expectation was checked; distinct = hash of per-callback (states reported by the handles, live tracks)",
			assumptions: vec![
				"a track's own timers (pause fade, resume delay) run only while every track above it is advancing; the model keeps a lower and an upper bound of that local time and only demands what both bounds agree on".into(),
				"removal is demanded two callbacks after nothing keeps the track alive (one for pick-up, one for the removal of finished sounds); until then either outcome is accepted".into(),
				"pause and resume of one track are issued in the same gap only in that order (a resume followed by a pause would be read pause-first by the audio thread: the order of different command kinds within one gap is not transmitted)".into(),
			],
			components: vec![
				("Track (pause / resume / should_be_removed / on_start_processing order), TrackHandle, TrackShared, PlaybackStateManager, Mixer, StaticSound start delay", "real"),
				("sounds and effects", "stub (probe Sound / Effect on the public traits) + real static sounds"),
				("audio device", "stub (SimBackend)"),
			],
		}
	}
	fn num_cases(&self, tier: Tier) -> u64 {
		match tier {
			Tier::Quick => 400_000,
			Tier::Thorough => 8_000_000,
		}
	}
	fn case(&self, tier: Tier, seed: u64, index: u64) -> Json {
		serde_json::to_value(gen_case(derive_seed(seed, 12, index), tier)).unwrap()
	}
	fn run(&self, case: &Json) -> CaseResult {
		let case: Case = serde_json::from_value(case.clone()).expect("malformed C12 case");
		run_case(&case)
	}
	fn shrink(&self, case: &Json) -> Vec<Json> {
		let c: Case = serde_json::from_value(case.clone()).unwrap();
		if let Some(sc) = &c.sched {
			let mut out = vec![];
			let mut push = |sc2: super::c12_sched::SchedCase| {
				out.push(serde_json::to_value(Case { sched: Some(sc2), ..c.clone() }).unwrap());
			};
			for k in 0..sc.steps.len() {
				if sc.steps[k] != 2 {
					let mut s2 = sc.clone();
					s2.steps.remove(k);
					push(s2);
				}
			}
			if sc.warm > 0 {
				push(super::c12_sched::SchedCase { warm: 0, ..sc.clone() });
			}
			if sc.callbacks > 1 {
				push(super::c12_sched::SchedCase { callbacks: sc.callbacks - 1, ..sc.clone() });
			}
			if sc.switch_prob > 0.1 {
				push(super::c12_sched::SchedCase { switch_prob: 0.1, ..sc.clone() });
			}
			return out;
		}
		shrink_ops_array(case, "ops")
	}
}
