//! C16 - seconds and hertz mean the same at every device sample rate and across changes.
//!
//! Stream "rate-in-force": tracks (nested, send, main) with rate-probe effects
//! are created in every order relative to sample-rate changes and callbacks
//! (including a track built before the change but picked up after it); at every
//! `process` call the rate the effect was last told must equal 1/dt.
//! Stream "sched": the same with the add-track paths preempted between reading
//! the shared sample rate and enqueueing the track, against a device task that
//! changes the rate and runs callbacks.
//! Stream "seconds": twin worlds at different device rates (one changes its rate
//! mid-stream) run one scene described in seconds: a finite sound, a clock, a
//! volume tween, a delay echo; durations and event times must agree in seconds.

use std::sync::{Arc, Mutex};

use kira::{
	track::{MainTrackBuilder, SendTrackBuilder, TrackBuilder, TrackHandle},
	AudioManager, AudioManagerSettings,
};
use serde::{Deserialize, Serialize};
use serde_json::Value as Json;

use crate::{
	backend::{SimBackend, SimBackendSettings},
	core::*,
	known,
	monitor::{self, panic_signature, Role},
	probes::*,
	rng::{derive_seed, Hasher64, Rng},
	sched::Sim,
	spec::*,
	world::*,
};

#[derive(Clone, Copy, Debug, Serialize, Deserialize, PartialEq)]
pub enum ROp {
	AddTrack {
		parent: Option<usize>,
		/// the track persists until its sounds have finished
		#[serde(default)]
		persist: bool,
		/// a plain group track without an effect of its own (what is below it still has to hear about
		/// every rate change)
		#[serde(default)]
		bare: bool,
	},
	/// play a short sound on the i-th track (keeps a persisting track alive after its handle is gone)
	PlayOn(usize),
	AddSend,
	ChangeRate(u32),
	Callback(usize),
	/// drop the handle of the i-th track (it lives on while a track below it is alive)
	DropTrack(usize),
}

#[derive(Clone, Debug, Serialize, Deserialize)]
pub enum Stream {
	/// a click through a reverb at two device rates: the delay between the first reflection in the
	/// left and in the right channel is a time, not a number of frames
	Reverb { rates: [u32; 2], ibs: usize },
	/// rate-history independence: the same scene at rate r2 from the start, and at r1 changing to
	/// r2 after some silent callbacks; from the change on both must render the same audio
	History { r1: u32, r2: u32, effects: Vec<EffectSpec>, on_main: bool, ibs: usize, warm: usize, noise_seed: u64 },
	Orders { ops: Vec<ROp> },
	Sched { adds: usize, device: Vec<ROp>, switch_prob: f64 },
	Seconds { rates: Vec<u32>, change_at: f64, change_to: u32, sound_rate: u32, sound_len: usize, playback_rate: f64, clock_tps: f64, tween_secs: f64, delay_secs: f64, ibs: usize },
}

#[derive(Clone, Debug, Serialize, Deserialize)]
pub struct Case {
	pub seed: u64,
	pub initial_rate: u32,
	pub stream: Stream,
}

const RATES: [u32; 7] = [8000, 11_025, 22_050, 44_100, 48_000, 96_000, 192_000];

fn gen_case(seed: u64, index: u64, tier: Tier) -> Case {
	let mut rng = Rng::new(seed);
	let initial_rate = *rng.pick(&RATES);
	let stale_ok = !known::is_open("C16-stale-rate-on-queued-track");
	let stream = match if index % 16 == 11 {
		9
	} else if index % 8 == 5 {
		8
	} else {
		index % 4
	} {
		8 => {
			const HI: [u32; 5] = [44_100, 48_000, 88_200, 96_000, 192_000];
			let r2 = *rng.pick(&HI);
			let mut r1 = *rng.pick(&HI);
			if r1 == r2 {
				r1 = if r2 == 48_000 { 96_000 } else { 48_000 };
			}
			let noise_seed = rng.next_u64();
			let ibs = *rng.pick(&[16usize, 64, 128]);
			let warm = rng.urange(1, 4);
			let on_main = rng.chance(0.3);
			let mut g = crate::gen::G::new(&mut rng, crate::gen::Tiers { t1: 0.0, t2: 0.0 });
			let mut effects: Vec<EffectSpec> = (0..g.rng.urange(1, 3)).map(|_| super::c11::fixed_effect(&mut g, 0, 44_100)).collect();
			// a delay of less than a frame (one frame of line at every rate) around a filter: the
			// nested effect must hear about the new rate although the line keeps its length
			if g.rng.chance(0.25) {
				effects.push(EffectSpec::Delay {
					time: 0.000_001,
					feedback: Val::Fixed(Db(-6.0)),
					mix: Val::Fixed(MixS(0.5)),
					feedback_effects: vec![EffectSpec::Filter {
						mode: FilterModeS::LowPass,
						cutoff: Val::Fixed(g.rng.frange(300.0, 3000.0)),
						resonance: Val::Fixed(0.1),
						mix: Val::Fixed(MixS(1.0)),
					}],
				});
			}
			Stream::History { r1, r2, effects, on_main, ibs, warm, noise_seed }
		}
		9 => {
			let a = *rng.pick(&RATES);
			let mut b = *rng.pick(&RATES);
			if b == a {
				b = if a == 48_000 { 8_000 } else { 48_000 };
			}
			Stream::Reverb {
				rates: [a, b],
				ibs: *rng.pick(&[16usize, 64, 128]),
			}
		}
		0 | 1 => {
			let n = rng.urange(3, if tier == Tier::Quick { 14 } else { 40 });
			let mut ops = vec![];
			let mut nt = 0usize;
			let mut pending_add = false; // a track was added since the last callback
			while ops.len() < n {
				let op = match rng.below(10) {
					0..=3 => {
						nt += 1;
						pending_add = true;
						ROp::AddTrack {
							parent: if nt > 1 && rng.chance(0.5) { Some(rng.usize_below(nt - 1)) } else { None },
							persist: rng.chance(0.4),
							bare: rng.chance(0.3),
						}
					}
					8 if nt > 0 => ROp::PlayOn(rng.usize_below(nt)),
					4 => {
						pending_add = true;
						ROp::AddSend
					}
					5 | 6 => {
						if pending_add && !stale_ok {
							// known finding open: do not change the rate while a track is still queued
							continue;
						}
						ROp::ChangeRate(*rng.pick(&RATES))
					}
					7 if nt > 0 && rng.chance(0.6) => ROp::DropTrack(rng.usize_below(nt)),
					_ => {
						pending_add = false;
						ROp::Callback(rng.urange(1, 200))
					}
				};
				ops.push(op);
			}
			ops.push(ROp::Callback(32));
			ops.push(ROp::Callback(32));
			Stream::Orders { ops }
		}
		2 => {
			let mut device = vec![];
			for _ in 0..rng.urange(2, 6) {
				if rng.chance(0.5) && stale_ok {
					device.push(ROp::ChangeRate(*rng.pick(&RATES)));
				}
				device.push(ROp::Callback(rng.urange(1, 40)));
			}
			Stream::Sched {
				adds: rng.urange(1, 5),
				device,
				switch_prob: *rng.pick(&[0.03, 0.1, 0.3, 0.6, 0.9]),
			}
		}
		_ => {
			let mut rates: Vec<u32> = vec![*rng.pick(&RATES), *rng.pick(&RATES)];
			rates.push(*rng.pick(&RATES)); // the third world changes its rate mid-stream
			Stream::Seconds {
				rates,
				change_at: rng.frange(0.01, 0.2),
				change_to: *rng.pick(&RATES),
				sound_rate: *rng.pick(&[8000u32, 22_050, 44_100, 48_000]),
				sound_len: rng.urange(200, 6000),
				playback_rate: *rng.pick(&[1.0, 0.5, 2.0, 1.37]),
				clock_tps: *rng.pick(&[10.0, 33.3, 120.0]),
				tween_secs: rng.frange(0.01, 0.15),
				delay_secs: rng.frange(0.005, 0.05),
				ibs: *rng.pick(&[16usize, 64, 128, 256]),
			}
		}
	};
	Case { seed, initial_rate, stream }
}

struct Probed {
	name: String,
	shared: Arc<ProbeShared>,
}

fn check_probe(p: &Probed, expect_rate_for_call: impl Fn(&Call) -> Option<u32>, res: &mut CaseResult, checked: &mut u64) {
	for c in p.shared.take_calls() {
		let by_dt = (1.0 / c.dt).round() as u32;
		if c.told_rate != by_dt {
			res.fail(Violation::new(
				"rate-in-force",
				if c.told_rate == 0 { "effect-never-initialised" } else { "effect-has-stale-sample-rate" },
				format!(
					"{}: processed with dt = 1/{by_dt} in callback {} but the last sample rate it was told (init / on_change_sample_rate) is {} (history {:?})",
					p.name,
					c.callback,
					c.told_rate,
					p.shared.init_rate.lock().unwrap()
				),
			));
			return;
		}
		if let Some(r) = expect_rate_for_call(&c) {
			if by_dt != r {
				res.fail(Violation::new("rate-in-force", "dt-does-not-match-device-rate", format!("{}: dt = 1/{by_dt} but the device runs at {r}", p.name)));
				return;
			}
		}
		*checked += 1;
	}
}

fn probe_fx() -> ProbeEffectBuilder {
	ProbeEffectBuilder { gain: 1.0, offset: (0.0, 0.0) }
}

fn run_orders(case: &Case, ops: &[ROp]) -> CaseResult {
	let mut res = CaseResult::default();
	let mut trace = Hasher64::new();
	let mut beh = Hasher64::new();
	let mut probes: Vec<Probed> = vec![];
	let mut mb = MainTrackBuilder::new();
	probes.push(Probed {
		name: "main track effect".into(),
		shared: mb.add_effect(probe_fx()),
	});
	let rate0 = case.initial_rate;
	let manager = monitor::catch(move || {
		AudioManager::<SimBackend>::new(AudioManagerSettings {
			main_track_builder: mb,
			internal_buffer_size: 64,
			backend_settings: SimBackendSettings { sample_rate: rate0 },
			..Default::default()
		})
		.unwrap()
	});
	let Ok(mut manager) = manager else { return res };
	let device = manager.backend_mut().device.clone();
	let mut tracks: Vec<Option<TrackHandle>> = vec![];
	let mut sends = vec![];
	let mut rate = case.initial_rate;
	let mut cb = 0u64;
	let mut out = Vec::new();
	let mut checked = 0u64;
	let mut rate_per_cb: Vec<u32> = vec![];
	for (oi, op) in ops.iter().enumerate() {
		match op {
			ROp::PlayOn(i) => {
				if let Some(Some(t)) = tracks.get_mut(*i) {
					let data = kira::sound::static_sound::StaticSoundData {
						sample_rate: 8000,
						frames: vec![kira::Frame::from_mono(0.1); 300].into(),
						settings: Default::default(),
						slice: None,
					};
					if t.play(data).is_ok() {
						res.hit("sounds_played_on_tracks");
					}
				}
			}
			ROp::AddTrack { parent, persist, bare } => {
				let mut b = TrackBuilder::new().sub_track_capacity(8).persist_until_sounds_finish(*persist);
				let shared = if *bare {
					// (the probe is built but not attached: nothing is ever logged for it)
					TrackBuilder::new().add_effect(probe_fx())
				} else {
					b.add_effect(probe_fx())
				};
				let parent = parent.filter(|p| tracks.get(*p).map(|t| t.is_some()).unwrap_or(false));
				let r = match parent {
					None => manager.add_sub_track(b),
					Some(p) => tracks[p].as_mut().unwrap().add_sub_track(b),
				};
				match r {
					Ok(h) => {
						probes.push(Probed {
							name: format!("effect on track {} (added by op {oi}, parent {:?})", tracks.len(), parent),
							shared,
						});
						tracks.push(Some(h));
					}
					Err(_) => tracks.push(None),
				}
			}
			ROp::DropTrack(i) => {
				if let Some(t) = tracks.get_mut(*i) {
					if t.take().is_some() {
						res.hit("track_handles_dropped");
					}
				}
			}
			ROp::AddSend => {
				let mut b = SendTrackBuilder::new();
				let shared = b.add_effect(probe_fx());
				if let Ok(h) = manager.add_send_track(b) {
					probes.push(Probed {
						name: format!("effect on send track {} (added by op {oi})", sends.len()),
						shared,
					});
					sends.push(h);
				}
			}
			ROp::ChangeRate(hz) => {
				if let Some(p) = device.change_sample_rate(*hz) {
					res.fail(Violation::new("panic", format!("audio-panic: {}", panic_signature(&p)), p));
					break;
				}
				rate = *hz;
			}
			ROp::Callback(frames) => {
				CURRENT_CALLBACK.store(cb, std::sync::atomic::Ordering::SeqCst);
				rate_per_cb.push(rate);
				let rep = device.callback(*frames, 2, &mut out);
				if let Some(p) = rep.panic {
					res.fail(Violation::new("panic", format!("audio-panic: {}", panic_signature(&p)), p));
					break;
				}
				let r = rate;
				for p in &probes {
					check_probe(p, |_| Some(r), &mut res, &mut checked);
					if res.violation.is_some() {
						break;
					}
				}
				if res.violation.is_some() {
					break;
				}
				trace.u64(rate as u64);
				beh.u64(rate as u64);
				beh.u64(probes.len() as u64);
				cb += 1;
			}
		}
	}
	res.count("effect_process_calls_checked", checked);
	res.callbacks = cb;
	res.nontrivial = checked > 1;
	res.behaviour_sig = beh.finish();
	res.trace_hash = trace.finish();
	res
}

fn run_sched(case: &Case, adds: usize, device_ops: &[ROp], switch_prob: f64) -> CaseResult {
	let mut res = CaseResult::default();
	let sim = Sim::new(case.seed);
	sim.set_random_params(switch_prob, 0.05, 40_000);
	let rate0 = case.initial_rate;
	let manager = monitor::catch(move || {
		AudioManager::<SimBackend>::new(AudioManagerSettings {
			internal_buffer_size: 16,
			backend_settings: SimBackendSettings { sample_rate: rate0 },
			..Default::default()
		})
		.unwrap()
	});
	let Ok(mut manager) = manager else {
		sim.shutdown();
		return res;
	};
	let device = manager.backend_mut().device.clone();
	let probes: Arc<Mutex<Vec<Probed>>> = Arc::new(Mutex::new(vec![]));
	let keep: Arc<Mutex<Vec<TrackHandle>>> = Arc::new(Mutex::new(vec![]));
	let manager = Arc::new(Mutex::new(Some(manager)));
	{
		let (probes, keep, manager) = (probes.clone(), keep.clone(), manager.clone());
		sim.spawn_task(
			"gameplay",
			Role::Gameplay,
			Box::new(move || {
				let mut g = manager.lock().unwrap();
				let m = g.as_mut().unwrap();
				for i in 0..adds {
					let mut b = TrackBuilder::new().sub_track_capacity(4);
					let shared = b.add_effect(probe_fx());
					// alternately at the top level and nested
					let nested = i % 2 == 1 && !keep.lock().unwrap().is_empty();
					let r = if nested {
						let mut k = keep.lock().unwrap();
						let last = k.len() - 1;
						k[last].add_sub_track(b)
					} else {
						m.add_sub_track(b)
					};
					if let Ok(h) = r {
						probes.lock().unwrap().push(Probed {
							name: format!("effect on track added concurrently (#{i}, nested {nested})"),
							shared,
						});
						keep.lock().unwrap().push(h);
					}
					kira::verif::yield_point("gameplay.between_adds");
				}
			}),
		);
	}
	{
		let dev_ops = device_ops.to_vec();
		let dev = device.clone();
		sim.spawn_task(
			"device",
			Role::Audio,
			Box::new(move || {
				let mut out = Vec::new();
				for op in dev_ops {
					match op {
						ROp::ChangeRate(hz) => {
							let _ = dev.change_sample_rate(hz);
						}
						ROp::Callback(f) => {
							let r = dev.callback(f, 2, &mut out);
							if let Some(p) = r.panic {
								panic!("{p}");
							}
						}
						_ => {}
					}
					kira::verif::yield_point("device.between_ops");
				}
			}),
		);
	}
	sim.run_random();
	// everything has been picked up after two more callbacks
	let mut out = Vec::new();
	for _ in 0..2 {
		let _ = device.callback(8, 2, &mut out);
	}
	let mut checked = 0u64;
	for p in probes.lock().unwrap().iter() {
		check_probe(p, |_| None, &mut res, &mut checked);
		if res.violation.is_some() {
			break;
		}
	}
	for (role, name, msg) in sim.take_panics() {
		res.fail(Violation::new("panic", format!("task-panic: {}", panic_signature(&msg)), format!("{role:?} task {name}: {msg}")));
	}
	res.count("effect_process_calls_checked", checked);
	res.count("context_switches", sim.switches());
	res.inconclusive = sim.capped();
	res.nontrivial = checked > 0;
	let mut trace = Hasher64::new();
	trace.u64(sim.trace_hash());
	let mut beh = Hasher64::new();
	beh.u64(sim.trace_hash());
	keep.lock().unwrap().clear();
	*manager.lock().unwrap() = None;
	drop(device);
	sim.shutdown();
	res.behaviour_sig = beh.finish();
	res.trace_hash = trace.finish();
	res
}

#[derive(Debug, Clone, Default)]
struct Measured {
	sound_end: Option<f64>,
	clock_ticks_at: Vec<(f64, f64)>,
	tween_done: Option<f64>,
	echo_delay: Option<f64>,
	/// level of the 1200 Hz tone behind the 300 Hz low-pass, late in the run
	tone_rms: f64,
}

#[allow(clippy::too_many_arguments)]
fn run_seconds(
	case: &Case,
	rates: &[u32],
	change_at: f64,
	change_to: u32,
	sound_rate: u32,
	sound_len: usize,
	playback_rate: f64,
	clock_tps: f64,
	tween_secs: f64,
	delay_secs: f64,
	ibs: usize,
) -> CaseResult {
	let mut res = CaseResult::default();
	let mut trace = Hasher64::new();
	let mut beh = Hasher64::new();
	let total_secs = 0.45f64;
	let mut results: Vec<(Measured, f64)> = vec![];
	for (wi, rate) in rates.iter().enumerate() {
		let changes = wi == rates.len() - 1;
		let cfg = WorldConfig {
			sample_rate: *rate,
			internal_buffer_size: ibs,
			..Default::default()
		};
		let Ok(mut w) = World::new(&cfg, None) else { return res };
		// track 0: the finite sound (duration). track 1: DC sound with a volume tween. track 2: impulse into a delay.
		for i in 0..4 {
			w.exec(&Op::AddTrack {
				parent: None,
				spec: TrackSpec {
					effects: if i == 3 {
						// a 300 Hz low-pass in front of a 1200 Hz tone: its attenuation is a
						// statement in hertz
						vec![EffectSpec::Filter {
							mode: FilterModeS::LowPass,
							cutoff: Val::Fixed(300.0),
							resonance: Val::Fixed(0.0),
							mix: Val::Fixed(MixS(1.0)),
						}]
					} else if i == 2 {
						vec![EffectSpec::Delay {
							time: delay_secs,
							// (the delayed signal is scaled by the feedback gain before it is output)
							feedback: Val::Fixed(Db(0.0)),
							mix: Val::Fixed(MixS(1.0)),
							feedback_effects: vec![],
						}]
					} else {
						vec![]
					},
					..Default::default()
				},
				spatial: None,
			});
		}
		w.exec(&Op::AddClock {
			speed: Val::Fixed(Speed::TicksPerSecond(clock_tps)),
		});
		w.exec(&Op::Clock { clock: 0, cmd: ClockCmd::Start });
		w.exec(&Op::PlayStatic {
			track: Some(0),
			data: DataSpec {
				len: sound_len,
				sample_rate: sound_rate,
				signal: Signal::Dc(0.0),
			},
			slice: None,
			settings: SoundSettingsSpec {
				rate: Val::Fixed(Rate(playback_rate)),
				..Default::default()
			},
		});
		w.exec(&Op::PlayStatic {
			track: Some(1),
			data: DataSpec {
				len: 8,
				sample_rate: sound_rate,
				signal: Signal::Dc(0.25),
			},
			slice: None,
			settings: SoundSettingsSpec {
				loop_region: Some(RegionSpec { start: Pos::Samples(0), end: None }),
				volume: Val::Fixed(Db(-60.0)),
				..Default::default()
			},
		});
		// track 3: a 1200 Hz tone, hard right (everything else is centred: right - left isolates it)
		w.exec(&Op::PlayStatic {
			track: Some(3),
			data: DataSpec {
				len: (sound_rate as f64 * 0.6) as usize,
				sample_rate: sound_rate,
				signal: Signal::Sine {
					cpf: 1200.0 / sound_rate as f32,
					amp: 0.2,
				},
			},
			slice: None,
			settings: SoundSettingsSpec {
				panning: Val::Fixed(Pan(1.0)),
				..Default::default()
			},
		});
		let (mut tone_sq, mut tone_n) = (0.0f64, 0u64);
		let mut m = Measured::default();
		let mut t = 0.0f64; // seconds of audio rendered
		let mut cur_rate = *rate;
		let mut changed = false;
		let mut cb_max_secs = 0.0f64;
		let mut impulse_at: Option<f64> = None;
		let mut tween_started: Option<f64> = None;
		let mut k = 0usize;
		while t < total_secs {
			if changes && !changed && t >= change_at {
				w.exec(&Op::ChangeRate { hz: change_to });
				cur_rate = change_to;
				changed = true;
			}
			// events are scheduled by wall-clock (audio) time, identical in every world
			if tween_started.is_none() && t >= 0.05 {
				w.exec(&Op::Sound {
					sound: 1,
					cmd: SoundCmd::SetVolume(
						Val::Fixed(Db(0.0)),
						TweenSpec {
							start: StartSpec::Immediate,
							dur: tween_secs,
							easing: EasingSpec::Linear,
						},
					),
				});
				tween_started = Some(t);
			}
			if impulse_at.is_none() && t >= (if changes { change_at + 0.08 } else { 0.1 }) {
				// a one-frame click: a 1-frame sound at the device's current rate
				w.exec(&Op::PlayStatic {
					track: Some(2),
					data: DataSpec {
						len: 1,
						sample_rate: cur_rate,
						signal: Signal::Dc(0.5),
					},
					slice: None,
					settings: SoundSettingsSpec::default(),
				});
				impulse_at = Some(t);
			}
			// a third of the cases: a device that always asks for half an internal buffer
			let frames = if case.seed % 3 == 0 { (ibs / 2).max(1) } else { ibs + (k * 7) % (ibs + 1) };
			k += 1;
			let rep = w.callback(frames, 2);
			if let Some(p) = rep.panic {
				res.fail(Violation::new("panic", format!("audio-panic: {}", panic_signature(&p)), format!("world {wi} at {rate} Hz: {p}")));
				return res;
			}
			let secs = frames as f64 / cur_rate as f64;
			cb_max_secs = cb_max_secs.max(secs);
			// left channel carries: DC tween gain (0.25 * gain) + echo (0.5) -> decode
			for i in 0..frames {
				let s = w.out[2 * i];
				trace.f32(s);
				let ts = t + (i + 1) as f64 / cur_rate as f64;
				if ts >= 0.33 && ts < 0.43 {
					let d = (w.out[2 * i + 1] - s) as f64;
					tone_sq += d * d;
					tone_n += 1;
				}
				if s > 0.4 && m.echo_delay.is_none() {
					if let Some(t0) = impulse_at {
						m.echo_delay = Some(ts - t0);
					}
				}
				let dc_part = if s > 0.4 { s - 0.5 } else { s };
				if m.tween_done.is_none() && tween_started.is_some() && (dc_part - 0.25).abs() < 1e-6 {
					m.tween_done = Some(ts - tween_started.unwrap());
				}
			}
			t += secs;
			if m.sound_end.is_none() && w.sounds[0].handle.as_ref().map(|h| h.state()) == Some(kira::sound::PlaybackState::Stopped) {
				m.sound_end = Some(t);
			}
			if let Some(c) = w.clocks[0].handle.as_ref() {
				let ct = c.time();
				m.clock_ticks_at.push((t - secs, ct.ticks as f64 + ct.fraction));
			}
		}
		m.tone_rms = if tone_n > 0 { (tone_sq / tone_n as f64).sqrt() } else { 0.0 };
		res.frames += w.frames_rendered;
		res.callbacks += w.callbacks;
		res.sim_seconds += t;
		results.push((m, cb_max_secs + ibs as f64 / (*rate).min(change_to) as f64));
	}
	// ---- seconds-domain relations --------------------------------------------------
	let want_end = sound_len as f64 / sound_rate as f64 / playback_rate;
	for (wi, (m, slack)) in results.iter().enumerate() {
		let name = format!("world {wi} ({} Hz{})", rates[wi], if wi == rates.len() - 1 { format!(", changing to {change_to} Hz at {change_at:.3}s") } else { String::new() });
		if want_end < 0.4 {
			match m.sound_end {
				Some(e) if (e - want_end).abs() <= 2.0 * slack + 8.0 / sound_rate as f64 / playback_rate => {}
				other => {
					res.fail(Violation::new(
						"seconds",
						"sound-duration-depends-on-device-rate",
						format!("{name}: a {sound_len}-frame sound at {sound_rate} Hz, rate {playback_rate}, lasts {want_end:.4}s but was reported Stopped at {other:?}s"),
					));
					break;
				}
			}
		}
		for (at, ticks) in &m.clock_ticks_at {
			// the handle shows the clock at the start of the callback, started at the first callback
			let want = clock_tps * at;
			if !((ticks - want).abs() <= clock_tps * (2.0 * slack) + 1e-6) {
				res.fail(Violation::new("seconds", "clock-speed-depends-on-device-rate", format!("{name}: after {at:.4}s the clock ({clock_tps} ticks/s) shows {ticks:.4} ticks")));
				break;
			}
		}
		if res.violation.is_some() {
			break;
		}
		match m.tween_done {
			Some(d) if (d - tween_secs).abs() <= 2.0 * slack => {}
			other => {
				res.fail(Violation::new("seconds", "tween-duration-depends-on-device-rate", format!("{name}: a {tween_secs:.4}s volume tween reached its target after {other:?}s")));
				break;
			}
		}
		match m.echo_delay {
			Some(d) if (d - delay_secs).abs() <= slack + 2.0 / rates[wi].min(change_to) as f64 => {}
			other => {
				res.fail(Violation::new("seconds", "delay-time-depends-on-device-rate", format!("{name}: the echo of a {delay_secs:.4}s delay arrived {other:?}s after the click")));
				break;
			}
		}
	}
	res.hit("seconds_worlds_compared");
	beh.u64(rates.iter().map(|r| *r as u64).sum());
	beh.u64(change_to as u64);
	// the low-pass attenuates the tone by the same factor in every world (its cutoff is in hertz);
	// the bilinear warp at low device rates accounts for up to ~20%
	if res.violation.is_none() && sound_rate >= 8000 {
		let lv: Vec<f64> = results.iter().map(|(m, _)| m.tone_rms).collect();
		let (lo, hi) = (lv.iter().cloned().fold(f64::MAX, f64::min), lv.iter().cloned().fold(0.0, f64::max));
		if !(lo > 0.0) || hi / lo > 1.6 {
			res.fail(Violation::new(
				"seconds",
				"filter-frequency-depends-on-device-rate",
				format!(
					"a 1200 Hz tone behind a 300 Hz low-pass comes out at rms {:?} in the worlds at {:?} Hz (the last one changing to {change_to} Hz at {change_at:.3}s): the attenuation differs by more than 1.6x",
					lv, rates
				),
			));
		} else {
			res.hit("filter_levels_compared");
		}
	}
	beh.u64(sound_len as u64 / 500);
	res.nontrivial = true;
	let _ = case;
	res.behaviour_sig = beh.finish();
	res.trace_hash = trace.finish();
	res
}

fn run_reverb(rates: &[u32; 2], ibs: usize) -> CaseResult {
	let mut res = CaseResult::default();
	let mut trace = Hasher64::new();
	let mut spreads = vec![];
	for rate in rates {
		let cfg = WorldConfig {
			sample_rate: *rate,
			internal_buffer_size: ibs,
			..Default::default()
		};
		let Ok(mut w) = World::new(&cfg, None) else { return res };
		w.exec(&Op::AddTrack {
			parent: None,
			spec: TrackSpec {
				effects: vec![EffectSpec::Reverb {
					feedback: Val::Fixed(0.3),
					damping: Val::Fixed(0.5),
					stereo_width: Val::Fixed(1.0),
					mix: Val::Fixed(MixS(1.0)),
				}],
				..Default::default()
			},
			spatial: None,
		});
		let _ = w.callback(ibs, 2);
		w.exec(&Op::PlayStatic {
			track: Some(0),
			data: DataSpec {
				len: 1,
				sample_rate: *rate,
				signal: Signal::Dc(0.5),
			},
			slice: None,
			settings: SoundSettingsSpec::default(),
		});
		let (mut first_l, mut first_r) = (None, None);
		let mut t = 0usize;
		while (t as f64) < 0.08 * *rate as f64 {
			let rep = w.callback(ibs, 2);
			if let Some(p) = rep.panic {
				res.fail(Violation::new("panic", format!("audio-panic: {}", panic_signature(&p)), p));
				return res;
			}
			for i in 0..ibs {
				trace.f32(w.out[2 * i]);
				if first_l.is_none() && w.out[2 * i] != 0.0 {
					first_l = Some(t + i);
				}
				if first_r.is_none() && w.out[2 * i + 1] != 0.0 {
					first_r = Some(t + i);
				}
			}
			t += ibs;
		}
		res.frames += w.frames_rendered;
		res.callbacks += w.callbacks;
		res.sim_seconds += w.sim_seconds;
		match (first_l, first_r) {
			(Some(l), Some(r)) => spreads.push((r as f64 - l as f64) / *rate as f64),
			_ => {
				res.fail(Violation::new("seconds", "reverb-silent", format!("at {rate} Hz a click through the reverb produced no reflection within 80 ms (left {first_l:?}, right {first_r:?})")));
				return res;
			}
		}
	}
	let tol = 1.6 / rates[0] as f64 + 1.6 / rates[1] as f64;
	if !((spreads[0] - spreads[1]).abs() <= tol) {
		res.fail(Violation::new(
			"seconds",
			"reverb-timing-depends-on-device-rate",
			format!(
				"the first reflection reaches the right channel {:.3} ms after the left at {} Hz but {:.3} ms after it at {} Hz (tolerance {:.3} ms)",
				spreads[0] * 1e3,
				rates[0],
				spreads[1] * 1e3,
				rates[1],
				tol * 1e3
			),
		));
	} else {
		res.hit("reverb_spreads_compared");
	}
	res.nontrivial = true;
	res.behaviour_sig = (rates[0] as u64) << 32 | rates[1] as u64 | (ibs as u64) << 56;
	res.trace_hash = trace.finish();
	res
}

#[allow(clippy::too_many_arguments)]
fn run_history(r1: u32, r2: u32, effects: &[EffectSpec], on_main: bool, ibs: usize, warm: usize, noise_seed: u64) -> CaseResult {
	let mut res = CaseResult::default();
	let mut trace = Hasher64::new();
	let mut streams: Vec<Vec<f32>> = vec![];
	// world 0 runs at r2 from the start; world 1 starts at r1 and is switched to r2; world 2 starts
	// at r2, is switched to r1 and back (a change away from the initial rate and back to it)
	let histories: [(u32, Vec<u32>); 3] = [(r2, vec![]), (r1, vec![r2]), (r2, vec![r1, r2])];
	for (wi, (start_rate, changes)) in histories.iter().enumerate() {
		let cfg = WorldConfig {
			sample_rate: *start_rate,
			internal_buffer_size: ibs,
			main_effects: if on_main { effects.to_vec() } else { vec![] },
			..Default::default()
		};
		let Ok(mut w) = World::new(&cfg, None) else { return res };
		w.exec(&Op::AddTrack {
			parent: None,
			spec: TrackSpec {
				effects: if on_main { vec![] } else { effects.to_vec() },
				..Default::default()
			},
			spatial: None,
		});
		for k in 0..warm {
			let rep = w.callback(ibs + k, 2);
			if let Some(p) = rep.panic {
				res.fail(Violation::new("panic", format!("audio-panic: {}", panic_signature(&p)), p));
				return res;
			}
		}
		for (ci, hz) in changes.iter().enumerate() {
			w.exec(&Op::ChangeRate { hz: *hz });
			if ci + 1 < changes.len() {
				for k in 0..warm.max(1) {
					let rep = w.callback(ibs + k, 2);
					if let Some(p) = rep.panic {
						res.fail(Violation::new("panic", format!("audio-panic: {}", panic_signature(&p)), p));
						return res;
					}
				}
			}
		}
		w.exec(&Op::PlayStatic {
			track: Some(0),
			data: DataSpec {
				len: (r2 / 20) as usize,
				sample_rate: r2,
				signal: Signal::Noise { seed: noise_seed, amp: 0.4 },
			},
			slice: None,
			settings: SoundSettingsSpec::default(),
		});
		let mut s = vec![];
		for k in 0..((r2 as usize / 8) / ibs + 2) {
			let rep = w.callback(ibs + (k % 3), 2);
			if let Some(p) = rep.panic {
				res.fail(Violation::new("panic", format!("audio-panic: {}", panic_signature(&p)), format!("world {wi}: {p}")));
				return res;
			}
			s.extend_from_slice(&w.out);
		}
		res.frames += w.frames_rendered;
		res.callbacks += w.callbacks;
		res.sim_seconds += w.sim_seconds;
		streams.push(s);
	}
	let a = &streams[0];
	let mut nonsilent = false;
	for (i, x) in a.iter().enumerate() {
		trace.f32(*x);
		nonsilent |= *x != 0.0;
	}
	'worlds: for (wi, b) in streams.iter().enumerate().skip(1) {
	for (i, (x, y)) in a.iter().zip(b.iter()).enumerate() {
		if !((x - y).abs() <= 1e-6 + 1e-4 * x.abs().max(y.abs())) && !(x.is_nan() && y.is_nan()) {
			res.fail(Violation::new(
				"seconds",
				"rendering-depends-on-rate-history",
				format!(
					"frame {} channel {}: {x} in the world that ran at {r2} Hz from the start, {y} in the world that {}; effects {:?} on {}",
					i / 2,
					i % 2,
					if wi == 1 { format!("ran {warm} silent callbacks at {r1} Hz and was then switched to {r2} Hz") } else { format!("started at {r2} Hz, was switched to {r1} Hz and, silent callbacks later, back to {r2} Hz") },
					effects.iter().map(|e| e.kind_name()).collect::<Vec<_>>(),
					if on_main { "the main track" } else { "a sub-track" }
				),
			));
			break 'worlds;
		}
	}
	}
	if res.violation.is_none() {
		res.hit("rate_history_twins_compared");
	}
	res.nontrivial = nonsilent;
	res.behaviour_sig = {
		let mut h = Hasher64::new();
		h.u64(r1 as u64);
		h.u64(r2 as u64);
		for e in effects {
			h.str(e.kind_name());
		}
		h.u64(on_main as u64);
		h.finish()
	};
	res.trace_hash = trace.finish();
	res
}

pub fn run_case(case: &Case) -> CaseResult {
	match &case.stream {
		Stream::History { r1, r2, effects, on_main, ibs, warm, noise_seed } => run_history(*r1, *r2, effects, *on_main, *ibs, *warm, *noise_seed),
		Stream::Reverb { rates, ibs } => run_reverb(rates, *ibs),
		Stream::Orders { ops } => run_orders(case, ops),
		Stream::Sched { adds, device, switch_prob } => run_sched(case, *adds, device, *switch_prob),
		Stream::Seconds { rates, change_at, change_to, sound_rate, sound_len, playback_rate, clock_tps, tween_secs, delay_secs, ibs } => {
			run_seconds(case, rates, *change_at, *change_to, *sound_rate, *sound_len, *playback_rate, *clock_tps, *tween_secs, *delay_secs, *ibs)
		}
	}
}

pub struct C16;

impl Check for C16 {
	fn info(&self) -> CheckInfo {
		CheckInfo {
			id: "C16",
			level: "exploration",
			rule: "five streams. history (1/8): the same scene (1..3 built-in effects at fixed parameters, optionally a sub-frame delay around a filter) rendered at rate r2 from the start, at r1 switched to r2 after a few silent callbacks, and at r2 switched to r1 and back - from the last switch on all must render the same audio; reverb (1/16): a click through a reverb at two device rates, the delay between the first reflection in the left and in the right channel compared in seconds; orders (1/2): seeded sequences over {add (nested) track with a rate-probe effect (40% persist until their sounds finish; 30% are bare group tracks without an effect), play a short sound on a track, add send track with one, drop a track handle (the track lives on while a track below it is alive or - if it persists - a sound on it is unfinished or still queued), change the device sample rate, callback} from 8 kHz to 192 kHz; sched (1/4): a gameplay task adding (nested) tracks against a device task changing the rate and running callbacks, under seeded random schedules at the yield points between reading the shared sample rate and enqueueing the track and inside on_change_sample_rate; seconds (1/4): one scene described in seconds (finite sound at any source rate and playback rate, clock, volume tween, delay echo, a tone behind a low-pass filter) rendered in three worlds at different device rates, the third changing its rate mid-stream, with callbacks of one to two internal buffers or (a third of the cases) of a constant half buffer; non-trivial = at least two effect process calls checked / worlds compared; distinct = hash of the per-callback (rate, probes) sequence, of the yield trace, of the scene parameters",
			assumptions: vec![
				"seconds-domain comparisons allow two callbacks plus a few frames of slack (events are issued at callback boundaries)".into(),
				"the delay effect restarts with an empty line when the rate changes; the echo is measured from a click issued after the change".into(),
			],
			components: vec![
				("Renderer::on_change_sample_rate, Mixer fan-out, add_sub_track / add_send_track rate initialisation, Track / SendTrack / MainTrack effects, StaticSound, Clock, Parameter, Delay", "real"),
				("effects observing the rate", "stub (probe Effect on the public trait)"),
				("audio device, thread scheduler (sched stream)", "stub / simulated"),
			],
		}
	}
	fn num_cases(&self, tier: Tier) -> u64 {
		match tier {
			Tier::Quick => 24_000,
			Tier::Thorough => 600_000,
		}
	}
	fn case(&self, tier: Tier, seed: u64, index: u64) -> Json {
		serde_json::to_value(gen_case(derive_seed(seed, 16, index), index, tier)).unwrap()
	}
	fn run(&self, case: &Json) -> CaseResult {
		let case: Case = serde_json::from_value(case.clone()).expect("malformed C16 case");
		run_case(&case)
	}
	fn shrink(&self, case: &Json) -> Vec<Json> {
		let c: Case = serde_json::from_value(case.clone()).unwrap();
		let mut out = vec![];
		if let Stream::Orders { ops } = &c.stream {
			let wrapped = serde_json::json!({ "ops": ops });
			for v in shrink_ops_array(&wrapped, "ops") {
				let ops: Vec<ROp> = serde_json::from_value(v["ops"].clone()).unwrap();
				out.push(serde_json::to_value(Case { stream: Stream::Orders { ops }, ..c.clone() }).unwrap());
			}
		}
		out
	}
}
