//! C07 - handle commands reach the audio thread exactly once; last write wins; none torn.
//!
//! Probe resources (a Sound, an Effect and a Modulator built on kira's public
//! `command` module) carry two command kinds with unique, checksummed payloads
//! and log every `read()`. Stream "ops": bursts of writes between callbacks
//! (also before the resource is picked up), checked against the sequential
//! latest-value mailbox model. Stream "sched": a gameplay task writes while an
//! audio task runs callbacks, preempted at the yield points around
//! `CommandWriter::write` / `CommandReader::read`; the stamped history is checked
//! for exactly-once, order, promptness, no time travel and no torn payload.
//! Stream "real": the same through real handles, observed as audio (gain of a DC
//! sound after bursts of set_volume on sound / track / send / main / effect /
//! modulator, a single jump after seek_by).

use std::sync::{
	atomic::{AtomicU64, Ordering},
	Arc, Mutex,
};

use kira::{
	command::{command_writer_and_reader, CommandReader, CommandWriter},
	effect::{Effect, EffectBuilder},
	info::Info,
	modulator::{Modulator, ModulatorBuilder, ModulatorId},
	sound::{Sound, SoundData},
	track::TrackBuilder,
	AudioManager, AudioManagerSettings, Frame,
};
use serde::{Deserialize, Serialize};
use serde_json::Value as Json;

use crate::{
	backend::{SimBackend, SimBackendSettings},
	core::*,
	monitor::{self, panic_signature, Disarm, Role},
	rng::{derive_seed, Hasher64, Rng},
	sched::Sim,
	spec::*,
	world::*,
};

#[derive(Clone, Copy, Debug, PartialEq)]
pub struct Payload {
	seq: u64,
	words: [u64; 5],
}

fn word(seq: u64, i: u64) -> u64 {
	let mut x = seq.wrapping_mul(0x9E37_79B9_7F4A_7C15) ^ i.wrapping_mul(0xD1B5_4A32_D192_ED03);
	crate::rng::splitmix64(&mut x)
}

impl Payload {
	fn new(seq: u64) -> Self {
		Self {
			seq,
			words: [word(seq, 0), word(seq, 1), word(seq, 2), word(seq, 3), word(seq, 4)],
		}
	}
	fn intact(&self) -> bool {
		(0..5).all(|i| self.words[i] == word(self.seq, i as u64))
	}
}

/// What the audio side saw: (callback number, stamp, kind, payload).
type ReadLog = Arc<Mutex<Vec<(u64, u64, u8, Payload)>>>;

static CALLBACK_NO: AtomicU64 = AtomicU64::new(0);
static STAMP: AtomicU64 = AtomicU64::new(0);

fn stamp(sim: &Option<Arc<Sim>>) -> u64 {
	match sim {
		Some(s) => s.stamp(),
		None => STAMP.fetch_add(1, Ordering::SeqCst),
	}
}

struct Readers {
	a: CommandReader<Payload>,
	b: CommandReader<Payload>,
	log: ReadLog,
	sim: Option<Arc<Sim>>,
	polls: Arc<AtomicU64>,
}

impl Readers {
	fn poll(&mut self) {
		let _d = Disarm::new();
		self.polls.fetch_add(1, Ordering::SeqCst);
		if let Some(p) = self.a.read() {
			let s = stamp(&self.sim);
			self.log.lock().unwrap().push((CALLBACK_NO.load(Ordering::SeqCst), s, 0, p));
		}
		if let Some(p) = self.b.read() {
			let s = stamp(&self.sim);
			self.log.lock().unwrap().push((CALLBACK_NO.load(Ordering::SeqCst), s, 1, p));
		}
	}
}

pub struct Writers {
	a: CommandWriter<Payload>,
	b: CommandWriter<Payload>,
	log: ReadLog,
	polls: Arc<AtomicU64>,
}

fn pair(sim: &Option<Arc<Sim>>) -> (Writers, Readers) {
	let (wa, ra) = command_writer_and_reader();
	let (wb, rb) = command_writer_and_reader();
	let log: ReadLog = Arc::new(Mutex::new(Vec::new()));
	let polls = Arc::new(AtomicU64::new(0));
	(
		Writers {
			a: wa,
			b: wb,
			log: log.clone(),
			polls: polls.clone(),
		},
		Readers {
			a: ra,
			b: rb,
			log,
			sim: sim.clone(),
			polls,
		},
	)
}

struct CmdSound(Readers);
impl Sound for CmdSound {
	fn on_start_processing(&mut self) {
		self.0.poll();
	}
	fn process(&mut self, out: &mut [Frame], _dt: f64, _info: &Info) {
		out.fill(Frame::ZERO);
	}
	fn finished(&self) -> bool {
		false
	}
}
struct CmdSoundData(Readers, Writers);
impl SoundData for CmdSoundData {
	type Error = ();
	type Handle = Writers;
	fn into_sound(self) -> Result<(Box<dyn Sound>, Writers), ()> {
		Ok((Box::new(CmdSound(self.0)), self.1))
	}
}
struct CmdEffect(Readers);
impl Effect for CmdEffect {
	fn on_start_processing(&mut self) {
		self.0.poll();
	}
	fn process(&mut self, _input: &mut [Frame], _dt: f64, _info: &Info) {}
}
struct CmdEffectBuilder(Readers, Writers);
impl EffectBuilder for CmdEffectBuilder {
	type Handle = Writers;
	fn build(self) -> (Box<dyn Effect>, Writers) {
		(Box::new(CmdEffect(self.0)), self.1)
	}
}
struct CmdModulator(Readers);
impl Modulator for CmdModulator {
	fn on_start_processing(&mut self) {
		self.0.poll();
	}
	fn update(&mut self, _dt: f64, _info: &Info) {}
	fn value(&self) -> f64 {
		0.0
	}
	fn finished(&self) -> bool {
		false
	}
}
struct CmdModulatorBuilder(Readers, Writers);
impl ModulatorBuilder for CmdModulatorBuilder {
	type Handle = Writers;
	fn build(self, _id: ModulatorId) -> (Box<dyn Modulator>, Writers) {
		(Box::new(CmdModulator(self.0)), self.1)
	}
}

#[derive(Clone, Copy, Debug, Serialize, Deserialize, PartialEq)]
pub enum Place {
	SoundOnMain,
	SoundOnTrack,
	EffectOnTrack,
	EffectOnSubSubTrack,
	Modulator,
}

#[derive(Clone, Copy, Debug, Serialize, Deserialize, PartialEq)]
pub enum POp {
	Add(Place),
	/// write `n` payloads of kind `kind` to probe `probe`
	Write { probe: usize, kind: u8, n: usize },
	Callback { frames: usize },
}

#[derive(Clone, Copy, Debug, Serialize, Deserialize, PartialEq)]
pub enum RealTarget {
	Sound,
	Track,
	Main,
	Send,
	VolumeEffect,
	Tweener,
}

#[derive(Clone, Debug, Serialize, Deserialize)]
pub enum Stream {
	Ops { ops: Vec<POp> },
	Sched { place: Place, writes_a: usize, writes_b: usize, callbacks: usize, switch_prob: f64, warm: bool },
	Real { target: RealTarget, bursts: Vec<(Vec<f32>, f64, usize)>, seek_by: Option<(usize, i64)> },
}

#[derive(Clone, Debug, Serialize, Deserialize)]
pub struct Case {
	pub seed: u64,
	pub ibs: usize,
	pub stream: Stream,
}

fn gen_case(seed: u64, index: u64, tier: Tier) -> Case {
	let mut rng = Rng::new(seed);
	let ibs = *rng.pick(&[1usize, 16, 128]);
	let places = [Place::SoundOnMain, Place::SoundOnTrack, Place::EffectOnTrack, Place::EffectOnSubSubTrack, Place::Modulator];
	let stream = match index % 3 {
		0 => {
			let n = rng.urange(6, if tier == Tier::Quick { 40 } else { 100 });
			let mut ops = vec![];
			let mut probes = 0usize;
			while ops.len() < n {
				match rng.below(10) {
					0 | 1 if probes < 6 => {
						probes += 1;
						ops.push(POp::Add(*rng.pick(&places)));
					}
					2..=6 if probes > 0 => ops.push(POp::Write {
						probe: rng.usize_below(probes),
						kind: rng.below(2) as u8,
						n: *rng.pick(&[1usize, 1, 2, 3, 5]),
					}),
					7..=9 => ops.push(POp::Callback { frames: rng.urange(0, 40) }),
					_ => {}
				}
			}
			ops.push(POp::Callback { frames: 8 });
			ops.push(POp::Callback { frames: 8 });
			Stream::Ops { ops }
		}
		1 => Stream::Sched {
			place: *rng.pick(&places),
			writes_a: rng.urange(1, 7),
			writes_b: rng.urange(0, 4),
			callbacks: rng.urange(2, 6),
			switch_prob: *rng.pick(&[0.03, 0.1, 0.3, 0.6, 0.9]),
			warm: rng.chance(0.6),
		},
		_ => {
			let target = *rng.pick(&[RealTarget::Sound, RealTarget::Track, RealTarget::Main, RealTarget::Send, RealTarget::VolumeEffect, RealTarget::Tweener]);
			let nb = rng.urange(1, 4);
			let bursts = (0..nb)
				.map(|_| {
					let k = *rng.pick(&[1usize, 2, 3, 5]);
					let dbs: Vec<f32> = (0..k).map(|_| -(rng.urange(1, 40) as f32)).collect();
					let dur = *rng.pick(&[0.0, 0.0, 0.004, 0.02]);
					(dbs, dur, rng.urange(0, 3))
				})
				.collect();
			Stream::Real {
				target,
				bursts,
				seek_by: if target == RealTarget::Sound && rng.chance(0.5) { Some((rng.urange(0, 3), rng.range(5, 60))) } else { None },
			}
		}
	};
	Case { seed, ibs, stream }
}

struct ProbeInst {
	writers: Writers,
	first_cb: u64,
	/// (kind, seq, gap = number of the next callback at write time, inv stamp, ret stamp)
	writes: Vec<(u8, u64, u64, u64, u64)>,
	next_seq: [u64; 2],
}

fn new_manager(ibs: usize) -> Option<AudioManager<SimBackend>> {
	monitor::catch(move || {
		AudioManager::<SimBackend>::new(AudioManagerSettings {
			internal_buffer_size: ibs,
			backend_settings: SimBackendSettings { sample_rate: 8000 },
			..Default::default()
		})
		.unwrap()
	})
	.ok()
}

struct Holder {
	tracks: Vec<kira::track::TrackHandle>,
}

fn add_probe(manager: &mut AudioManager<SimBackend>, holder: &mut Holder, place: Place, sim: &Option<Arc<Sim>>) -> Option<Writers> {
	let (w, r) = pair(sim);
	match place {
		Place::SoundOnMain => manager.play(CmdSoundData(r, w)).ok(),
		Place::SoundOnTrack => {
			let mut t = manager.add_sub_track(TrackBuilder::new()).ok()?;
			let h = t.play(CmdSoundData(r, w)).ok();
			holder.tracks.push(t);
			h
		}
		Place::EffectOnTrack => {
			let mut b = TrackBuilder::new();
			let h = b.add_effect(CmdEffectBuilder(r, w));
			let t = manager.add_sub_track(b).ok()?;
			holder.tracks.push(t);
			Some(h)
		}
		Place::EffectOnSubSubTrack => {
			let mut t1 = manager.add_sub_track(TrackBuilder::new()).ok()?;
			let mut t2 = t1.add_sub_track(TrackBuilder::new()).ok()?;
			let mut b = TrackBuilder::new();
			let h = b.add_effect(CmdEffectBuilder(r, w));
			let t3 = t2.add_sub_track(b).ok()?;
			holder.tracks.push(t1);
			holder.tracks.push(t2);
			holder.tracks.push(t3);
			Some(h)
		}
		Place::Modulator => manager.add_modulator(CmdModulatorBuilder(r, w)).ok(),
	}
}

fn run_ops(case: &Case, ops: &[POp]) -> CaseResult {
	let mut res = CaseResult::default();
	let mut trace = Hasher64::new();
	let mut beh = Hasher64::new();
	let Some(mut manager) = new_manager(case.ibs) else { return res };
	let device = manager.backend_mut().device.clone();
	let mut holder = Holder { tracks: vec![] };
	let mut probes: Vec<ProbeInst> = vec![];
	let mut cb = 0u64;
	let mut out = Vec::new();
	let mut applied_total = 0u64;
	'ops: for (oi, op) in ops.iter().enumerate() {
		match op {
			POp::Add(place) => {
				if let Some(w) = add_probe(&mut manager, &mut holder, *place, &None) {
					probes.push(ProbeInst {
						writers: w,
						first_cb: cb,
						writes: vec![],
						next_seq: [1, 1],
					});
				}
			}
			POp::Write { probe, kind, n } => {
				if probes.is_empty() {
					continue;
				}
				let pi = *probe % probes.len();
				let p = &mut probes[pi];
				for _ in 0..*n {
					let seq = p.next_seq[*kind as usize];
					p.next_seq[*kind as usize] += 1;
					let payload = Payload::new(seq);
					if *kind == 0 {
						p.writers.a.write(payload);
					} else {
						p.writers.b.write(payload);
					}
					p.writes.push((*kind, seq, cb, 0, 0));
				}
			}
			POp::Callback { frames } => {
				CALLBACK_NO.store(cb, Ordering::SeqCst);
				let rep = device.callback(*frames, 2, &mut out);
				if let Some(pn) = rep.panic {
					res.fail(Violation::new("panic", format!("audio-panic: {}", panic_signature(&pn)), format!("op {oi}: {pn}")));
					break 'ops;
				}
				// sequential mailbox model: this callback applies, per kind, exactly the last
				// write made since the previous callback (if the probe is with the audio thread)
				for (pi, p) in probes.iter_mut().enumerate() {
					let log: Vec<_> = std::mem::take(&mut *p.writers.log.lock().unwrap());
					if cb < p.first_cb {
						continue;
					}
					let polls = p.writers.polls.swap(0, Ordering::SeqCst);
					if polls != 1 {
						res.fail(Violation::new(
							"mailbox",
							"not-polled-exactly-once-per-callback",
							format!("op {oi} (callback {cb}): probe {pi} had on_start_processing called {polls} times in this callback"),
						));
						break 'ops;
					}
					for kind in 0..2u8 {
						// writes not yet applied: all with gap <= cb that came after the last applied one
						let pending: Vec<u64> = p.writes.iter().filter(|w| w.0 == kind && w.2 <= cb && w.3 == 0).map(|w| w.1).collect();
						let got: Vec<&(u64, u64, u8, Payload)> = log.iter().filter(|e| e.2 == kind).collect();
						let expect = pending.last().copied();
						let got_seq: Vec<u64> = got.iter().map(|e| e.3.seq).collect();
						for e in &got {
							if !e.3.intact() {
								res.fail(Violation::new("mailbox", "torn-command", format!("op {oi}: probe {pi} kind {kind} read a payload whose words do not belong together: {:?}", e.3)));
								break 'ops;
							}
							trace.u64(e.3.seq);
						}
						let ok = match expect {
							None => got_seq.is_empty(),
							Some(s) => got_seq == vec![s],
						};
						if !ok {
							let sig = if got_seq.is_empty() {
								"command-lost-or-late"
							} else if expect.is_none() {
								"command-applied-again"
							} else if got_seq.len() > 1 {
								"command-applied-more-than-once"
							} else {
								"not-the-last-write"
							};
							res.fail(Violation::new(
								"mailbox",
								sig,
								format!(
									"op {oi} (callback {cb}): probe {pi} kind {kind}: the audio side read {:?}; writes since the last read were {:?}, so it must read {:?}",
									got_seq, pending, expect
								),
							));
							break 'ops;
						}
						if expect.is_some() {
							applied_total += 1;
							// mark everything up to here as consumed (w.3 is reused as 'consumed' flag)
							for w in p.writes.iter_mut() {
								if w.0 == kind && w.2 <= cb {
									w.3 = 1;
								}
							}
						}
					}
				}
				beh.u64(applied_total.min(20));
				cb += 1;
			}
		}
	}
	res.count("commands_applied", applied_total);
	res.count("writes", probes.iter().map(|p| p.writes.len() as u64).sum());
	res.callbacks = cb;
	res.nontrivial = applied_total > 0;
	res.behaviour_sig = beh.finish();
	res.trace_hash = trace.finish();
	res
}

fn run_sched(case: &Case, place: Place, writes_a: usize, writes_b: usize, callbacks: usize, switch_prob: f64, warm: bool) -> CaseResult {
	let mut res = CaseResult::default();
	let sim = Sim::new(case.seed);
	sim.set_random_params(switch_prob, 0.05, 30_000);
	let Some(mut manager) = new_manager(case.ibs) else {
		sim.shutdown();
		return res;
	};
	let device = manager.backend_mut().device.clone();
	let mut holder = Holder { tracks: vec![] };
	let simo = Some(sim.clone());
	let Some(writers) = add_probe(&mut manager, &mut holder, place, &simo) else {
		sim.shutdown();
		return res;
	};
	let mut out = Vec::new();
	if warm {
		// the probe is already with the audio thread when the race begins
		CALLBACK_NO.store(1000, Ordering::SeqCst);
		let _ = device.callback(4, 2, &mut out);
		writers.log.lock().unwrap().clear();
	}
	let log = writers.log.clone();
	// history of the gameplay side: (kind, seq, inv, ret)
	let wlog: Arc<Mutex<Vec<(u8, u64, u64, u64)>>> = Arc::new(Mutex::new(vec![]));
	// history of the audio side: (callback, osp inv, osp ret)
	let alog: Arc<Mutex<Vec<(u64, u64, u64)>>> = Arc::new(Mutex::new(vec![]));
	{
		let sim2 = sim.clone();
		let wlog = wlog.clone();
		let mut writers = writers;
		sim.spawn_task(
			"gameplay",
			Role::Gameplay,
			Box::new(move || {
				let (mut ia, mut ib) = (0, 0);
				let mut seq = [1u64, 1u64];
				while ia < writes_a || ib < writes_b {
					let kind = if ib >= writes_b || (ia < writes_a && (ia + ib) % 2 == 0) { 0u8 } else { 1u8 };
					let s = seq[kind as usize];
					seq[kind as usize] += 1;
					let inv = sim2.stamp();
					if kind == 0 {
						writers.a.write(Payload::new(s));
						ia += 1;
					} else {
						writers.b.write(Payload::new(s));
						ib += 1;
					}
					let ret = sim2.stamp();
					wlog.lock().unwrap().push((kind, s, inv, ret));
					kira::verif::yield_point("gameplay.between_writes");
				}
				// keep the writers (and with them the manager-side handles) alive until the end
				std::mem::forget(writers);
			}),
		);
	}
	{
		let sim2 = sim.clone();
		let alog = alog.clone();
		sim.spawn_task(
			"audio",
			Role::Audio,
			Box::new(move || {
				let mut out = Vec::new();
				for k in 0..callbacks as u64 {
					CALLBACK_NO.store(k, Ordering::SeqCst);
					let inv = sim2.stamp();
					let _ = device.on_start_processing();
					let ret = sim2.stamp();
					alog.lock().unwrap().push((k, inv, ret));
					let _ = device.process_only(3, 2, &mut out);
				}
			}),
		);
	}
	sim.run_random();
	// quiescence: one more callback after everything has returned
	CALLBACK_NO.store(callbacks as u64, Ordering::SeqCst);
	let q_inv = sim.stamp();
	let dev2 = manager.backend_mut().device.clone();
	let _ = dev2.callback(3, 2, &mut out);
	let q_ret = sim.stamp();
	let mut osps = alog.lock().unwrap().clone();
	osps.push((callbacks as u64, q_inv, q_ret));
	let writes = wlog.lock().unwrap().clone();
	let reads = log.lock().unwrap().clone();
	let mut trace = Hasher64::new();
	trace.u64(sim.trace_hash());
	let mut racing = 0u64;
	for kind in 0..2u8 {
		let w: Vec<_> = writes.iter().filter(|w| w.0 == kind).collect();
		let r: Vec<_> = reads.iter().filter(|e| e.2 == kind).collect();
		// (0) no torn payload, only written values
		for e in &r {
			trace.u64(e.3.seq);
			if !e.3.intact() {
				res.fail(Violation::new("history", "torn-command", format!("kind {kind}: the audio side read {:?}", e.3)));
			}
			if !w.iter().any(|x| x.1 == e.3.seq) {
				res.fail(Violation::new("history", "invented-command", format!("kind {kind}: the audio side read seq {} which was never written (so far)", e.3.seq)));
			}
		}
		// (1) strictly increasing: no duplicate, no reordering
		for pair in r.windows(2) {
			if pair[1].3.seq <= pair[0].3.seq {
				res.fail(Violation::new(
					"history",
					if pair[1].3.seq == pair[0].3.seq { "command-applied-more-than-once" } else { "commands-reordered" },
					format!("kind {kind}: applied seq {} in callback {} and then seq {} in callback {}", pair[0].3.seq, pair[0].0, pair[1].3.seq, pair[1].0),
				));
			}
		}
		for (c, inv, ret) in &osps {
			let applied_by_now: u64 = r.iter().filter(|e| e.0 <= *c && e.0 < 1000).map(|e| e.3.seq).max().unwrap_or(0);
			// (2) promptness: a write that returned before this on_start_processing began is applied or superseded by its end
			for x in &w {
				if x.3 < *inv && applied_by_now < x.1 {
					res.fail(Violation::new(
						"history",
						"command-lost-or-late",
						format!("kind {kind}: write seq {} returned at stamp {} before callback {c} began (stamp {inv}) but only seq {applied_by_now} had been applied when it ended", x.1, x.3),
					));
				}
				if x.2 < *ret && x.3 > *inv {
					racing += 1;
				}
			}
			// (3) no time travel: a write that began after this callback's on_start_processing ended is not applied in it
			for e in r.iter().filter(|e| e.0 == *c) {
				if let Some(x) = w.iter().find(|x| x.1 == e.3.seq) {
					if x.2 > *ret {
						res.fail(Violation::new("history", "command-applied-before-written", format!("kind {kind}: seq {} applied in callback {c} (ended at stamp {ret}) but its write began at stamp {}", e.3.seq, x.2)));
					}
				}
			}
		}
		// (4) quiescence: in the end the last write is the one in force
		let last_written = w.iter().map(|x| x.1).max().unwrap_or(0);
		let last_applied = r.iter().map(|e| e.3.seq).max().unwrap_or(0);
		if last_applied != last_written {
			res.fail(Violation::new(
				"history",
				"last-write-not-in-force",
				format!("kind {kind}: {last_written} writes were made, after a final callback the newest applied is seq {last_applied}"),
			));
		}
	}
	res.count("writes_racing_a_read", racing);
	res.count("context_switches", sim.switches());
	res.count("reads_logged", reads.len() as u64);
	res.inconclusive = sim.capped();
	res.nontrivial = !reads.is_empty();
	res.callbacks = callbacks as u64 + 1;
	for (role, name, msg) in sim.take_panics() {
		res.fail(Violation::new("panic", format!("task-panic: {}", panic_signature(&msg)), format!("{role:?} task {name}: {msg}")));
	}
	let mut beh = Hasher64::new();
	beh.u64(sim.trace_hash());
	drop(holder);
	drop(manager);
	sim.shutdown();
	res.behaviour_sig = beh.finish();
	res.trace_hash = trace.finish();
	res
}

fn amp(db: f32) -> f32 {
	kira::Decibels(db).as_amplitude()
}

fn run_real(case: &Case, target: RealTarget, bursts: &[(Vec<f32>, f64, usize)], seek_by: Option<(usize, i64)>) -> CaseResult {
	let mut res = CaseResult::default();
	let mut trace = Hasher64::new();
	let mut beh = Hasher64::new();
	let sr = 8000u32;
	let cfg = WorldConfig {
		sample_rate: sr,
		internal_buffer_size: case.ibs,
		main_effects: vec![],
		..Default::default()
	};
	let Ok(mut world) = World::new(&cfg, None) else { return res };
	let fixed0 = Val::Fixed(Db(0.0));
	// scene: send 0, tweener 0, track 0 (volume effect, route to send 0 at 0 dB), DC sound
	world.exec(&Op::AddSend { volume: fixed0, effects: vec![] });
	world.exec(&Op::AddTweener { initial: 0.0 });
	world.exec(&Op::AddTrack {
		parent: None,
		spec: TrackSpec {
			effects: vec![EffectSpec::Volume(fixed0)],
			sends: if target == RealTarget::Send { vec![(0, fixed0)] } else { vec![] },
			..Default::default()
		},
		spatial: None,
	});
	let seeking = seek_by.is_some();
	let volume = if target == RealTarget::Tweener {
		// volume in dB follows the tweener value 1:1
		Val::Mod {
			m: 0,
			map: MapSpec {
				input: (-100.0, 0.0),
				output: (Db(-100.0), Db(0.0)),
				easing: EasingSpec::Linear,
			},
		}
	} else {
		fixed0
	};
	world.exec(&Op::PlayStatic {
		track: Some(0),
		data: DataSpec {
			len: if seeking { 4000 } else { 8 },
			sample_rate: sr,
			signal: if seeking { Signal::Index { scale: 8192.0 } } else { Signal::Dc(0.5) },
		},
		slice: None,
		settings: SoundSettingsSpec {
			loop_region: if seeking { None } else { Some(RegionSpec { start: Pos::Samples(0), end: None }) },
			volume,
			..Default::default()
		},
	});
	let frames = 64usize;
	let dc = 0.5f32;
	let mut expected_gain = 1.0f32;
	// with the send route the dry path and the send path both carry the signal
	let send_dry = if target == RealTarget::Send { 1.0f32 } else { 0.0 };
	let render = |world: &mut World| -> Result<(), String> {
		let rep = world.callback(frames, 2);
		match rep.panic {
			Some(p) => Err(p),
			None => Ok(()),
		}
	};
	if render(&mut world).is_err() {
		return res;
	}
	let mut heard_last: Option<i64> = None;
	let mut jumps = 0;
	let index_of = |v: f32| -> i64 { (v * 8192.0).round() as i64 - 1 };
	for (bi, (dbs, dur, idle)) in bursts.iter().enumerate() {
		if !seeking {
			for db in dbs {
				let tween = TweenSpec {
					start: StartSpec::Immediate,
					dur: *dur,
					easing: EasingSpec::Linear,
				};
				let v = Val::Fixed(Db(*db));
				let op = match target {
					RealTarget::Sound => Op::Sound { sound: 0, cmd: SoundCmd::SetVolume(v, tween) },
					RealTarget::Track => Op::Track { track: 0, cmd: TrackCmd::SetVolume(v, tween) },
					RealTarget::Main => Op::MainVolume(v, tween),
					RealTarget::Send => Op::SendVolume { send: 0, volume: v, tween },
					RealTarget::VolumeEffect => Op::Effect {
						effect: 0,
						cmd: EffectCmd {
							param: 0,
							value: Val::Fixed(*db as f64),
							tween,
						},
					},
					RealTarget::Tweener => Op::Mod { modulator: 0, cmd: ModCmd::TweenerSet(*db as f64, tween) },
				};
				world.exec(&op);
			}
			expected_gain = amp(*dbs.last().unwrap());
			res.count("commands_written", dbs.len() as u64);
		}
		if let Some((at, delta)) = seek_by {
			if at == bi {
				world.exec(&Op::Sound {
					sound: 0,
					cmd: SoundCmd::SeekBy(delta as f64 / sr as f64 + 0.25 / sr as f64),
				});
				res.hit("seeks_written");
			}
		}
		// callbacks until the tween must be over, then `idle` more: the value must be
		// exactly the last write's target and stay there (a command applied again would
		// restart the tween / jump again)
		let settle = 2 + (*dur * sr as f64 / frames as f64).ceil() as usize;
		for k in 0..settle + idle + 1 {
			if let Err(p) = render(&mut world) {
				res.fail(Violation::new("panic", format!("audio-panic: {}", panic_signature(&p)), p));
				break;
			}
			for s in &world.out {
				trace.f32(*s);
			}
			if seeking {
				for i in 0..frames {
					let h = index_of(world.out[2 * i]);
					if let Some(l) = heard_last {
						// (a repeated or skipped single frame is within the seek's one-frame tolerance)
						if (h - (l + 1)).abs() > 1 && world.out[2 * i] != 0.0 {
							jumps += 1;
							if let Some((_, delta)) = seek_by {
								let d = h - (l + 1);
								if (d - delta).abs() > 3 {
									res.fail(Violation::new("real-handles", "seek-by-wrong-distance", format!("burst {bi}: playback jumped by {d} frames, seek_by asked for {delta}")));
								}
							}
						}
					}
					if world.out[2 * i] != 0.0 {
						heard_last = Some(h);
					}
				}
				continue;
			}
			if k >= settle {
				let want = dc * (expected_gain + send_dry);
				let want = want.min(1.0);
				for i in 0..frames {
					let got = world.out[2 * i];
					let tol = if target == RealTarget::Tweener { 2e-5 * want.abs().max(1e-3) } else { 2e-6 * want.abs() + 1e-9 };
					if !((got - want).abs() <= tol) {
						res.fail(Violation::new(
							"real-handles",
							"value-in-force-is-not-the-last-write",
							format!(
								"burst {bi} ({target:?}, writes {:?} dB, tween {dur}s): callback {k} after the burst, frame {i}: output {got}, but the last write asks for {want}",
								dbs
							),
						));
						break;
					}
				}
				if res.violation.is_some() {
					break;
				}
				res.hit("settled_callbacks_checked");
			}
		}
		if res.violation.is_some() {
			break;
		}
		beh.u64(dbs.len() as u64);
	}
	if seeking && res.violation.is_none() {
		let expected_jumps = if seek_by.map(|(at, _)| at < bursts.len()).unwrap_or(false) { 1 } else { 0 };
		if jumps != expected_jumps {
			res.fail(Violation::new(
				"real-handles",
				if jumps > expected_jumps { "seek-applied-more-than-once" } else { "seek-lost" },
				format!("{jumps} discontinuities in playback, {expected_jumps} seek_by command(s) were issued"),
			));
		}
	}
	beh.u64(target as u64);
	res.frames = world.frames_rendered;
	res.callbacks = world.callbacks;
	res.sim_seconds = world.sim_seconds;
	res.nontrivial = true;
	res.behaviour_sig = beh.finish();
	res.trace_hash = trace.finish();
	res
}

pub fn run_case(case: &Case) -> CaseResult {
	match &case.stream {
		Stream::Ops { ops } => run_ops(case, ops),
		Stream::Sched { place, writes_a, writes_b, callbacks, switch_prob, warm } => run_sched(case, *place, *writes_a, *writes_b, *callbacks, *switch_prob, *warm),
		Stream::Real { target, bursts, seek_by } => run_real(case, *target, bursts, *seek_by),
	}
}

pub struct C07;

impl Check for C07 {
	fn info(&self) -> CheckInfo {
		CheckInfo {
			id: "C07",
			level: "exploration",
			rule: "three streams, one third each. ops: seeded history over {add a command probe as sound on main / sound on a sub-track / effect on a track / effect on a 3-deep nested track / modulator, burst of 1..5 writes of one of two command kinds, callback} checked against the sequential latest-value mailbox; sched: a gameplay task writing two kinds of checksummed payloads and an audio task running callbacks, interleaved by seeded random schedules at the yield points around CommandWriter::write and CommandReader::read (probe already picked up or still queued when the race starts); real: bursts of set_volume through real handles (sound, track, main, send, volume effect, tweener modulator) with zero and non-zero tweens and seek_by, observed as audio; non-trivial = at least one command applied; distinct = hash of the applied-command sequence (ops, real) / of the yield trace (sched)",
			assumptions: vec![
				"triple_buffer operations are atomic steps (interleavings at the granularity of kira's calls into it)".into(),
				"real stream: a settled value is compared 2 + ceil(tween / callback) callbacks after the burst and must stay exactly there; re-application would restart the tween or jump again".into(),
			],
			components: vec![
				("kira::command (CommandWriter / CommandReader, triple buffer use), resource insertion + on_start_processing order in Mixer / Track / MainTrack / Modulators", "real"),
				("real handles and Parameter::read_command (real stream)", "real"),
				("command consumers (ops, sched streams)", "stub (probe Sound / Effect / Modulator on the public traits)"),
				("thread scheduler (sched stream)", "simulated (gate scheduler over real threads)"),
			],
		}
	}
	fn num_cases(&self, tier: Tier) -> u64 {
		match tier {
			Tier::Quick => 45_000,
			Tier::Thorough => 1_500_000,
		}
	}
	fn case(&self, tier: Tier, seed: u64, index: u64) -> Json {
		serde_json::to_value(gen_case(derive_seed(seed, 7, index), index, tier)).unwrap()
	}
	fn run(&self, case: &Json) -> CaseResult {
		let case: Case = serde_json::from_value(case.clone()).expect("malformed C07 case");
		run_case(&case)
	}
	fn shrink(&self, case: &Json) -> Vec<Json> {
		let c: Case = serde_json::from_value(case.clone()).unwrap();
		let mut out = vec![];
		match &c.stream {
			Stream::Ops { ops } => {
				let wrapped = serde_json::json!({ "ops": ops });
				for v in shrink_ops_array(&wrapped, "ops") {
					let ops: Vec<POp> = serde_json::from_value(v["ops"].clone()).unwrap();
					out.push(serde_json::to_value(Case { stream: Stream::Ops { ops }, ..c.clone() }).unwrap());
				}
			}
			Stream::Sched { place, writes_a, writes_b, callbacks, switch_prob, warm } => {
				if *writes_a > 1 {
					out.push(serde_json::to_value(Case { stream: Stream::Sched { place: *place, writes_a: writes_a - 1, writes_b: *writes_b, callbacks: *callbacks, switch_prob: *switch_prob, warm: *warm }, ..c.clone() }).unwrap());
				}
				if *writes_b > 0 {
					out.push(serde_json::to_value(Case { stream: Stream::Sched { place: *place, writes_a: *writes_a, writes_b: writes_b - 1, callbacks: *callbacks, switch_prob: *switch_prob, warm: *warm }, ..c.clone() }).unwrap());
				}
				if *callbacks > 1 {
					out.push(serde_json::to_value(Case { stream: Stream::Sched { place: *place, writes_a: *writes_a, writes_b: *writes_b, callbacks: callbacks - 1, switch_prob: *switch_prob, warm: *warm }, ..c.clone() }).unwrap());
				}
			}
			Stream::Real { target, bursts, seek_by } => {
				if bursts.len() > 1 {
					for i in 0..bursts.len() {
						let mut b = bursts.clone();
						b.remove(i);
						out.push(serde_json::to_value(Case { stream: Stream::Real { target: *target, bursts: b, seek_by: *seek_by }, ..c.clone() }).unwrap());
					}
				}
			}
		}
		out
	}
}
