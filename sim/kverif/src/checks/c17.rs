//! C17 - modulators produce their configured curves; linked parameters follow in-chunk.
//!
//! LFOs, tweeners and a probe modulator (public trait, counts its own updates)
//! run in the real manager on the simulated device. A probe effect on a
//! sub-track owns `kira::Parameter`s linked to them through mappings and logs, at
//! every process call, the modulator values visible through `Info` and the
//! parameter values. Reference: closed-form LFO with the phase accumulated once
//! per internal chunk, closed-form tweener, `Mapping::map` re-implemented
//! (clamp, ease, interpolate). Checked per chunk: value == reference (no
//! one-chunk lag), within offset +- |amplitude|, linked == map(value) in the same
//! chunk, held after removal, exactly one update per chunk before any reader.

use std::{
	f64::consts::TAU,
	sync::{
		atomic::{AtomicBool, AtomicU64, Ordering},
		Arc, Mutex,
	},
	time::Duration,
};

use kira::{
	effect::{Effect, EffectBuilder},
	info::Info,
	modulator::{
		lfo::{LfoBuilder, LfoHandle},
		tweener::{TweenerBuilder, TweenerHandle},
		Modulator, ModulatorBuilder, ModulatorId,
	},
	track::TrackBuilder,
	AudioManager, AudioManagerSettings, Capacities, Frame, Mapping, Parameter, StartTime, Tween, Value,
};
use serde::{Deserialize, Serialize};
use serde_json::Value as Json;

use crate::{
	backend::{SimBackend, SimBackendSettings},
	core::*,
	monitor::{self, panic_signature, Disarm},
	rng::{derive_seed, Hasher64, Rng},
	spec::*,
};

#[derive(Clone, Copy, Debug, Serialize, Deserialize, PartialEq)]
pub struct MapS {
	pub input: (f64, f64),
	pub output: (f64, f64),
	pub easing: EasingSpec,
}

#[derive(Clone, Debug, Serialize, Deserialize, PartialEq)]
pub enum MOp {
	AddLfo { wave: WaveS, freq: f64, amp: f64, offset: f64, phase: f64 },
	AddTweener { initial: f64 },
	AddProbeMod,
	/// a modulator whose value is the mapping of an older modulator's value (an LFO with
	/// amplitude 0 whose offset is linked to modulator `src`)
	AddFollower { src: usize, map: MapS },
	/// a sub-track whose probe effect has one parameter per link
	AddReader {
		links: Vec<(usize, MapS)>,
		/// the parameters start out fixed and are linked afterwards, by `Parameter::set` with a tween
		/// of this duration (seconds): once it is over they follow the modulator like any other link
		#[serde(default)]
		relink: Option<f64>,
	},
	TweenerSet { m: usize, target: f64, delay: f64, dur: f64, easing: EasingSpec },
	LfoFrequency { m: usize, v: f64 },
	LfoAmplitude { m: usize, v: f64 },
	LfoOffset { m: usize, v: f64 },
	LfoPhase { m: usize, v: f64 },
	LfoWave { m: usize, w: WaveS },
	DropMod { m: usize },
	Callback { frames: usize },
}

#[derive(Clone, Debug, Serialize, Deserialize)]
pub struct Case {
	pub seed: u64,
	pub sample_rate: u32,
	pub ibs: usize,
	pub ops: Vec<MOp>,
	/// scheduled stream: a modulator, then something linked to it, against callbacks (c17_sched.rs)
	#[serde(default)]
	pub sched: Option<super::c17_sched::SchedCase>,
}

fn gen_map(rng: &mut Rng) -> MapS {
	MapS {
		input: match rng.below(5) {
			0 => (0.0, 1.0),
			1 => (-1.0, 1.0),
			2 => (1.0, -1.0),
			3 => (rng.frange(-2.0, 0.0), rng.frange(0.1, 2.0)),
			_ => (0.25, 0.75),
		},
		output: if rng.chance(0.5) { (rng.frange(-10.0, 10.0), rng.frange(-10.0, 10.0)) } else { (0.0, 1.0) },
		easing: EasingSpec::gen(rng),
	}
}

fn gen_case(seed: u64, tier: Tier) -> Case {
	let mut rng = Rng::new(seed);
	let sample_rate = *rng.pick(&[8000u32, 44_100, 48_000]);
	let ibs = *rng.pick(&[1usize, 7, 64, 128, 512]);
	let unit = ibs as f64 / sample_rate as f64;
	let n = rng.urange(6, if tier == Tier::Quick { 36 } else { 90 });
	let mut ops = vec![];
	let mut nm = 0usize;
	while ops.len() < n {
		let op = match rng.weighted(&[8, 6, 2, 10, 8, 3, 3, 3, 2, 2, 3, 22, 4]) {
			0 if nm < 6 => {
				nm += 1;
				let (r1, r2, r3, r4) = (rng.frange(0.0, 3.0 / unit), rng.frange(-3.0, 3.0), rng.frange(-2.0, 2.0), rng.frange(0.0, TAU));
				MOp::AddLfo {
					wave: match rng.below(4) {
						0 => WaveS::Sine,
						1 => WaveS::Triangle,
						2 => WaveS::Saw,
						_ => WaveS::Pulse(rng.f64()),
					},
					freq: *rng.pick(&[0.0, 1.0 / unit / 8.0, 1.0 / unit / 3.3, 1.0 / unit, 2.0, r1]),
					amp: *rng.pick(&[1.0, -1.0, 0.5, 0.0, r2]),
					offset: *rng.pick(&[0.0, 1.0, r3]),
					phase: *rng.pick(&[0.0, TAU / 4.0, r4]),
				}
			}
			1 if nm < 6 => {
				nm += 1;
				let r = rng.frange(-1.0, 2.0);
				MOp::AddTweener { initial: *rng.pick(&[0.0, 1.0, 0.5, r, r]) }
			}
			2 if nm < 6 => {
				nm += 1;
				MOp::AddProbeMod
			}
			3 if nm > 0 => MOp::AddReader {
				links: (0..rng.urange(1, 3)).map(|_| (rng.usize_below(nm), gen_map(&mut rng))).collect(),
				relink: if rng.chance(0.3) { Some(*rng.pick(&[0.0, 0.4 * unit, 2.5 * unit])) } else { None },
			},
			12 if nm > 0 && nm < 6 => {
				nm += 1;
				MOp::AddFollower {
					src: rng.usize_below(nm - 1),
					map: gen_map(&mut rng),
				}
			}
			// (targets from a small pool: setting a tweener to the value it has, or to the target
			// it is already heading for, must still replace the tween)
			4 if nm > 0 => MOp::TweenerSet {
				m: rng.usize_below(nm),
				target: {
					let r = rng.frange(-2.0, 3.0);
					*rng.pick(&[0.0, 1.0, 0.5, r, r])
				},
				delay: if rng.chance(0.7) { 0.0 } else { rng.frange(0.0, 4.0 * unit) },
				dur: *rng.pick(&[0.0, 0.4 * unit, 3.0 * unit, 10.0 * unit]),
				easing: EasingSpec::gen(&mut rng),
			},
			5 if nm > 0 => MOp::LfoFrequency { m: rng.usize_below(nm), v: rng.frange(0.0, 2.0 / unit) },
			6 if nm > 0 => MOp::LfoAmplitude { m: rng.usize_below(nm), v: rng.frange(-2.0, 2.0) },
			7 if nm > 0 => MOp::LfoOffset { m: rng.usize_below(nm), v: rng.frange(-2.0, 2.0) },
			// (phases from a small pool: a retrigger - the same phase set again - must reset the phase again)
			8 if nm > 0 => MOp::LfoPhase {
				m: rng.usize_below(nm),
				v: {
					let r = rng.frange(0.0, TAU);
					*rng.pick(&[0.0, 0.0, std::f64::consts::PI, r])
				},
			},
			9 if nm > 0 => MOp::LfoWave { m: rng.usize_below(nm), w: *rng.pick(&[WaveS::Sine, WaveS::Triangle, WaveS::Saw, WaveS::Pulse(0.3)]) },
			10 if nm > 0 => MOp::DropMod { m: rng.usize_below(nm) },
			11 => MOp::Callback {
				frames: if rng.chance(0.5) { ibs } else { rng.urange(1, 3 * ibs + 1) },
			},
			_ => continue,
		};
		ops.push(op);
	}
	for _ in 0..2 {
		ops.push(MOp::Callback { frames: ibs });
	}
	Case { seed, sample_rate, ibs, ops, sched: None }
}

// ---------------------------------------------------------------------------
// probes
// ---------------------------------------------------------------------------

#[derive(Clone, Debug)]
struct Obs {
	callback: u64,
	len: usize,
	seen: Vec<Option<f64>>,
	params: Vec<f64>,
	/// `previous_value()` of each parameter after the update: what the chunk interpolates from
	prevs: Vec<f64>,
	/// false while a late link's hand-over tween may still be running
	settled: bool,
}

struct ReaderEffect {
	ids: Vec<ModulatorId>,
	params: Vec<Parameter<f64>>,
	/// links still to be made (by `set` with a tween) on the first call
	late: Vec<(Value<f64>, f64)>,
	elapsed: f64,
	settle_after: f64,
	log: Arc<Mutex<Vec<Obs>>>,
}

static CALLBACK_NO: AtomicU64 = AtomicU64::new(0);

impl Effect for ReaderEffect {
	fn process(&mut self, input: &mut [Frame], dt: f64, info: &Info) {
		let _d = Disarm::new();
		let mut seen = vec![];
		let mut params = vec![];
		let mut prevs = vec![];
		for ((v, dur), p) in self.late.drain(..).zip(self.params.iter_mut()) {
			p.set(
				v,
				Tween {
					duration: Duration::from_secs_f64(dur),
					..Default::default()
				},
			);
		}
		let settled = self.elapsed > self.settle_after;
		self.elapsed += dt * input.len() as f64;
		for (id, p) in self.ids.iter().zip(self.params.iter_mut()) {
			p.update(dt * input.len() as f64, info);
			seen.push(info.modulator_value(*id));
			params.push(p.value());
			prevs.push(p.previous_value());
		}
		self.log.lock().unwrap().push(Obs {
			callback: CALLBACK_NO.load(Ordering::SeqCst),
			len: input.len(),
			seen,
			params,
			prevs,
			settled,
		});
	}
}

struct ReaderBuilder {
	links: Vec<(ModulatorId, MapS)>,
	relink: Option<f64>,
}

impl EffectBuilder for ReaderBuilder {
	type Handle = Arc<Mutex<Vec<Obs>>>;
	fn build(self) -> (Box<dyn Effect>, Self::Handle) {
		let log = Arc::new(Mutex::new(vec![]));
		let ids = self.links.iter().map(|l| l.0).collect();
		let values: Vec<Value<f64>> = self
			.links
			.iter()
			.map(|(id, m)| Value::FromModulator {
				id: *id,
				mapping: Mapping {
					input_range: m.input,
					output_range: m.output,
					easing: m.easing.k(),
				},
			})
			.collect();
		let (params, late, settle_after) = match self.relink {
			None => (values.iter().map(|v| Parameter::new(*v, -777.0)).collect(), vec![], -1.0),
			Some(dur) => (
				values.iter().map(|_| Parameter::new(Value::Fixed(-777.0), -777.0)).collect(),
				values.iter().map(|v| (*v, dur)).collect(),
				// the tween is over one chunk after its duration at the latest
				dur + 1e-9,
			),
		};
		(
			Box::new(ReaderEffect {
				ids,
				params,
				late,
				elapsed: 0.0,
				settle_after,
				log: log.clone(),
			}),
			log,
		)
	}
}

struct CountingModulator {
	updates: u64,
	removed: Arc<AtomicBool>,
	log: Arc<Mutex<Vec<(u64, f64)>>>,
}

impl Modulator for CountingModulator {
	fn update(&mut self, dt: f64, _info: &Info) {
		let _d = Disarm::new();
		self.updates += 1;
		self.log.lock().unwrap().push((CALLBACK_NO.load(Ordering::SeqCst), dt));
	}
	fn value(&self) -> f64 {
		self.updates as f64
	}
	fn finished(&self) -> bool {
		self.removed.load(Ordering::SeqCst)
	}
}

struct CountingBuilder;
struct CountingHandle {
	id: ModulatorId,
	removed: Arc<AtomicBool>,
	log: Arc<Mutex<Vec<(u64, f64)>>>,
}
impl ModulatorBuilder for CountingBuilder {
	type Handle = CountingHandle;
	fn build(self, id: ModulatorId) -> (Box<dyn Modulator>, CountingHandle) {
		let removed = Arc::new(AtomicBool::new(false));
		let log = Arc::new(Mutex::new(vec![]));
		(
			Box::new(CountingModulator {
				updates: 0,
				removed: removed.clone(),
				log: log.clone(),
			}),
			CountingHandle { id, removed, log },
		)
	}
}

// ---------------------------------------------------------------------------
// reference models
// ---------------------------------------------------------------------------

fn wave(w: WaveS, phase: f64) -> f64 {
	match w {
		WaveS::Sine => (phase * TAU).sin(),
		// -1 at phase 0.25 .. wait: documented by the unit tests: triangle starts at 0, peaks at 0.25
		WaveS::Triangle => ((phase + 0.75).fract() - 0.5).abs() * 4.0 - 1.0,
		WaveS::Saw => (phase + 0.5).fract() * 2.0 - 1.0,
		WaveS::Pulse(width) => {
			if phase < width {
				1.0
			} else {
				-1.0
			}
		}
	}
}

fn map(m: &MapS, v: f64) -> f64 {
	let mut amount = (v - m.input.0) / (m.input.1 - m.input.0);
	amount = amount.clamp(0.0, 1.0);
	amount = m.easing.apply(amount);
	m.output.0 + (m.output.1 - m.output.0) * amount
}

enum RefMod {
	Lfo { wave: WaveS, freq: f64, amp: f64, offset: f64, phase: f64, value: f64, pending: Vec<MOp> },
	Tweener { value: f64, tween: Option<(f64, f64, f64, EasingSpec, f64, Duration)>, pending: Option<(f64, f64, f64, EasingSpec)> },
	Counting { updates: u64 },
	Follower { src: usize, map: MapS, value: Option<f64> },
}

struct MM {
	model: RefMod,
	first_cb: u64,
	drop_gap: Option<u64>,
	lfo: Option<LfoHandle>,
	tw: Option<TweenerHandle>,
	cnt: Option<CountingHandle>,
	id: ModulatorId,
}

impl MM {
	fn present(&self, cb: u64) -> bool {
		cb >= self.first_cb && self.drop_gap.map(|d| cb < d.max(self.first_cb + 1)).unwrap_or(true)
	}
}

pub fn run_case(case: &Case) -> CaseResult {
	let mut res = CaseResult::default();
	let mut trace = Hasher64::new();
	let mut beh = Hasher64::new();
	let (sr, ibs) = (case.sample_rate, case.ibs);
	let manager = monitor::catch(move || {
		AudioManager::<SimBackend>::new(AudioManagerSettings {
			capacities: Capacities {
				modulator_capacity: 8,
				sub_track_capacity: 32,
				..Default::default()
			},
			internal_buffer_size: ibs,
			backend_settings: SimBackendSettings { sample_rate: sr },
			..Default::default()
		})
		.unwrap()
	});
	let Ok(mut manager) = manager else { return res };
	let device = manager.backend_mut().device.clone();
	let dt = 1.0 / sr as f64;
	let mut mods: Vec<MM> = vec![];
	struct Reader {
		log: Arc<Mutex<Vec<Obs>>>,
		links: Vec<(usize, MapS)>,
		first_cb: u64,
		last_params: Vec<Option<f64>>,
		/// the value each parameter had at the end of the previous chunk
		last_values: Vec<Option<f64>>,
		/// the value each parameter showed in the first chunk in which its modulator was gone
		gone_values: Vec<Option<f64>>,
		_track: kira::track::TrackHandle,
	}
	let mut readers: Vec<Reader> = vec![];
	let mut cb = 0u64;
	let mut out = Vec::new();
	let mut compared = 0u64;
	let mut held = 0u64;
	'ops: for (oi, op) in case.ops.iter().enumerate() {
		match op {
			MOp::AddLfo { wave: w, freq, amp, offset, phase } => {
				let b = LfoBuilder::new().waveform(w.k()).frequency(*freq).amplitude(*amp).offset(*offset).starting_phase(*phase);
				if let Ok(h) = manager.add_modulator(b) {
					let id = h.id();
					mods.push(MM {
						model: RefMod::Lfo {
							wave: *w,
							freq: *freq,
							amp: *amp,
							offset: *offset,
							phase: *phase / TAU,
							value: 0.0,
							pending: vec![],
						},
						first_cb: cb,
						drop_gap: None,
						lfo: Some(h),
						tw: None,
						cnt: None,
						id,
					});
				}
			}
			MOp::AddTweener { initial } => {
				if let Ok(h) = manager.add_modulator(TweenerBuilder { initial_value: *initial }) {
					let id = h.id();
					mods.push(MM {
						model: RefMod::Tweener {
							value: *initial,
							tween: None,
							pending: None,
						},
						first_cb: cb,
						drop_gap: None,
						lfo: None,
						tw: Some(h),
						cnt: None,
						id,
					});
				}
			}
			MOp::AddProbeMod => {
				if let Ok(h) = manager.add_modulator(CountingBuilder) {
					let id = h.id;
					mods.push(MM {
						model: RefMod::Counting { updates: 0 },
						first_cb: cb,
						drop_gap: None,
						lfo: None,
						tw: None,
						cnt: Some(h),
						id,
					});
				}
			}
			MOp::AddFollower { src, map: ms } => {
				if mods.is_empty() {
					continue;
				}
				let src = *src % mods.len();
				if mods[src].drop_gap.is_some() {
					continue;
				}
				let b = LfoBuilder::new().frequency(0.0).amplitude(0.0).offset(Value::FromModulator {
					id: mods[src].id,
					mapping: Mapping {
						input_range: ms.input,
						output_range: ms.output,
						easing: ms.easing.k(),
					},
				});
				if let Ok(h) = manager.add_modulator(b) {
					let id = h.id();
					mods.push(MM {
						model: RefMod::Follower { src, map: *ms, value: Some(0.0) }, // (0 = the default of an LFO offset whose source is missing)
						first_cb: cb,
						drop_gap: None,
						lfo: Some(h),
						tw: None,
						cnt: None,
						id,
					});
					res.hit("followers_added");
				}
			}
			MOp::AddReader { links, relink } => {
				if mods.is_empty() {
					continue;
				}
				let links: Vec<(usize, MapS)> = links.iter().map(|(m, s)| (*m % mods.len(), *s)).collect();
				let mut b = TrackBuilder::new();
				let log = b.add_effect(ReaderBuilder {
					links: links.iter().map(|(m, s)| (mods[*m].id, *s)).collect(),
					relink: *relink,
				});
				if relink.is_some() {
					res.hit("readers_linked_late_by_set");
				}
				if let Ok(t) = manager.add_sub_track(b) {
					let n = links.len();
					readers.push(Reader {
						log,
						links,
						first_cb: cb,
						last_params: vec![None; n],
						last_values: vec![None; n],
						gone_values: vec![None; n],
						_track: t,
					});
				}
			}
			MOp::TweenerSet { m, target, delay, dur, easing } => {
				if mods.is_empty() {
					continue;
				}
				let i = *m % mods.len();
				let mm = &mut mods[i];
				if let (Some(h), RefMod::Tweener { pending, .. }) = (mm.tw.as_mut(), &mut mm.model) {
					h.set(
						*target,
						Tween {
							start_time: if *delay > 0.0 { StartTime::Delayed(Duration::from_secs_f64(*delay)) } else { StartTime::Immediate },
							duration: Duration::from_secs_f64(*dur),
							easing: easing.k(),
						},
					);
					*pending = Some((*target, *delay, Duration::from_secs_f64(*dur).as_secs_f64(), *easing));
				}
			}
			MOp::LfoFrequency { m, .. } | MOp::LfoAmplitude { m, .. } | MOp::LfoOffset { m, .. } | MOp::LfoPhase { m, .. } | MOp::LfoWave { m, .. } => {
				if mods.is_empty() {
					continue;
				}
				let i = *m % mods.len();
				let mm = &mut mods[i];
				if let (Some(h), RefMod::Lfo { pending, .. }) = (mm.lfo.as_mut(), &mut mm.model) {
					let instant = Tween {
						duration: Duration::ZERO,
						..Default::default()
					};
					match op {
						MOp::LfoFrequency { v, .. } => h.set_frequency(*v, instant),
						MOp::LfoAmplitude { v, .. } => h.set_amplitude(*v, instant),
						MOp::LfoOffset { v, .. } => h.set_offset(*v, instant),
						MOp::LfoPhase { v, .. } => h.set_phase(*v),
						MOp::LfoWave { w, .. } => h.set_waveform(w.k()),
						_ => {}
					}
					// last write of each kind wins
					pending.retain(|p| std::mem::discriminant(p) != std::mem::discriminant(op));
					pending.push(op.clone());
				}
			}
			MOp::DropMod { m } => {
				if mods.is_empty() {
					continue;
				}
				let i = *m % mods.len();
				if mods[i].drop_gap.is_none() {
					mods[i].lfo = None;
					mods[i].tw = None;
					if let Some(c) = &mods[i].cnt {
						c.removed.store(true, Ordering::SeqCst);
					}
					mods[i].drop_gap = Some(cb);
				}
			}
			MOp::Callback { frames } => {
				CALLBACK_NO.store(cb, Ordering::SeqCst);
				let rep = device.callback(*frames, 2, &mut out);
				if let Some(p) = rep.panic {
					res.fail(Violation::new("panic", format!("audio-panic: {}", panic_signature(&p)), format!("op {oi}: {p}")));
					break 'ops;
				}
				// chunk lengths
				let mut lens = vec![];
				let mut left = *frames;
				while left > 0 {
					let n = left.min(ibs);
					lens.push(n);
					left -= n;
				}
				// reference: commands at on_start_processing
				for mm in mods.iter_mut() {
					if !mm.present(cb) {
						continue;
					}
					match &mut mm.model {
						RefMod::Lfo { wave: w, freq, amp, offset, phase, pending, .. } => {
							for p in pending.drain(..) {
								match p {
									MOp::LfoFrequency { v, .. } => *freq = v,
									MOp::LfoAmplitude { v, .. } => *amp = v,
									MOp::LfoOffset { v, .. } => *offset = v,
									MOp::LfoPhase { v, .. } => *phase = v / TAU,
									MOp::LfoWave { w: nw, .. } => *w = nw,
									_ => {}
								}
							}
						}
						RefMod::Tweener { value, tween, pending } => {
							if let Some((target, delay, dur, easing)) = pending.take() {
								*tween = Some((*value, target, dur, easing, 0.0, Duration::from_secs_f64(delay)));
							}
						}
						RefMod::Counting { .. } | RefMod::Follower { .. } => {}
					}
				}
				// reference values after each chunk, per modulator
				let mut values: Vec<Vec<Option<f64>>> = vec![vec![None; lens.len()]; mods.len()];
				for (k, n) in lens.iter().enumerate() {
					let cdt = dt * *n as f64;
					for mi in 0..mods.len() {
						if !mods[mi].present(cb) {
							continue;
						}
						// (a follower reads its - older, hence already updated - source in the same chunk)
						let src_value = match &mods[mi].model {
							RefMod::Follower { src, .. } => values[*src][k],
							_ => None,
						};
						let mm = &mut mods[mi];
						match &mut mm.model {
							RefMod::Follower { map: ms, value, .. } => {
								if let Some(v) = src_value {
									*value = Some(map(ms, v));
								}
								values[mi][k] = *value;
							}
							RefMod::Lfo { wave: w, freq, amp, offset, phase, value, .. } => {
								*phase += cdt * *freq;
								*phase %= 1.0;
								*value = *offset + *amp * wave(*w, *phase);
								values[mi][k] = Some(*value);
							}
							RefMod::Tweener { value, tween, .. } => {
								if let Some((from, to, dur, easing, time, delay)) = tween.as_mut() {
									let started = if delay.is_zero() {
										true
									} else {
										*delay = delay.saturating_sub(Duration::from_secs_f64(cdt));
										false
									};
									if started {
										*time += cdt;
										if *time >= *dur {
											*value = *to;
											*tween = None;
										} else {
											*value = *from + (*to - *from) * easing.apply(*time / *dur);
										}
									}
								}
								values[mi][k] = Some(*value);
							}
							RefMod::Counting { updates } => {
								*updates += 1;
								values[mi][k] = Some(*updates as f64);
							}
						}
					}
				}
				// probe modulators: exactly one update per internal chunk, with the chunk's dt
				for mm in mods.iter() {
					if let Some(c) = &mm.cnt {
						let log: Vec<(u64, f64)> = std::mem::take(&mut *c.log.lock().unwrap());
						if !mm.present(cb) {
							if !log.is_empty() {
								res.fail(Violation::new("update-once", "removed-modulator-updated", format!("op {oi} (callback {cb}): a removed modulator was updated {} times", log.len())));
								break 'ops;
							}
							continue;
						}
						if log.len() != lens.len() || log.iter().zip(lens.iter()).any(|((_, d), n)| (*d - dt * *n as f64).abs() > 1e-15) {
							res.fail(Violation::new(
								"update-once",
								"not-updated-exactly-once-per-chunk",
								format!("op {oi} (callback {cb}, {} internal chunks {:?}): the probe modulator was updated {} times with dts {:?}", lens.len(), lens, log.len(), log.iter().map(|l| l.1).collect::<Vec<_>>()),
							));
							break 'ops;
						}
					}
				}
				// readers
				for (ri, r) in readers.iter_mut().enumerate() {
					let obs: Vec<Obs> = std::mem::take(&mut *r.log.lock().unwrap());
					if cb < r.first_cb {
						continue;
					}
					if obs.len() != lens.len() {
						res.fail(Violation::new("harness", "reader-call-count", format!("op {oi}: reader {ri} was called {} times in {} chunks", obs.len(), lens.len())));
						break 'ops;
					}
					for (k, o) in obs.iter().enumerate() {
						for (li, (mi, ms)) in r.links.iter().enumerate() {
							let want = values[*mi][k];
							let seen = o.seen[li];
							let got_param = o.params[li];
							trace.f64(got_param);
							// continuity: every chunk interpolates from the previous chunk's final value -
							// also while the modulator is missing and the value is merely held
							if let Some(lv) = r.last_values[li] {
								if o.prevs[li].to_bits() != lv.to_bits() && !(o.prevs[li] == lv) {
									res.fail(Violation::new(
										"linked-parameter",
										"linked-parameter-not-continuous",
										format!(
											"op {oi} (callback {cb}) chunk {k}: the parameter linked to modulator {mi} interpolates this chunk from {} although it ended the previous chunk at {lv} (modulator {})",
											o.prevs[li],
											if want.is_some() { "present" } else { "gone" }
										),
									));
									break 'ops;
								}
							}
							r.last_values[li] = Some(got_param);
							match want {
								Some(v) => {
									r.gone_values[li] = None;
									let mut tol = 1e-9 * (1.0 + v.abs());
									if let RefMod::Follower { map: fm, .. } = &mods[*mi].model {
										// (its value is itself the result of a mapping: same allowance as for parameters)
										tol += 1e-8 * (fm.output.1 - fm.output.0).abs()
											+ match fm.easing {
												EasingSpec::InPowf(p) | EasingSpec::OutPowf(p) | EasingSpec::InOutPowf(p) if p < 1.0 => 1e-4 * (fm.output.1 - fm.output.0).abs(),
												_ => 0.0,
											};
									}
									match seen {
										Some(s) if (s - v).abs() <= tol => {}
										_ => {
											let kind = match mods[*mi].model {
												RefMod::Lfo { .. } => "lfo-value-wrong",
												RefMod::Tweener { .. } => "tweener-value-wrong",
												RefMod::Counting { .. } => "modulator-not-updated-before-reader",
												RefMod::Follower { .. } => "chained-modulator-lags-its-source",
											};
											res.fail(Violation::new(
												"closed-form",
												kind,
												format!("op {oi} (callback {cb}) chunk {k}: reader {ri} sees modulator {mi} at {seen:?}, the reference has {v} in this chunk"),
											));
											break 'ops;
										}
									}
									if let RefMod::Lfo { amp, offset, .. } = &mods[*mi].model {
										let s = seen.unwrap();
										if s < offset - amp.abs() - 1e-9 || s > offset + amp.abs() + 1e-9 {
											res.fail(Violation::new("range", "lfo-out-of-range", format!("op {oi}: LFO value {s} outside {offset} +- {}", amp.abs())));
											break 'ops;
										}
									}
									if !o.settled {
										// a late link's hand-over tween is (or may be) still running
										continue;
									}
									let wantp = map(ms, v);
									let tolp = 1e-9 * (1.0 + wantp.abs()) + 1e-9 * (ms.output.1 - ms.output.0).abs() * 10.0;
									// steep easings amplify the (tiny) difference between the implementations' values
									let steep = match ms.easing {
										EasingSpec::InPowf(p) | EasingSpec::OutPowf(p) | EasingSpec::InOutPowf(p) if p < 1.0 => 1e-4 * (ms.output.1 - ms.output.0).abs(),
										_ => 0.0,
									};
									if !((got_param - wantp).abs() <= tolp + steep) {
										res.fail(Violation::new(
											"linked-parameter",
											"linked-value-not-mapping-of-current-value",
											format!(
												"op {oi} (callback {cb}) chunk {k}: parameter linked to modulator {mi} through {ms:?} is {got_param}, the modulator's value in this chunk is {v}, which maps to {wantp}"
											),
										));
										break 'ops;
									}
									r.last_params[li] = Some(got_param);
									compared += 1;
								}
								None => {
									// the modulator does not exist (yet / any more)
									if seen.is_some() && mods[*mi].drop_gap.is_some() {
										res.fail(Violation::new("removal", "removed-modulator-still-visible", format!("op {oi} (callback {cb}): modulator {mi} was removed but readers still see {seen:?}")));
										break 'ops;
									}
									// held: constant from the removal on - also while a hand-over tween towards
									// the (now unresolvable) link was still running
									match r.gone_values[li] {
										Some(g) if got_param != g => {
											res.fail(Violation::new(
												"removal",
												"linked-parameter-did-not-hold",
												format!("op {oi} (callback {cb}) chunk {k}: modulator {mi} is gone; the parameter linked to it was {g} when it went and is {got_param} now"),
											));
											break 'ops;
										}
										Some(_) => {}
										None => r.gone_values[li] = Some(got_param),
									}
									if let (Some(lp), true) = (r.last_params[li], o.settled) {
										if got_param != lp {
											res.fail(Violation::new(
												"removal",
												"linked-parameter-did-not-hold",
												format!("op {oi} (callback {cb}) chunk {k}: modulator {mi} is gone; the parameter linked to it moved from {lp} to {got_param}"),
											));
											break 'ops;
										}
										held += 1;
									}
								}
							}
						}
						let _ = o.callback;
						let _ = o.len;
					}
				}
				beh.u64(mods.iter().filter(|m| m.present(cb)).count() as u64);
				beh.u64(readers.len() as u64);
				beh.u64(lens.len().min(4) as u64);
				cb += 1;
			}
		}
	}
	res.count("values_compared", compared);
	res.count("held_values_checked", held);
	res.callbacks = cb;
	res.nontrivial = compared > 0;
	drop(readers);
	drop(mods);
	drop(manager);
	res.behaviour_sig = beh.finish();
	res.trace_hash = trace.finish();
	res
}

pub struct C17;

impl Check for C17 {
	fn info(&self) -> CheckInfo {
		CheckInfo {
			id: "C17",
			level: "exploration",
			rule: "1/16 of the cases are scheduled (c17_sched.rs): a gameplay task adds a modulator and then a sub-track whose effect owns a parameter linked to it (or a sound whose volume is linked to it) while an audio task runs callbacks under seeded random schedules - in every chunk in which the linked resource runs, the modulator exists and the parameter is the mapping of its value; or (30% of these) tells an LFO the audio thread already owns to take its offset from a tweener created just before the command: it may lag by a callback but follows in the end; the others: each case = seeded history over {add LFO (4 waveforms, frequency 0 .. 3 cycles per internal chunk, amplitude / offset / starting phase), add tweener, add probe modulator, add a follower (an LFO of amplitude 0 whose offset is linked through a mapping to an older modulator: a modulator -> modulator chain), add a reader (sub-track whose probe effect owns parameters linked to modulators through mappings with normal / inverted / partial input ranges and every easing; 30% of the readers start with fixed parameters and are linked afterwards by Parameter::set with a tween - once it is over they follow like any other link), tweener set (immediate / delayed, any duration and easing; targets and initial values from a small pool so that sets to the current value and to the pending target occur), LFO frequency / amplitude / offset / phase / waveform commands, drop a modulator, callback of arbitrary size} at seeded internal buffer size and sample rate; non-trivial = at least one (modulator value, linked parameter) pair compared; distinct = hash of per-callback (live modulators, readers, chunks)",
			assumptions: vec![
				"LFO parameters change by instant commands (their own tweens are C06's subject); waveform shapes follow the formulas pinned by the repository's unit tests".into(),
				"tolerance 1e-9 relative; easings with power < 1 get an extra 1e-4 of the output range (infinite slope at 0)".into(),
				"continuity: previous_value() of every linked parameter equals its value() at the end of the previous chunk, whether the modulator exists or the value is held".into(),
				"readers are sub-track effects, processed after all modulators of the chunk; modulator-to-modulator links are only generated from earlier to later modulators (not generated here at all)".into(),
			],
			components: vec![
				("Lfo, Tweener, Modulators storage and update order, Info::modulator_value, Value::FromModulator, Mapping::map, Parameter", "real"),
				("reader / counting probes", "stub (probe Effect / Modulator on the public traits)"),
				("audio device", "stub (SimBackend)"),
			],
		}
	}
	fn num_cases(&self, tier: Tier) -> u64 {
		match tier {
			Tier::Quick => 80_000,
			Tier::Thorough => 2_500_000,
		}
	}
	fn case(&self, tier: Tier, seed: u64, index: u64) -> Json {
		let s = derive_seed(seed, 17, index);
		if index % 16 == 11 {
			let mut rng = Rng::new(s);
			return serde_json::to_value(Case {
				seed: s,
				sample_rate: 8000,
				ibs: 8,
				ops: vec![],
				sched: Some(super::c17_sched::gen(&mut rng)),
			})
			.unwrap();
		}
		serde_json::to_value(gen_case(s, tier)).unwrap()
	}
	fn run(&self, case: &Json) -> CaseResult {
		let case: Case = serde_json::from_value(case.clone()).expect("malformed C17 case");
		if let Some(sc) = &case.sched {
			return super::c17_sched::run(sc);
		}
		run_case(&case)
	}
	fn shrink(&self, case: &Json) -> Vec<Json> {
		shrink_ops_array(case, "ops")
	}
}
