//! C10 - decoder threads always end; decode errors stop the sound and reach the
//! handle; a slow decoder only causes gaps.
//!
//! The real decode loop runs on its own thread, gated by the simulator. Faults
//! are enumerated: for short streams every k for "the k-th decode fails" and "the
//! k-th seek fails" (including the seek inside `into_sound`), crossed with every
//! way a sound can end (natural end, stop, rejected by a full track, dropped with
//! its track or with the manager) and every decoder pace (ahead, in time,
//! starving, stalled). Oracles: bounded liveness of the decoder task and release
//! of the `Decoder`, no busy spin, error propagation (Stopped, unloaded, silent,
//! first error poppable), and frame order over index-coded audio.

use std::sync::atomic::Ordering;

use kira::sound::PlaybackState;
use serde::{Deserialize, Serialize};
use serde_json::Value as Json;

use crate::{
	core::*,
	decoder::{DecoderSpec, ScriptErr},
	monitor::{panic_signature, Role},
	rng::{derive_seed, Hasher64, Rng},
	sched::{Sim, StepEnd},
	spec::*,
	world::*,
};

#[derive(Clone, Copy, Debug, Serialize, Deserialize, PartialEq)]
pub enum Ending {
	Natural,
	Stop { at: usize, fade: f64 },
	RejectedByFullTrack,
	DropTrack { at: usize },
	DropManager { at: usize },
}

#[derive(Clone, Copy, Debug, Serialize, Deserialize, PartialEq, Default)]
pub enum Hold {
	#[default]
	None,
	/// paused (instantly) before callback `at`, never resumed
	Paused { at: usize },
	/// start time: a delay far longer than the run
	StartDelayed,
	/// start time: on a clock that is never started
	StartOnStoppedClock,
}

#[derive(Clone, Copy, Debug, Serialize, Deserialize, PartialEq)]
pub enum Pace {
	Ahead,
	InTime,
	Starving(u64),
	Stalled { from: usize, len: usize },
}

#[derive(Clone, Debug, Serialize, Deserialize)]
pub struct Case {
	pub seed: u64,
	pub len: usize,
	pub packets: Vec<usize>,
	pub seek_gran: usize,
	pub looped: bool,
	pub fail_decode: Option<u64>,
	pub fail_seek: Option<u64>,
	/// the stream stays broken after its first error
	#[serde(default)]
	pub sticky: bool,
	pub ending: Ending,
	pub pace: Pace,
	pub chunk: usize,
	pub callbacks: usize,
	/// seek_to(frames) issued before this callback
	pub seek: Option<(usize, usize)>,
	pub track_paused: bool,
	/// the sound itself is not advancing when the fault strikes
	#[serde(default)]
	pub hold: Hold,
	/// the sound's handle is dropped (fire and forget) before this callback; the decoder's probe is kept
	#[serde(default)]
	pub drop_handle_at: Option<usize>,
	/// Some(p): the main phase runs under seeded random schedules instead of directed stepping
	pub sched: Option<f64>,
	/// scheduled cases: extra yield points per decode call (a decoder that is slow compared with
	/// the audio task, so that data arrives while a chunk is being rendered)
	#[serde(default)]
	pub slow: u32,
}

const ENDINGS: usize = 5;
const PACES: usize = 4;

fn gen_case(seed: u64, index: u64, tier: Tier) -> Case {
	let mut rng = Rng::new(seed);
	let chunk = *rng.pick(&[4usize, 16, 64]);
	// systematic part: (fault kind, k, ending, pace) over a 12-packet stream
	let systematic = index % 2 == 0;
	let (len, packets) = if systematic {
		(12 * 5, vec![5usize])
	} else {
		let l = rng.urange(1, 400);
		(l, (0..rng.urange(1, 3)).map(|_| *rng.pick(&[1usize, 3, 8, 40])).collect())
	};
	let callbacks = rng.urange(6, if tier == Tier::Quick { 24 } else { 60 });
	let (fail_decode, fail_seek, ending_i, pace_i) = if systematic {
		let code = index / 2;
		let fault = code % 30; // 0..13: decode k, 14..17: seek k, else none
		let e = (code / 30) % ENDINGS as u64;
		let p = (code / 30 / ENDINGS as u64) % PACES as u64;
		(
			if fault < 14 { Some(fault) } else { None },
			if (14..18).contains(&fault) { Some(fault - 14) } else { None },
			e as usize,
			p as usize,
		)
	} else {
		(
			if rng.chance(0.4) { Some(rng.below(20)) } else { None },
			if rng.chance(0.15) { Some(rng.below(4)) } else { None },
			rng.usize_below(ENDINGS),
			rng.usize_below(PACES),
		)
	};
	let ending = match ending_i {
		0 => Ending::Natural,
		1 => Ending::Stop {
			at: rng.usize_below(callbacks),
			fade: *rng.pick(&[0.0, 0.0, 0.005, 0.03]),
		},
		2 => Ending::RejectedByFullTrack,
		3 => Ending::DropTrack { at: rng.usize_below(callbacks) },
		_ => Ending::DropManager { at: rng.usize_below(callbacks) },
	};
	let pace = match pace_i {
		0 => Pace::Ahead,
		1 => Pace::InTime,
		2 => Pace::Starving(*rng.pick(&[1u64, 2, 3])),
		_ => Pace::Stalled {
			from: rng.usize_below(callbacks),
			len: rng.urange(1, 6),
		},
	};
	// (a pause issued during a stop fade legitimately cancels the stop: keep the pause first)
	let hold_pick = rng.below(10);
	let hold = match hold_pick {
		0 | 1 => {
			let mut at = rng.usize_below(callbacks.min(6));
			if let Ending::Stop { at: stop_at, .. } = ending {
				at = at.min(stop_at);
			}
			Hold::Paused { at }
		}
		2 => Hold::StartDelayed,
		3 => Hold::StartOnStoppedClock,
		_ => Hold::None,
	};
	let sched = if !systematic && rng.chance(0.35) { Some(*rng.pick(&[0.03, 0.1, 0.3, 0.7])) } else { None };
	// known finding (open): pause() and stop() travel in separate mailboxes that the audio thread
	// reads one after the other; written while it is between the two reads, the earlier pause is
	// applied one callback after the later stop and cancels it - the sound never stops. While it
	// is listed, cases under random schedules do not combine a pause with a stop.
	let hold = if sched.is_some() && matches!(ending, Ending::Stop { .. }) && matches!(hold, Hold::Paused { .. }) && crate::known::is_open("C10-pause-overtakes-stop") {
		Hold::None
	} else {
		hold
	};
	let mut case = Case {
		seed,
		len,
		packets,
		seek_gran: *rng.pick(&[1usize, 1, 4, 16]),
		looped: rng.chance(0.3),
		fail_decode,
		fail_seek,
		sticky: rng.chance(0.5),
		ending,
		pace,
		chunk,
		callbacks,
		seek: if rng.chance(0.3) { Some((rng.usize_below(callbacks), rng.usize_below(len + 2))) } else { None },
		track_paused: rng.chance(0.15),
		hold,
		drop_handle_at: None,
		sched,
		slow: *rng.pick(&[0u32, 0, 8, 30, 100]),
	};
	// a fifth of the directed fault cases are fire-and-forget: the handle is dropped early, the error
	// still has to stop and unload the sound
	if case.sched.is_none() && !systematic && (case.fail_decode.is_some() || case.fail_seek.is_some()) && rng.chance(0.4) {
		case.drop_handle_at = Some(rng.usize_below(3));
		case.ending = Ending::Natural;
		case.hold = Hold::None;
		case.seek = None;
	}
	// a third of the scheduled cases race the decoder's error report against the audio thread and a
	// polling handle: a looping sound nobody stops, one failing decode call
	if case.sched.is_some() && rng.chance(0.35) {
		case.ending = Ending::Natural;
		case.looped = true;
		case.fail_decode = Some(rng.below(10));
		case.fail_seek = None;
		case.hold = Hold::None;
		case.track_paused = false;
		case.seek = None;
		// (the failing call has to come while callbacks and polls are still going on: no slow
		// decoder here, and schedules that let all three tasks take turns)
		case.slow = 0;
		case.sched = Some(*rng.pick(&[0.1, 0.3, 0.7]));
	}
	// a sixteenth of all cases race the END of a short stream: a decoder that is slow compared
	// with the audio task delivers its last frames (and raises "reached the end") while a chunk
	// is being rendered; the stream is still heard to its last frame
	if index % 16 == 9 {
		// (low switch probabilities give the decoder long bursts: several frames and the end flag
		// between two steps of the audio task)
		case.sched = Some(*rng.pick(&[0.03, 0.1, 0.3, 0.6]));
		case.slow = *rng.pick(&[1u32, 2, 4, 8, 16]);
		case.len = rng.urange(8, 120);
		case.packets = vec![*rng.pick(&[1usize, 2, 3, 5, 8])];
		case.chunk = *rng.pick(&[4usize, 16, 64]);
		// enough callbacks for the slow decoder to get to the end while the race is on
		case.callbacks = (case.len / case.chunk + 2) * (3 + case.slow as usize);
		case.ending = Ending::Natural;
		case.looped = false;
		case.fail_decode = None;
		case.fail_seek = None;
		case.hold = Hold::None;
		case.track_paused = false;
		case.seek = None;
		case.drop_handle_at = None;
	}
	case
}

/// Was a stop issued, and not cancelled by a later pause?
fn stop_issued(case: &Case) -> bool {
	match (case.ending, case.hold) {
		(Ending::Stop { at, .. }, Hold::Paused { at: p }) => at < case.callbacks && p <= at,
		(Ending::Stop { at, .. }, _) => at < case.callbacks,
		_ => false,
	}
}

pub fn run_case(case: &Case) -> CaseResult {
	let mut res = CaseResult::default();
	let mut trace = Hasher64::new();
	let mut beh = Hasher64::new();
	let sim = Sim::new(case.seed);
	// (a quarter of the cases at 96 kHz: what depends on the stream's sample rate - e.g. how long the
	// decoder waits on a full ring - is not the same at every rate)
	let sr = if case.seed % 4 == 0 { 96_000u32 } else { 8000u32 };
	let cfg = WorldConfig {
		sample_rate: sr,
		internal_buffer_size: 16,
		..Default::default()
	};
	let Ok(mut world) = World::new(&cfg, Some(sim.clone())) else {
		sim.shutdown();
		return res;
	};
	// one sub-track with room for exactly one sound
	world.exec(&Op::AddTrack {
		parent: None,
		spec: TrackSpec {
			sound_capacity: 1,
			..Default::default()
		},
		spatial: None,
	});
	let rejected = case.ending == Ending::RejectedByFullTrack;
	if rejected {
		// fill the track first
		world.exec(&Op::PlayStatic {
			track: Some(0),
			data: DataSpec {
				len: 4,
				sample_rate: sr,
				signal: Signal::Dc(0.0),
			},
			slice: None,
			settings: SoundSettingsSpec {
				loop_region: Some(RegionSpec { start: Pos::Samples(0), end: None }),
				..Default::default()
			},
		});
	}
	let decoder = DecoderSpec {
		data: DataSpec {
			len: case.len,
			sample_rate: sr,
			signal: Signal::Index { scale: 4096.0 },
		},
		packets: case.packets.clone(),
		seek_gran: case.seek_gran.max(1),
		fail_decode: case.fail_decode.into_iter().collect(),
		fail_seek: case.fail_seek.into_iter().collect(),
		fail_sticky: case.sticky,
		slow: if case.sched.is_some() { case.slow } else { 0 },
	};
	if case.hold == Hold::StartOnStoppedClock {
		world.exec(&Op::AddClock { speed: Val::Fixed(Speed::TicksPerSecond(10.0)) });
	}
	let play = world.exec(&Op::PlayStreaming {
		track: Some(0),
		decoder,
		slice: None,
		settings: SoundSettingsSpec {
			loop_region: if case.looped { Some(RegionSpec { start: Pos::Samples(0), end: None }) } else { None },
			start: match case.hold {
				Hold::StartDelayed => StartSpec::Delayed(1000.0),
				Hold::StartOnStoppedClock => StartSpec::Clock { clock: 0, ticks: 1, fraction: 0.0 },
				_ => StartSpec::Immediate,
			},
			..Default::default()
		},
	});
	if let Some(p) = play.gameplay_panic {
		res.fail(Violation::new("no-panic", format!("play-panicked: {}", panic_signature(&p)), format!("play() of the streaming sound panicked: {p}")));
		drop(world);
		sim.shutdown();
		return res;
	}
	let created = play.created;
	let probe = if created {
		match world.sounds.last().and_then(|e| e.handle.as_ref()) {
			Some(SoundH::Streaming(_, p)) => p.clone(),
			_ => unreachable!(),
		}
	} else {
		match world.orphan_probes.last() {
			Some(p) => p.clone(),
			None => {
				drop(world);
				sim.shutdown();
				return res;
			}
		}
	};
	let failed_in_new = !created && !rejected; // seek #0 failed inside into_sound
	if failed_in_new {
		res.hit("error_inside_into_sound");
		if !probe.dropped.load(Ordering::SeqCst) {
			res.fail(Violation::new("liveness", "decoder-not-released", "into_sound failed (seek error) but the decoder was not released".to_string()));
		}
		if sim.num_tasks(Role::Decoder) != 0 {
			res.fail(Violation::new("liveness", "thread-spawned-for-failed-sound", "into_sound failed but a decoder thread exists".to_string()));
		}
		drop(world);
		sim.shutdown();
		res.nontrivial = true;
		res.behaviour_sig = 77;
		return res;
	}
	if case.track_paused && created {
		world.exec(&Op::Track {
			track: 0,
			cmd: TrackCmd::Pause(TweenSpec::INSTANT),
		});
	}
	let decoders = sim.live_tasks(Role::Decoder);
	let sound_idx = world.sounds.len().saturating_sub(1);
	let mut heard: Vec<i64> = vec![];
	let mut error_seen_at: Option<usize> = None;
	let mut stopped_at: Option<usize> = None;
	let mut world_opt = Some(world);
	let mut manager_dropped = false;
	let mut track_dropped = false;
	let mut spin_checked = false;
	let index_of = |v: f32| -> i64 { (v * 4096.0).round() as i64 - 1 };

	let early_pop: std::sync::Arc<std::sync::Mutex<Option<ScriptErr>>> = Default::default();
	let early_miss: std::sync::Arc<std::sync::Mutex<bool>> = Default::default();
	// ---- main phase under seeded random schedules (decoder, audio and gameplay tasks) ----
	if let (Some(p), true) = (case.sched, created) {
		use std::sync::{Arc, Mutex};
		sim.set_random_params(p, 0.02, 150_000);
		let world = world_opt.take().unwrap();
		let device = world.device.clone();
		let shared_world: Arc<Mutex<Option<World>>> = Arc::new(Mutex::new(Some(world)));
		let outputs: Arc<Mutex<Vec<Vec<f32>>>> = Arc::new(Mutex::new(vec![]));
		{
			let (sw, case2) = (shared_world.clone(), case.clone());
			let (early_pop2, early_miss2, probe2) = (early_pop.clone(), early_miss.clone(), probe.clone());
			sim.spawn_task(
				"gameplay",
				Role::Gameplay,
				Box::new(move || {
					let mut guard = sw.lock().unwrap();
					for tick in 0..case2.callbacks {
						if let Some(world) = guard.as_mut() {
							if let Some((at, pos)) = case2.seek {
								if at == tick {
									world.exec(&Op::Sound {
										sound: sound_idx,
										cmd: SoundCmd::SeekTo(pos as f64 / sr as f64 + 0.25 / sr as f64),
									});
								}
							}
							if case2.hold == (Hold::Paused { at: tick }) {
								world.exec(&Op::Sound { sound: sound_idx, cmd: SoundCmd::Pause(TweenSpec::INSTANT) });
							}
							match case2.ending {
								Ending::Stop { at, fade } if at == tick => {
									world.exec(&Op::Sound {
										sound: sound_idx,
										cmd: SoundCmd::Stop(TweenSpec { start: StartSpec::Immediate, dur: fade, easing: EasingSpec::Linear }),
									});
								}
								Ending::DropTrack { at } if at == tick => {
									world.exec(&Op::Drop { kind: Kind::Track, index: 0 });
								}
								_ => {}
							}
						}
						// a looping sound that nobody stops can only be Stopped because of a decode error:
						// from that moment on the error must be there to be popped
						for _poll in 0..if matches!(case2.ending, Ending::Natural) && case2.looped { 4 } else { 0 } {
							kira::verif::yield_point("gameplay.poll");
							if let Some(world) = guard.as_mut() {
								if let Some(SoundH::Streaming(h, _)) = world.sounds[sound_idx].handle.as_mut() {
									if h.state() == PlaybackState::Stopped && probe2.errors.load(Ordering::SeqCst) > 0 && early_pop2.lock().unwrap().is_none() {
										match h.pop_error() {
											Some(e) => *early_pop2.lock().unwrap() = Some(e),
											None => *early_miss2.lock().unwrap() = true,
										}
									}
								}
							}
						}
						kira::verif::yield_point("gameplay.tick");
					}
				}),
			);
		}
		{
			let (outputs, chunk, n) = (outputs.clone(), case.chunk, case.callbacks);
			sim.spawn_task(
				"audio",
				Role::Audio,
				Box::new(move || {
					let mut out = Vec::new();
					for _ in 0..n {
						let rep = device.callback(chunk, 2, &mut out);
						if let Some(p) = rep.panic {
							panic!("{p}");
						}
						outputs.lock().unwrap().push(out.clone());
						kira::verif::yield_point("audio.between_callbacks");
					}
				}),
			);
		}
		sim.run_random();
		res.count("context_switches", sim.switches());
		res.hit("runs_under_random_schedules");
		if sim.capped() {
			res.inconclusive = true;
		}
		world_opt = shared_world.lock().unwrap().take();
		if matches!(case.ending, Ending::DropTrack { .. }) {
			track_dropped = true;
		}
		let fading = matches!(case.ending, Ending::Stop { fade, .. } if fade > 0.0);
		for o in outputs.lock().unwrap().iter() {
			for i in 0..case.chunk {
				trace.f32(o[2 * i]);
				if o[2 * i] != 0.0 && !fading {
					heard.push(index_of(o[2 * i]));
				} else if !fading && heard.last().map(|l| *l >= 0).unwrap_or(false) {
					heard.push(-1);
				}
			}
		}
		if let Some(w) = world_opt.as_ref() {
			if w.sounds[sound_idx].handle.as_ref().map(|h| h.state()) == Some(PlaybackState::Stopped) {
				stopped_at = Some(case.callbacks);
			}
		}
	}
	// ---- main phase, directed: the controller decides every step --------------------
	for cb in 0..if case.sched.is_some() && created { 0 } else { case.callbacks } {
		let Some(world) = world_opt.as_mut() else { break };
		// gameplay
		if let Some((at, pos)) = case.seek {
			if at == cb && created {
				world.exec(&Op::Sound {
					sound: sound_idx,
					cmd: SoundCmd::SeekTo(pos as f64 / sr as f64 + 0.25 / sr as f64),
				});
			}
		}
		if case.hold == (Hold::Paused { at: cb }) && created {
			world.exec(&Op::Sound { sound: sound_idx, cmd: SoundCmd::Pause(TweenSpec::INSTANT) });
		}
		if case.drop_handle_at == Some(cb) && created {
			world.sounds[sound_idx].handle = None;
			res.hit("handles_dropped_early");
		}
		match case.ending {
			Ending::Stop { at, fade } if at == cb && created => {
				world.exec(&Op::Sound {
					sound: sound_idx,
					cmd: SoundCmd::Stop(TweenSpec {
						start: StartSpec::Immediate,
						dur: fade,
						easing: EasingSpec::Linear,
					}),
				});
			}
			Ending::DropTrack { at } if at == cb && !track_dropped => {
				world.exec(&Op::Drop { kind: Kind::Track, index: 0 });
				track_dropped = true;
			}
			Ending::DropManager { at } if at == cb => {
				world_opt = None;
				manager_dropped = true;
				break;
			}
			_ => {}
		}
		let world = world_opt.as_mut().unwrap();
		// decoder pace
		let errors_before = probe.errors.load(Ordering::SeqCst);
		let delivered_before = probe.frames_delivered.load(Ordering::SeqCst);
		let budget: Option<u64> = match case.pace {
			Pace::Ahead => Some(40_000),
			Pace::InTime => Some(case.chunk as u64),
			Pace::Starving(k) => Some(k),
			Pace::Stalled { from, len } => {
				if cb >= from && cb < from + len {
					None
				} else {
					Some(40_000)
				}
			}
		};
		if let Some(b) = budget {
			for d in &decoders {
				let end = sim.step(*d, b);
				// no busy spin: a decoder that has nothing to do (here: after an error) must
				// not burn its whole budget without delivering a frame
				if end == StepEnd::Limit && b > 16_384 + 64 {
					// at most 16384 frames fit the ring: a loop that ran longer without sleeping
					// or ending did iterations that had nothing to do
					res.fail(Violation::new(
						"busy-spin",
						"decoder-spins-on-full-ring",
						format!("callback {cb}: the decoder loop ran {b} iterations without sleeping or ending although its ring holds at most 16384 frames"),
					));
				}
				if end == StepEnd::Limit && b >= 20 {
					let errs = probe.errors.load(Ordering::SeqCst) - errors_before;
					let frames = probe.frames_delivered.load(Ordering::SeqCst) - delivered_before;
					if errs >= 2 && frames == 0 {
						res.fail(Violation::new(
							"busy-spin",
							"decoder-spins-after-error",
							format!("callback {cb}: the decoder loop ran {b} iterations, raised {errs} errors, delivered no frame and never slept or ended"),
						));
					}
					spin_checked = true;
				}
			}
		}
		if res.violation.is_some() {
			break;
		}
		let rep = world.callback(case.chunk, 2);
		if let Some(p) = rep.panic {
			res.fail(Violation::new("no-panic", format!("audio-panic: {}", panic_signature(&p)), format!("callback {cb}: {p}")));
			break;
		}
		for s in &world.out {
			trace.f32(*s);
		}
		if created {
			let state = world.sounds[sound_idx].handle.as_ref().map(|h| h.state());
			beh.u64(state.map(|s| s as u64).unwrap_or(9));
			let nonzero: Vec<f32> = (0..case.chunk).map(|i| world.out[2 * i]).filter(|s| *s != 0.0).collect();
			// frame order: only at unity gain (no stop fade), not paused
			let fading = matches!(case.ending, Ending::Stop { at, fade } if cb >= at && fade > 0.0);
			if !fading {
				for i in 0..case.chunk {
					let v = world.out[2 * i];
					if v != 0.0 {
						heard.push(index_of(v));
					} else if heard.last().map(|l| *l >= 0).unwrap_or(false) {
						heard.push(-1); // a gap of silence
					}
				}
			}
			if stopped_at.is_some() && !nonzero.is_empty() {
				res.fail(Violation::new("errors", "audio-after-stopped", format!("callback {cb}: the sound reported Stopped earlier but {} non-silent frames were emitted", nonzero.len())));
				break;
			}
			if state == Some(PlaybackState::Stopped) && stopped_at.is_none() {
				stopped_at = Some(cb);
			}
			if probe.errors.load(Ordering::SeqCst) > 0 && error_seen_at.is_none() {
				error_seen_at = Some(cb);
			}
			// an error that the decoder has raised stops the sound within two callbacks (unless
			// its track is paused or gone: then it is not processed at all)
			if let Some(e) = error_seen_at {
				if cb >= e + 2 && state.is_some() && state != Some(PlaybackState::Stopped) && !case.track_paused && !track_dropped {
					res.fail(Violation::new(
						"errors",
						"not-stopped-after-decode-error",
						format!("callback {cb}: the decoder reported an error at callback {e} but the sound still reports {state:?}"),
					));
					break;
				}
			}
		}
	}

	// ---- drain phase: faults have stopped; the scheduler is fair ---------------------
	let mut drained_rounds = 0;
	if res.violation.is_none() {
		// what ends this sound's decoder?
		let must_end = rejected
			|| manager_dropped
			|| track_dropped
			|| stopped_at.is_some()
			|| probe.errors.load(Ordering::SeqCst) > 0
			|| stop_issued(case)
			|| (!case.looped); // end of data
		if case.track_paused && !rejected && !manager_dropped && !track_dropped {
			// resume so that a stop fade / an error flag can be processed
			if let Some(w) = world_opt.as_mut() {
				w.exec(&Op::Track {
					track: 0,
					cmd: TrackCmd::Resume(TweenSpec::INSTANT),
				});
			}
		}
		if track_dropped && crate::known::is_open("C10-leak-track-dropped") {
			// known finding (open): a removed track, and the sounds on it, are only destroyed
			// when the caller next adds a sub-track. While it is listed, the drain phase makes
			// that call, so that everything else about this ending is still checked.
			if let Some(w) = world_opt.as_mut() {
				for _ in 0..2 {
					let _ = w.callback(case.chunk, 2);
				}
				w.exec(&Op::AddTrack { parent: None, spec: TrackSpec::default(), spatial: None });
				res.hit("drain_helped_by_add_sub_track(known finding open)");
			}
		}
		// bounded: frames still to decode + ring capacity + slack, in rounds of 64 iterations
		let rounds = (case.len + 16_384 + 64) / 64 + 8;
		for _ in 0..rounds {
			if decoders.iter().all(|d| sim.task_done(*d)) {
				break;
			}
			if let Some(w) = world_opt.as_mut() {
				let rep = w.callback(case.chunk.max(64), 2);
				if let Some(p) = rep.panic {
					res.fail(Violation::new("no-panic", format!("audio-panic: {}", panic_signature(&p)), p));
					break;
				}
			}
			for d in &decoders {
				let _ = sim.step(*d, 64);
			}
			drained_rounds += 1;
		}
		let alive: Vec<usize> = decoders.iter().copied().filter(|d| !sim.task_done(*d)).collect();
		if must_end && (!alive.is_empty() || !probe.dropped.load(Ordering::SeqCst)) {
			let why = if rejected {
				"the sound was rejected by a full track"
			} else if manager_dropped {
				"the manager was dropped"
			} else if track_dropped {
				"the sound's track was dropped"
			} else if probe.errors.load(Ordering::SeqCst) > 0 {
				"the decoder reported an error"
			} else if stop_issued(case) {
				"the sound was stopped"
			} else {
				"the end of the audio was reached"
			};
			let (iters, sleeps) = alive.first().map(|d| sim.task_progress(*d)).unwrap_or((0, 0));
			res.fail(Violation::new(
				"liveness",
				if rejected {
					"decoder-thread-leaked-rejected-sound"
				} else if manager_dropped || track_dropped {
					"decoder-thread-leaked-dropped-sound"
				} else {
					"decoder-thread-never-ended"
				},
				format!(
					"{why}, faults stopped, {drained_rounds} fair rounds of (callback + 64 decoder iterations) later the decoder thread is {} and its Decoder is {} ({iters} loop iterations, {sleeps} sleeps so far)",
					if alive.is_empty() { "ended" } else { "still alive" },
					if probe.dropped.load(Ordering::SeqCst) { "released" } else { "not released" }
				),
			));
		}
		if must_end && res.violation.is_none() {
			res.hit("decoder_terminations_checked");
			if *probe.dropped_by.lock().unwrap() == Some(Role::Audio) {
				res.fail(Violation::new("liveness", "decoder-dropped-on-audio-thread", "the Decoder was dropped in the audio role".to_string()));
			}
		}
	}

	// ---- an error unloads the sound (its track slot is free again), handle or no handle ----
	if res.violation.is_none() && created && !manager_dropped && !track_dropped && !case.track_paused && probe.errors.load(Ordering::SeqCst) > 0 {
		if let Some(w) = world_opt.as_mut() {
			for _ in 0..3 {
				let _ = w.callback(case.chunk.max(16), 2);
			}
			let n = match w.tracks.get(0).and_then(|t| t.handle.as_ref()) {
				Some(TrackH::Plain(h)) => Some(h.num_sounds()),
				_ => None,
			};
			if let Some(n) = n {
				if n != 0 {
					res.fail(Violation::new(
						"errors",
						"not-unloaded-after-decode-error",
						format!(
							"the decoder reported an error, faults stopped, the drain and three more callbacks later the sound's track still holds {n} sound(s){}",
							if case.drop_handle_at.is_some() { " (the sound's handle had been dropped before the fault)" } else { "" }
						),
					));
				} else {
					res.hit("unloaded_after_error_checked");
				}
			}
		}
	}

	// ---- error propagation (after the drain: the decoder may have been parked between raising and reporting) ----
	if res.violation.is_none() && created && !manager_dropped {
		let world = world_opt.as_mut().unwrap();
		if probe.errors.load(Ordering::SeqCst) > 0 {
			res.hit("runs_with_decoder_error");
			let first = probe.first_error.lock().unwrap().clone();
			if *early_miss.lock().unwrap() {
				res.fail(Violation::new(
					"errors",
					"stopped-by-error-but-no-error-to-pop",
					"the handle reported Stopped (a looping sound nobody stopped: only a decode error can do that) while pop_error() returned None".to_string(),
				));
			}
			let popped = match (early_pop.lock().unwrap().take(), world.sounds[sound_idx].handle.as_mut()) {
				(Some(e), _) => Some(e),
				(None, Some(SoundH::Streaming(h, _))) => h.pop_error(),
				_ => None,
			};
			if popped != first && case.drop_handle_at.is_none() {
				res.fail(Violation::new("errors", "first-error-not-poppable", format!("the decoder's first error was {first:?}, pop_error() returned {popped:?}")));
			}
		}
	}

	// ---- frame order ------------------------------------------------------------
	if res.violation.is_none() && created && case.seek.is_none() && probe.errors.load(Ordering::SeqCst) == 0 {
		let n = case.len as i64;
		let mut last: Option<i64> = None;
		let mut gap = false;
		for h in &heard {
			if *h < 0 {
				gap = true;
				continue;
			}
			if let Some(l) = last {
				let step = if case.looped { (*h - l).rem_euclid(n.max(1)) } else { *h - l };
				// contiguous; after a gap of silence playback continues from where it stopped to within a frame
				let ok = step == 1 || (n == 1 && case.looped && step == 0) || (gap && step == 2);
				if !ok {
					res.fail(Violation::new(
						"frame-order",
						"frames-repeated-reordered-or-skipped",
						format!("the output plays source frame {h} after frame {l}{} (pace {:?})", if gap { " (across a gap of silence)" } else { "" }, case.pace),
					));
					break;
				}
			}
			last = Some(*h);
			gap = false;
		}
		// a stream that was simply played to its end is heard to its end: the last source frame
		// is not lost, however late the decoder delivered it
		let final_state = world_opt.as_ref().and_then(|w| w.sounds.get(sound_idx)).and_then(|s| s.handle.as_ref()).map(|h| h.state());
		if res.violation.is_none()
			&& !case.looped && !stop_issued(case) && !rejected && !manager_dropped && !track_dropped && !case.track_paused
			&& matches!(case.hold, Hold::None)
			&& case.drop_handle_at.is_none()
			&& final_state == Some(PlaybackState::Stopped)
		{
			let last_heard = heard.iter().rev().find(|h| **h >= 0).copied();
			if last_heard != Some(case.len as i64 - 1) {
				res.fail(Violation::new(
					"frame-order",
					"stream-ended-before-its-last-frame",
					format!(
						"a {}-frame stream that nobody stopped reports Stopped, but the last source frame heard is {last_heard:?}, not {} (pace {:?}, packets {:?})",
						case.len,
						case.len - 1,
						case.pace,
						case.packets
					),
				));
			} else {
				res.hit("streams_heard_to_their_last_frame");
				if case.sched.is_some() {
					res.hit("streams_heard_to_their_last_frame_under_random_schedules");
				}
			}
		}
		if heard.iter().any(|h| *h < -1 || *h >= case.len as i64) {
			res.fail(Violation::new("frame-order", "foreign-frame", "the output contains a value that is not a source frame".to_string()));
		}
		if !heard.is_empty() {
			res.hit("frame_order_checked");
		}
	}
	for (role, name, msg) in sim.take_panics() {
		res.fail(Violation::new("no-panic", format!("task-panic: {}", panic_signature(&msg)), format!("{role:?} task {name} panicked: {msg}")));
	}
	// a decoder with nothing to do waits; a wait of zero length is a busy spin
	if res.violation.is_none() && sim.zero_sleeps() > 0 {
		res.fail(Violation::new(
			"busy-spin",
			"decoder-waits-zero-time",
			format!("the decoder thread of a {sr} Hz stream asked {} times to sleep for a duration of zero: with nothing to do it spins", sim.zero_sleeps()),
		));
	}
	if spin_checked {
		res.hit("spin_windows_checked");
	}
	res.count("decode_calls", probe.decode_calls.load(Ordering::SeqCst));
	res.count("seek_calls", probe.seek_calls.load(Ordering::SeqCst));
	res.count("decoder_errors_fired", probe.errors.load(Ordering::SeqCst));
	res.hit(&format!("ending.{}", match case.ending {
		Ending::Natural => "natural",
		Ending::Stop { .. } => "stop",
		Ending::RejectedByFullTrack => "rejected",
		Ending::DropTrack { .. } => "drop_track",
		Ending::DropManager { .. } => "drop_manager",
	}));
	res.hit(&format!("hold.{}", match case.hold {
		Hold::None => "none",
		Hold::Paused { .. } => "sound_paused",
		Hold::StartDelayed => "start_delayed",
		Hold::StartOnStoppedClock => "start_on_stopped_clock",
	}));
	res.hit(&format!("pace.{}", match case.pace {
		Pace::Ahead => "ahead",
		Pace::InTime => "in_time",
		Pace::Starving(_) => "starving",
		Pace::Stalled { .. } => "stalled",
	}));
	res.callbacks = case.callbacks as u64 + drained_rounds as u64;
	res.frames = res.callbacks * case.chunk as u64;
	res.sim_seconds = res.frames as f64 / sr as f64;
	res.nontrivial = true;
	beh.u64(heard.iter().filter(|h| **h >= 0).count().min(50) as u64);
	beh.u64(probe.errors.load(Ordering::SeqCst).min(3));
	drop(world_opt);
	sim.shutdown();
	res.behaviour_sig = beh.finish();
	res.trace_hash = trace.finish();
	res
}

pub struct C10;

impl Check for C10 {
	fn info(&self) -> CheckInfo {
		CheckInfo {
			id: "C10",
			level: "fault_enumeration",
			rule: "half of the cases enumerate, for a 12-packet stream, (fault: the k-th decode call fails for k = 0..13, the k-th seek call fails for k = 0..3 incl. the one inside into_sound, or no fault) x (ending: natural end, stop, rejected by a full track, track dropped, manager dropped) x (decoder pace: ahead, in time, starving, stalled) with seeded timing; the other half draws stream length, packet sizes, seek granularity, looping, fault position, ending, pace, seek command and a paused track from the seed; in every case the sound may additionally be held (paused before a seeded callback, start time far in the future, start time on a clock that is never started) so that faults strike a sound that is not advancing; a third of the scheduled cases are a looping sound nobody stops with one failing decode call, while the gameplay task polls state() / pop_error(); a sixteenth of all cases race the end of a short stream under random schedules with a decoder that is slow compared with the audio task (extra yield points per decode call, bursty schedules): the last frames and the end flag arrive while a chunk is being rendered; a stream that was simply played to its end must have been heard to its last source frame; non-trivial = every case (a decoder thread is created or into_sound fails); distinct = hash of (per-callback reported state, frames heard, errors fired)",
			assumptions: vec![
				"liveness is judged after faults have stopped, under a fair schedule: rounds of (one callback + 64 decoder loop iterations), at most (stream length + ring capacity + 64) / 64 + 8 rounds".into(),
				"busy spin = a budget of >= 20 loop iterations used up with >= 2 errors raised, no frame delivered, no sleep and no exit; or any sleep of zero duration asked for by a decoder thread (a quarter of the cases run at 96 kHz instead of 8 kHz)".into(),
				"the decoder's 1 ms sleep is an event ('nothing to do'), never waited for in real time".into(),
			],
			components: vec![
				("DecodeScheduler::{start, run} loop on its own thread", "real, gated by the simulator (H2 hook)"),
				("StreamingSound, StreamingSoundHandle, Track / manager ownership of sounds", "real"),
				("Decoder", "stub (scripted decoder with injected failures)"),
				("audio device", "stub (SimBackend)"),
			],
		}
	}
	fn num_cases(&self, tier: Tier) -> u64 {
		match tier {
			Tier::Quick => 30_000,
			Tier::Thorough => 600_000,
		}
	}
	fn case(&self, tier: Tier, seed: u64, index: u64) -> Json {
		serde_json::to_value(gen_case(derive_seed(seed, 10, index), index, tier)).unwrap()
	}
	fn run(&self, case: &Json) -> CaseResult {
		let case: Case = serde_json::from_value(case.clone()).expect("malformed C10 case");
		run_case(&case)
	}
	fn shrink(&self, case: &Json) -> Vec<Json> {
		let c: Case = serde_json::from_value(case.clone()).unwrap();
		let mut out = vec![];
		let mut push = |c2: Case| out.push(serde_json::to_value(c2).unwrap());
		if c.seek.is_some() {
			push(Case { seek: None, ..c.clone() });
		}
		if c.track_paused {
			push(Case { track_paused: false, ..c.clone() });
		}
		if c.hold != Hold::None {
			push(Case { hold: Hold::None, ..c.clone() });
		}
		if c.looped {
			push(Case { looped: false, ..c.clone() });
		}
		if c.fail_decode.is_some() {
			push(Case { fail_decode: None, ..c.clone() });
		}
		if c.fail_seek.is_some() {
			push(Case { fail_seek: None, ..c.clone() });
		}
		if c.pace != Pace::Ahead {
			push(Case { pace: Pace::Ahead, ..c.clone() });
		}
		if c.callbacks > 2 {
			push(Case { callbacks: c.callbacks / 2, ..c.clone() });
		}
		if c.len > 8 {
			push(Case { len: c.len / 2, ..c.clone() });
		}
		if c.seek_gran != 1 {
			push(Case { seek_gran: 1, ..c.clone() });
		}
		out
	}
}
