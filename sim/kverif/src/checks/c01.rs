//! C01 - the audio callback is real-time safe and its output is well-formed.
//!
//! "Chaos" workload over the whole public API with only the always-on monitors as
//! oracle: no panic / allocation / free in the audio role, every sample finite and
//! in [-1, 1], channels >= 2 silent, mono == mean of a 2-channel twin world, no hang.

use serde::{Deserialize, Serialize};
use serde_json::Value;

use crate::{
	backend::SENTINEL,
	core::*,
	decoder::DecoderSpec,
	gen::{Tiers, G},
	known,
	monitor::panic_signature,
	rng::{derive_seed, Hasher64, Rng},
	sched::Sim,
	spec::*,
	world::*,
};

#[derive(Clone, Debug, Serialize, Deserialize)]
pub struct Case {
	pub seed: u64,
	pub cfg: WorldConfig,
	/// render a second world with 2 channels in lock-step (mono fold-down oracle)
	pub twin: bool,
	pub ops: Vec<Op>,
}

pub struct C01;

fn gen_case(seed: u64, tier: Tier) -> Case {
	let mut rng = Rng::new(seed);
	let tiers = Tiers {
		t1: *rng.pick(&[0.05, 0.2, 0.2, 0.4]),
		t2: if known::is_open("C01-t2-disabled") { 0.0 } else { *rng.pick(&[0.0, 0.0, 0.03, 0.1]) },
	};
	let max_ops = match tier {
		Tier::Quick => 60,
		Tier::Thorough => 160,
	};
	let n_ops = rng.urange(8, max_ops);
	let sample_rate = *rng.pick(&[8000u32, 11_025, 22_050, 44_100, 44_100, 48_000, 48_000, 96_000, 192_000, 8001, 12_345]);
	let internal_buffer_size = *rng.pick(&[1usize, 2, 3, 7, 16, 64, 128, 128, 129, 512, 4096]);
	let channels_mode = rng.below(4); // 0: always 2, 1: always 1, 2: fixed n, 3: varying
	let fixed_channels = rng.urange(1, 8) as u16;
	let cb_mode = rng.below(5);
	let features = rng.next_u64();
	let feat = |bit: u32| features >> bit & 1 == 1;
	let allow_streaming = feat(0) && feat(1);
	let allow_spatial = feat(2);
	let allow_sends = feat(3) || feat(4);
	let allow_clocks = feat(5) || feat(6);
	let allow_mods = feat(7) || feat(8);
	let allow_rate_change = feat(9) && feat(10);
	let cap = |rng: &mut Rng| -> usize { *rng.pick(&[1usize, 2, 3, 8, 8]) };
	let caps = CapsSpec {
		sub_tracks: cap(&mut rng),
		send_tracks: cap(&mut rng),
		clocks: cap(&mut rng),
		modulators: cap(&mut rng),
		listeners: cap(&mut rng),
	};
	let mut g = G::new(&mut rng, tiers);
	g.allow_mod_links = false; // nothing exists yet when the main track is built
	let cfg = WorldConfig {
		sample_rate,
		internal_buffer_size,
		caps,
		main_volume: g.db(),
		main_effects: g.effects(2),
		main_sound_capacity: *g.rng.pick(&[1usize, 2, 8, 16]),
	};
	g.allow_mod_links = allow_mods;
	let mut ops = Vec::new();
	let (mut n_tracks, mut n_sends, mut n_listeners, mut n_sounds) = (0usize, 0usize, 0usize, 0usize);
	let mut last_len = 100usize;
	let mut last_sr = 48_000u32;
	let mut frames_total = 0usize;
	let frame_budget = match tier {
		Tier::Quick => 12_000,
		Tier::Thorough => 40_000,
	};
	let weights_base: [u32; 18] = [
		6,  // 0 add track
		3,  // 1 add send
		3,  // 2 add clock
		3,  // 3 add modulator
		2,  // 4 add listener
		10, // 5 play static
		4,  // 6 play streaming
		10, // 7 sound cmd
		6,  // 8 track cmd
		2,  // 9 main volume / send volume
		4,  // 10 clock cmd
		3,  // 11 mod cmd
		3,  // 12 listener cmd
		5,  // 13 effect cmd
		5,  // 14 drop
		22, // 15 callback
		1,  // 16 change rate
		2,  // 17 query / decoders
	];
	let mut weights = weights_base;
	// swarm: randomly mute some op kinds for this run
	for w in weights.iter_mut() {
		if g.rng.chance(0.15) {
			*w = 0;
		}
	}
	weights[5] = weights[5].max(4);
	weights[15] = weights[15].max(10);
	if !allow_streaming {
		weights[6] = 0;
	}
	if !allow_sends {
		weights[1] = 0;
	}
	if !allow_clocks {
		weights[2] = 0;
		weights[10] = 0;
	}
	if !allow_mods {
		weights[3] = 0;
		weights[11] = 0;
	}
	if !allow_spatial {
		weights[4] = 0;
		weights[12] = 0;
	}
	if !allow_rate_change {
		weights[16] = 0;
	}
	g.allow_clock_starts = allow_clocks;
	while ops.len() < n_ops {
		let k = g.rng.weighted(&weights);
		let op = match k {
			0 => {
				let spatial = if allow_spatial && n_listeners > 0 && g.rng.chance(0.4) {
					g.allow_dist_links = true;
					Some(g.spatial_spec())
				} else {
					None
				};
				let spec = g.track_spec(n_sends);
				g.allow_dist_links = false;
				n_tracks += 1;
				Op::AddTrack {
					parent: if n_tracks > 1 && g.rng.chance(0.4) { Some(g.rng.usize_below(8)) } else { None },
					spec,
					spatial,
				}
			}
			1 => {
				n_sends += 1;
				Op::AddSend {
					volume: g.db(),
					effects: g.effects(2),
				}
			}
			2 => {
				g.n_clocks += 1;
				Op::AddClock { speed: g.speed() }
			}
			3 => {
				g.n_mods += 1;
				if g.rng.chance(0.5) {
					Op::AddTweener {
						initial: g.rng.frange(-1.0, 2.0),
					}
				} else {
					Op::AddLfo {
						wave: match g.rng.below(4) {
							0 => WaveS::Sine,
							1 => WaveS::Triangle,
							2 => WaveS::Saw,
							_ => WaveS::Pulse(g.rng.f64()),
						},
						frequency: g.f64_in(0.1, 200.0, &[0.0, 1.0, 24_000.0, 1e6], &[1e300, 1e-300]),
						amplitude: g.f64_in(-2.0, 2.0, &[0.0, 1.0, -1.0], &[1e300, -1e300]),
						offset: g.f64_in(-1.0, 1.0, &[0.0, 1.0], &[1e300, -1e300]),
						phase: g.rng.frange(0.0, 7.0),
					}
				}
			}
			4 => {
				n_listeners += 1;
				Op::AddListener {
					position: Val::Fixed(g.v3()),
					orientation: Val::Fixed(g.q4()),
				}
			}
			5 => {
				let data = g.data(600);
				let slice = if g.rng.chance(0.2) && data.len > 0 {
					let a = g.rng.usize_below(data.len);
					let b = g.rng.urange(a, data.len);
					Some((a, b))
				} else {
					None
				};
				let eff_len = slice.map(|(a, b)| b - a).unwrap_or(data.len);
				let settings = g.sound_settings(eff_len, data.sample_rate, false);
				n_sounds += 1;
				last_len = eff_len.max(1);
				last_sr = data.sample_rate;
				Op::PlayStatic {
					track: if n_tracks > 0 && g.rng.chance(0.7) { Some(g.rng.usize_below(8)) } else { None },
					data,
					slice,
					settings,
				}
			}
			6 => {
				let data = g.data(900);
				let slice = if g.rng.chance(0.2) && data.len > 0 {
					let a = g.rng.usize_below(data.len);
					let b = g.rng.urange(a, data.len);
					Some((a, b))
				} else {
					None
				};
				let eff_len = slice.map(|(a, b)| b - a).unwrap_or(data.len);
				let mut settings = g.sound_settings(eff_len, data.sample_rate, true);
				settings.reverse = false;
				let decoder = DecoderSpec {
					data,
					packets: {
						// empty packets are legal, but a decoder that never delivers a frame
						// and never reports an error or end of data is not a decoder
						let mut p: Vec<usize> = (0..g.rng.urange(1, 4)).map(|_| *g.rng.pick(&[0usize, 1, 3, 17, 64, 256])).collect();
						if p.iter().all(|n| *n == 0) {
							p.push(5);
						}
						p
					},
					seek_gran: *g.rng.pick(&[1usize, 1, 4, 64]),
					fail_decode: if g.rng.chance(0.15) { vec![g.rng.below(12)] } else { vec![] },
					fail_seek: if g.rng.chance(0.08) { vec![g.rng.below(3)] } else { vec![] },
					fail_sticky: g.rng.chance(0.5),
					slow: 0,
				};
				n_sounds += 1;
				last_len = eff_len.max(1);
				last_sr = data.sample_rate;
				Op::PlayStreaming {
					track: if n_tracks > 0 && g.rng.chance(0.7) { Some(g.rng.usize_below(8)) } else { None },
					decoder,
					slice,
					settings,
				}
			}
			7 if n_sounds > 0 => Op::Sound {
				sound: g.rng.usize_below(n_sounds.max(1)),
				cmd: g.sound_cmd(last_len, last_sr),
			},
			8 if n_tracks > 0 => Op::Track {
				track: g.rng.usize_below(8),
				cmd: match g.rng.below(8) {
					0 | 1 => TrackCmd::SetVolume(g.db(), g.tween()),
					2 => TrackCmd::Pause(g.tween()),
					3 => TrackCmd::Resume(g.tween()),
					4 => TrackCmd::ResumeAt(g.start(), g.tween()),
					5 => TrackCmd::SetSend(g.rng.usize_below(4), g.db(), g.tween()),
					6 => TrackCmd::SetPosition(Val::Fixed(g.v3()), g.tween()),
					_ => TrackCmd::SetStrength(Val::Fixed(g.rng.f64() as f32), g.tween()),
				},
			},
			9 => {
				if n_sends > 0 && g.rng.chance(0.5) {
					Op::SendVolume {
						send: g.rng.usize_below(4),
						volume: g.db(),
						tween: g.tween(),
					}
				} else {
					Op::MainVolume(g.db(), g.tween())
				}
			}
			10 if g.n_clocks > 0 => Op::Clock {
				clock: g.rng.usize_below(4),
				cmd: match g.rng.below(6) {
					0 | 1 | 2 => ClockCmd::Start,
					3 => ClockCmd::Pause,
					4 => ClockCmd::Stop,
					_ => ClockCmd::SetSpeed(g.speed(), g.tween()),
				},
			},
			11 if g.n_mods > 0 => Op::Mod {
				modulator: g.rng.usize_below(6),
				cmd: match g.rng.below(6) {
					0 | 1 => ModCmd::TweenerSet(g.rng.frange(-1.0, 2.0), g.tween()),
					2 => ModCmd::LfoWaveform(*g.rng.pick(&[WaveS::Sine, WaveS::Saw, WaveS::Triangle, WaveS::Pulse(0.5)])),
					3 => ModCmd::LfoFrequency(Val::Fixed(g.rng.frange(0.0, 100.0)), g.tween()),
					4 => ModCmd::LfoAmplitude(Val::Fixed(g.rng.frange(-2.0, 2.0)), g.tween()),
					_ => ModCmd::LfoPhase(g.rng.frange(0.0, 7.0)),
				},
			},
			12 if n_listeners > 0 => {
				if g.rng.chance(0.5) {
					Op::ListenerPos {
						listener: g.rng.usize_below(4),
						position: Val::Fixed(g.v3()),
						tween: g.tween(),
					}
				} else {
					Op::ListenerRot {
						listener: g.rng.usize_below(4),
						orientation: Val::Fixed(g.q4()),
						tween: g.tween(),
					}
				}
			}
			13 => Op::Effect {
				effect: g.rng.usize_below(12),
				cmd: g.effect_cmd(),
			},
			14 => Op::Drop {
				kind: *g.rng.pick(&[Kind::Track, Kind::Track, Kind::Send, Kind::Clock, Kind::Modulator, Kind::Listener, Kind::Sound]),
				index: g.rng.usize_below(8),
			},
			15 => {
				if frames_total >= frame_budget {
					continue;
				}
				let frames = match cb_mode {
					0 => 64,
					1 => g.rng.urange(1, 300),
					2 => 1,
					3 => *g.rng.pick(&[0usize, 1, 127, 128, 129, 255, 256, 513, 1000]),
					_ => *g.rng.pick(&[16usize, 128, 1024, 2048]),
				};
				frames_total += frames;
				let channels = match channels_mode {
					0 => 2,
					1 => 1,
					2 => fixed_channels,
					_ => g.rng.urange(1, 8) as u16,
				};
				if allow_streaming && g.rng.chance(0.7) {
					ops.push(Op::Decoders {
						max_iters: *g.rng.pick(&[1u64, 10, 100, 20_000]),
					});
				}
				Op::Callback { frames, channels }
			}
			16 => Op::ChangeRate {
				hz: *g.rng.pick(&[8000u32, 22_050, 44_100, 48_000, 96_000, 192_000]),
			},
			17 => {
				if g.rng.chance(0.5) {
					Op::Query
				} else {
					Op::Decoders {
						max_iters: *g.rng.pick(&[1u64, 5, 50, 20_000]),
					}
				}
			}
			_ => continue,
		};
		ops.push(op);
	}
	// always end with a few callbacks so late commands take effect
	for _ in 0..3 {
		ops.push(Op::Callback { frames: 97, channels: 2 });
	}
	let twin = g.rng.chance(0.5);
	Case { seed, cfg, twin, ops }
}

fn avoid_from_known() -> Avoid {
	Avoid {
		distortion_silent_drive: known::is_open("C01-distortion-silent-drive"),
		compressor_ratio_zero: known::is_open("C01-compressor-ratio-zero"),
	}
}

pub fn run_case(case: &Case) -> CaseResult {
	let mut res = CaseResult::default();
	let mut trace = Hasher64::new();
	let mut beh = Hasher64::new();
	let sim = Sim::new(case.seed);
	let sim2 = if case.twin { Some(sim.clone()) } else { None };
	let world = World::new(&case.cfg, Some(sim.clone()));
	let mut world = match world {
		Ok(w) => w,
		Err(msg) => {
			// manager construction panicked on the caller's thread: not a C01 matter
			res.hit("setup_gameplay_panic");
			trace.str(&msg);
			res.trace_hash = trace.finish();
			sim.shutdown();
			return res;
		}
	};
	world.avoid = avoid_from_known();
	let mut twin = if case.twin {
		match World::new(&case.cfg, sim2) {
			Ok(mut w) => {
				w.avoid = avoid_from_known();
				Some(w)
			}
			Err(_) => None,
		}
	} else {
		None
	};
	let mut nonsilent_callbacks = 0u64;
	'ops: for (i, op) in case.ops.iter().enumerate() {
		let outcome = world.exec(op);
		let twin_op = match op {
			Op::Callback { frames, .. } => Op::Callback { frames: *frames, channels: 2 },
			other => other.clone(),
		};
		let twin_outcome = twin.as_mut().map(|t| t.exec(&twin_op));
		if let Some(p) = &outcome.gameplay_panic {
			res.hit("gameplay_side_panics");
			trace.str(p);
		}
		if outcome.limit {
			res.hit("limit_errors");
		}
		if outcome.created {
			res.hit("resources_created");
		}
		trace.u64(i as u64);
		if let Some(cb) = &outcome.callback {
			if let Some(p) = &cb.panic {
				res.fail(Violation::new(
					"panic-monitor",
					format!("audio-panic: {}", panic_signature(p)),
					format!("op {i} ({}) panicked in the audio role: {p}", op_name(op)),
				));
				break 'ops;
			}
			if cb.allocs > 0 || cb.frees > 0 {
				res.fail(Violation::new(
					"heap-monitor",
					"audio-heap-traffic",
					format!("op {i} ({}): {} allocations and {} frees in the audio role", op_name(op), cb.allocs, cb.frees),
				));
				break 'ops;
			}
			if let Op::Callback { frames, channels } = op {
				let ch = (*channels).max(1) as usize;
				let out = &world.out;
				let mut nonsilent = false;
				let mut clipped = false;
				for (j, s) in out.iter().enumerate() {
					trace.f32(*s);
					let c = j % ch;
					if !s.is_finite() {
						res.fail(Violation::new(
							"output-form",
							"output-nonfinite",
							format!("op {i}: sample {j} (frame {}, channel {c}) is {s}", j / ch),
						));
						break 'ops;
					}
					if *s == SENTINEL {
						res.fail(Violation::new("output-form", "output-unwritten", format!("op {i}: sample {j} was not written")));
						break 'ops;
					}
					if *s < -1.0 || *s > 1.0 {
						res.fail(Violation::new("output-form", "output-out-of-range", format!("op {i}: sample {j} = {s}")));
						break 'ops;
					}
					if c >= 2 && s.to_bits() != 0 && *s != 0.0 {
						res.fail(Violation::new(
							"output-form",
							"extra-channel-not-silent",
							format!("op {i}: channel {c} of frame {} = {s}", j / ch),
						));
						break 'ops;
					}
					if *s != 0.0 {
						nonsilent = true;
					}
					if s.abs() == 1.0 {
						clipped = true;
					}
				}
				if nonsilent {
					nonsilent_callbacks += 1;
				}
				if ch == 1 {
					res.hit("mono_callbacks");
				}
				if ch > 2 {
					res.hit("multichannel_callbacks");
				}
				if *frames % case.cfg.internal_buffer_size.max(1) != 0 {
					res.hit("callbacks_not_multiple_of_internal_buffer");
				}
				beh.u64(nonsilent as u64 | (clipped as u64) << 1 | (ch.min(3) as u64) << 2);
				// twin oracle
				if let (Some(t), Some(Some(tcb))) = (twin.as_ref(), twin_outcome.as_ref().map(|o| o.callback.as_ref())) {
					if tcb.panic.is_none() && t.out.len() == frames * 2 {
						for f in 0..*frames {
							let (l, r) = (t.out[2 * f], t.out[2 * f + 1]);
							if ch == 1 {
								let expect = (l + r) / 2.0;
								let got = out[f];
								if got != expect && !(got.is_nan() && expect.is_nan()) {
									res.fail(Violation::new(
										"mono-twin",
										"mono-not-mean",
										format!("op {i}: frame {f}: mono sample {got} but stereo twin has ({l}, {r}), mean {expect}"),
									));
									break 'ops;
								}
							} else if out[ch * f] != l || out[ch * f + 1] != r {
								res.fail(Violation::new(
									"mono-twin",
									"twin-diverged",
									format!("op {i}: frame {f}: ({}, {}) vs twin ({l}, {r})", out[ch * f], out[ch * f + 1]),
								));
								break 'ops;
							}
						}
						res.hit("twin_callbacks_compared");
					}
				}
			}
		}
		// abstract state for the behaviour signature
		if matches!(op, Op::Callback { .. }) {
			let mut states = [0u8; 7];
			for s in world.sounds.iter().filter_map(|e| e.handle.as_ref()) {
				let st = crate::monitor::catch(|| s.state());
				if let Ok(st) = st {
					states[st as usize] = states[st as usize].saturating_add(1).min(3);
				}
			}
			for s in states {
				beh.u64(s as u64);
			}
		}
	}
	// decoder-side panics are attributed to C10, but a panic anywhere must not go unseen
	for (role, name, msg) in sim.take_panics() {
		res.hit("non_audio_task_panics");
		trace.str(&format!("{role:?}{name}{msg}"));
	}
	res.frames = world.frames_rendered;
	res.callbacks = world.callbacks;
	res.sim_seconds = world.sim_seconds;
	res.nontrivial = nonsilent_callbacks > 0;
	for op in &case.ops {
		res.hit(&format!("op.{}", op_name(op)));
	}
	drop(twin);
	drop(world);
	sim.shutdown();
	res.behaviour_sig = beh.finish();
	res.trace_hash = trace.finish();
	res
}

pub fn op_name(op: &Op) -> &'static str {
	match op {
		Op::AddTrack { spatial: Some(_), .. } => "add_spatial_track",
		Op::AddTrack { .. } => "add_track",
		Op::AddSend { .. } => "add_send",
		Op::AddClock { .. } => "add_clock",
		Op::AddTweener { .. } => "add_tweener",
		Op::AddLfo { .. } => "add_lfo",
		Op::AddListener { .. } => "add_listener",
		Op::PlayStatic { .. } => "play_static",
		Op::PlayStreaming { .. } => "play_streaming",
		Op::Sound { .. } => "sound_cmd",
		Op::Track { .. } => "track_cmd",
		Op::MainVolume(..) => "main_volume",
		Op::SendVolume { .. } => "send_volume",
		Op::Clock { .. } => "clock_cmd",
		Op::Mod { .. } => "mod_cmd",
		Op::ListenerPos { .. } => "listener_pos",
		Op::ListenerRot { .. } => "listener_rot",
		Op::Effect { .. } => "effect_cmd",
		Op::Drop { .. } => "drop",
		Op::Callback { .. } => "callback",
		Op::ChangeRate { .. } => "change_rate",
		Op::Decoders { .. } => "decoders",
		Op::Query => "query",
	}
}

impl Check for C01 {
	fn info(&self) -> CheckInfo {
		CheckInfo {
			id: "C01",
			level: "exploration",
			rule: "each case = seeded world configuration (capacities, internal buffer size, sample rate, channel mode, callback-size distribution, enabled feature subset, value-tier mix) + seeded op list over the whole public API (every resource kind, every built-in effect incl. nested delay feedback, static + streaming sounds, every handle command, drops, sample-rate changes) interleaved with device callbacks; non-trivial = at least one callback rendered non-silent audio; distinct = distinct hash of the per-callback sequence (silent/non-silent/clipped, channel class, multiset of sound playback states)",
			assumptions: vec![
				"internal_buffer_size >= 1 and 1..=8 output channels (0 is rejected as a degenerate configuration, not generated)".into(),
				"playback rates are capped at 1000 and clock speeds at 1e6 ticks/s so that work that is linear in the rate by design keeps a run bounded".into(),
				"'returns promptly' is judged by a CPU-time watchdog (20 CPU-seconds for a run that normally takes milliseconds), not by worst-case execution time".into(),
				"input classes named by open known findings are not generated (listed under coverage.known_findings_listed)".into(),
				"panics on the caller's thread (e.g. in into_sound) are counted, not judged, here".into(),
			],
			components: vec![
				("AudioManager, handles, builders", "real"),
				("Renderer, mixer, tracks, sounds, effects, clocks, modulators, listeners", "real"),
				("decoder thread loop (DecodeScheduler)", "real, gated by the simulator"),
				("audio device / callback timing", "stub (SimBackend)"),
				("Decoder implementation", "stub (scripted decoder)"),
			],
		}
	}

	fn num_cases(&self, tier: Tier) -> u64 {
		match tier {
			Tier::Quick => 60_000,
			Tier::Thorough => 1_500_000,
		}
	}

	fn case(&self, tier: Tier, seed: u64, index: u64) -> Value {
		serde_json::to_value(gen_case(derive_seed(seed, 1, index), tier)).unwrap()
	}

	fn run(&self, case: &Value) -> CaseResult {
		let case: Case = serde_json::from_value(case.clone()).expect("malformed C01 case");
		run_case(&case)
	}

	fn shrink(&self, case: &Value) -> Vec<Value> {
		let mut out = shrink_ops_array(case, "ops");
		// simplifications of the configuration
		let mut c = case.clone();
		if c["twin"] == Value::Bool(true) {
			c["twin"] = Value::Bool(false);
			out.push(c);
		}
		let mut c = case.clone();
		if c["cfg"]["main_effects"].as_array().map(|a| !a.is_empty()).unwrap_or(false) {
			c["cfg"]["main_effects"] = Value::Array(vec![]);
			out.push(c);
		}
		out
	}
}
