//! C18 - decoding is faithful; streaming a file equals loading it; bad files give errors.
//!
//! PCM WAV files come from an independent encoder in the harness (u8, s16, s24,
//! s32, f32, f64; 1..4 channels; any rate and length) and are read through a
//! media source that injects I/O faults. Fault-free: loaded frames, count and
//! rate must equal the independent decode; streaming the same bytes through the
//! real Symphonia decoder (decoder thread gated by the simulator) must yield the
//! loaded frames from any start position and after any seek sequence. Fault
//! enumeration: every byte offset of small files x {truncate, flip a bit, I/O
//! error, short reads, EINTR, unseekable}: an error or the valid prefix, never a
//! panic, a hang or invented samples. The shipped assets are loaded, streamed,
//! truncated and corrupted the same way.

use std::io::Cursor;

use kira::{
	info::MockInfoBuilder,
	sound::{
		static_sound::StaticSoundData,
		streaming::{StreamingSoundData, StreamingSoundSettings},
		FromFileError, PlaybackState, SoundData,
	},
	Frame,
};
use serde::{Deserialize, Serialize};
use serde_json::Value as Json;

use crate::{
	core::*,
	monitor::{self, panic_signature, Role},
	rng::{derive_seed, Hasher64, Rng},
	sched::Sim,
	wav::*,
};

#[derive(Clone, Debug, Serialize, Deserialize)]
pub enum Stream {
	Load { spec: WavSpec },
	Fault { spec: WavSpec, fault: Fault, streaming: bool },
	StreamFile {
		spec: WavSpec,
		start: usize,
		seeks: Vec<(usize, usize)>,
		/// the second seek (if any) is issued as `seek_by` from the position the handle reports
		#[serde(default)]
		second_by: bool,
		chunks: usize,
		chunk: usize,
		/// loop region in frames (start, exclusive end)
		#[serde(default)]
		loop_region: Option<(usize, usize)>,
	},
	Asset { name: String, fault: Fault, stream_start: f64 },
}

#[derive(Clone, Debug, Serialize, Deserialize)]
pub struct Case {
	pub seed: u64,
	pub stream: Stream,
}

const ASSETS: [&str; 4] = ["sine.wav", "blip.ogg", "score.ogg", "drums.ogg"];
const ENCS: [Enc; 6] = [Enc::U8, Enc::S16, Enc::S24, Enc::S32, Enc::F32, Enc::F64];

fn exact_rate(sr: u32) -> bool {
	let s = sr as f64;
	s * (1.0 / s) == 1.0
}

fn gen_case(seed: u64, index: u64, tier: Tier) -> Case {
	let mut rng = Rng::new(seed);
	let stream = match index % 8 {
		1 => {
			// systematic header corruption: (encoding x mono / stereo) x every bit of every size and
			// format field of the RIFF header (plain header first, then the extensible one; loaded
			// first, then streamed): a corrupted header describes a different - possibly absurd -
			// file; whatever it describes, loading it returns
			let code = index / 8;
			let enc = ENCS[(code % 6) as usize];
			let channels = 1 + ((code / 6) % 2) as u16;
			let round = code / 12;
			// 448 rounds per variant (the extensible header has 56 such bytes): plain loaded (covered
			// completely by the quick tier), extensible loaded, plain streamed, extensible streamed
			let variant = (round / 448) % 4;
			let extensible = variant % 2 == 1;
			let fields: Vec<usize> = if extensible { (4..8).chain(16..68).collect() } else { (4..8).chain(16..44).collect() };
			let j = (round % 448) as usize % (fields.len() * 8);
			let (byte, bit) = (fields[j / 8], (j % 8) as u8);
			let byte = if extensible && (byte == 22 || byte == 23) && crate::known::is_open("C18-symphonia-extensible-channel-count") { 24 } else { byte };
			Stream::Fault {
				spec: WavSpec {
					enc,
					channels,
					sample_rate: 44_100,
					frames: 12,
					seed: rng.next_u64(),
					indexed: false,
					extensible,
				},
				fault: Fault::Flip(byte, bit),
				streaming: variant >= 2,
			}
		}
		0 => Stream::Load {
			spec: WavSpec {
				enc: *rng.pick(&ENCS),
				channels: *rng.pick(&[1u16, 1, 2, 2, 3, 4]),
				sample_rate: *rng.pick(&[8000u32, 11_025, 22_050, 44_100, 48_000, 96_000, 12_345]),
				frames: match rng.below(5) {
					0 => rng.urange(0, 3),
					_ => rng.urange(3, if tier == Tier::Quick { 1500 } else { 6000 }),
				},
				seed: rng.next_u64(),
				indexed: false,
				extensible: rng.chance(0.35),
			},
		},
		2..=5 => {
			// systematic: (encoding, channels, fault kind, byte offset) over a small file
			let code = index / 8 * 4 + (index % 8 - 2);
			let enc = ENCS[(code % 6) as usize];
			let channels = 1 + ((code / 6) % 2) as u16;
			let frames = 12usize;
			let extensible = (code / 7) % 3 == 0;
			let data_offset = if extensible { 68 } else { 44 };
			let len = data_offset + frames * enc.bytes() * channels as usize;
			let kind = (code / 12) % 6;
			let k = ((code / 72) as usize) % (len + 4);
			// known finding (open): a corrupted channel count in an extensible header panics inside
			// symphonia (debug builds); while it is listed those two header bytes are not flipped
			let k_flip = if extensible && (k == 22 || k == 23) && crate::known::is_open("C18-symphonia-extensible-channel-count") { 24 } else { k };
			let fault = match kind {
				0 => Fault::Truncate(k),
				1 => Fault::Flip(k_flip, (rng.below(8)) as u8),
				2 => Fault::IoError(k),
				3 => Fault::Interrupted(k as u64 % 12),
				4 => Fault::ShortReads(1 + k % 9),
				_ => Fault::Unseekable,
			};
			Stream::Fault {
				spec: WavSpec {
					enc,
					channels,
					sample_rate: 44_100,
					frames,
					seed: rng.next_u64(),
					indexed: false,
					extensible,
				},
				fault,
				streaming: rng.chance(0.3),
			}
		}
		6 => {
			let frames = rng.urange(17_000, 40_000);
			let chunks = rng.urange(20, 60);
			let tail_seeks_ok = !crate::known::is_open("C18-seek-ignored-after-decode-end");
			let start = if rng.chance(0.5) { 0 } else { rng.usize_below(frames) };
			Stream::StreamFile {
				spec: WavSpec {
					enc: *rng.pick(&[Enc::S16, Enc::S16, Enc::S24, Enc::S32, Enc::F32]),
					channels: *rng.pick(&[1u16, 2]),
					sample_rate: *rng.pick(&[8000u32, 22_050, 44_100, 48_000]),
					frames,
					seed: 0,
					indexed: true,
					extensible: rng.chance(0.3),
				},
				start,
				seeks: {
					let chunk_probe = 1000usize;
					let mut v: Vec<(usize, usize)> = (0..rng.usize_below(3)).map(|_| (rng.usize_below(chunks), rng.usize_below(frames + 10))).collect();
					if !tail_seeks_ok {
						// known finding (open): seeks are ignored once the decoder has reached the end of
						// the file; only seek while more than a ring of audio is still undecoded
						v.sort_by_key(|s| s.0);
						v.dedup_by_key(|s| s.0);
						v.iter_mut().for_each(|s| s.1 = s.1.min(frames.saturating_sub(18_000)));
						// (the first seek while the stream, played from `start`, is far from decoded;
						// a second one while the stream, played on from the first target, still is)
						let first_ok = v.first().map(|(at, _)| start + (at + 2) * chunk_probe + 16_384 + 64 < frames).unwrap_or(true);
						if !first_ok {
							v.clear();
						}
						if v.len() == 2 && !(v[0].1 + (v[1].0 - v[0].0 + 2) * chunk_probe + 16_384 + 64 < frames) {
							v.truncate(1);
						}
					}
					// (two targets within a frame of each other cannot be told apart by the jump oracle,
					// which grants a seek one frame: keep them well apart)
					if v.len() == 2 && (v[0].1 as i64 - v[1].1 as i64).abs() <= 4 {
						v[1].1 += 9;
					}
					v
				},
				second_by: rng.chance(0.5),
				chunks,
				chunk: if tail_seeks_ok { *rng.pick(&[64usize, 256, 1000]) } else { *rng.pick(&[64usize, 256, 1000]) },
				loop_region: if rng.chance(0.35) {
					let a = rng.usize_below(frames / 2);
					Some((a, rng.urange(a + 2000, frames + 1)))
				} else {
					None
				},
			}
		}
		_ => {
			let name = ASSETS[rng.usize_below(if tier == Tier::Quick { 3 } else { 4 })].to_string();
			let fault = match rng.below(6) {
				0 => Fault::None,
				1 | 2 => Fault::Truncate(rng.usize_below(30_000)),
				3 | 4 => Fault::Flip(rng.usize_below(30_000), rng.below(8) as u8),
				_ => Fault::ShortReads(rng.urange(1, 50)),
			};
			// known finding (open): Vorbis streams are only correct from position 0
			let stream_start = if name.ends_with(".ogg") && crate::known::is_open("C18-ogg-start-position") { 0.0 } else { rng.frange(0.0, 0.2) };
			Stream::Asset { name, fault, stream_start }
		}
	};
	Case { seed, stream }
}

fn load(bytes: Vec<u8>, fault: Fault) -> Result<Result<StaticSoundData, FromFileError>, String> {
	monitor::catch(move || {
		let (src, _) = FaultyMediaSource::new(bytes, fault);
		StaticSoundData::from_media_source(src)
	})
}

fn frames_equal(a: &Frame, b: &Frame) -> bool {
	(a.left == b.left || (a.left.is_nan() && b.left.is_nan())) && (a.right == b.right || (a.right.is_nan() && b.right.is_nan()))
}

fn run_load(spec: &WavSpec, res: &mut CaseResult, trace: &mut Hasher64) {
	let bytes = encode(spec);
	let want = reference_frames(spec, &bytes);
	match load(bytes, Fault::None) {
		Err(p) => res.fail(Violation::new("no-panic", format!("loader-panicked: {}", panic_signature(&p)), format!("loading a valid {spec:?} panicked: {p}"))),
		Ok(Err(e)) => {
			if spec.channels <= 2 {
				res.fail(Violation::new("faithful", "valid-file-rejected", format!("a valid {spec:?} was rejected: {e}")));
			} else if !matches!(e, FromFileError::UnsupportedChannelConfiguration) && spec.frames > 0 {
				res.fail(Violation::new("faithful", "wrong-error-for-multichannel", format!("{} channels: expected UnsupportedChannelConfiguration, got {e}", spec.channels)));
			} else {
				res.hit("multichannel_rejected");
			}
		}
		Ok(Ok(data)) => {
			if spec.channels > 2 && spec.frames > 0 {
				res.fail(Violation::new("faithful", "multichannel-accepted", format!("{} channels were accepted ({} frames loaded)", spec.channels, data.frames.len())));
				return;
			}
			if data.sample_rate != spec.sample_rate {
				res.fail(Violation::new("faithful", "sample-rate-wrong", format!("file says {} Hz, loaded {}", spec.sample_rate, data.sample_rate)));
				return;
			}
			if spec.channels <= 2 && data.frames.len() != want.len() {
				res.fail(Violation::new("faithful", "frame-count-wrong", format!("{spec:?}: {} frames in the file, {} loaded", want.len(), data.frames.len())));
				return;
			}
			for (i, (a, b)) in data.frames.iter().zip(want.iter()).enumerate() {
				trace.f32(a.left);
				if !frames_equal(a, b) {
					res.fail(Violation::new(
						"faithful",
						"sample-value-wrong",
						format!("{spec:?}: frame {i} loaded as ({}, {}), the file encodes ({}, {})", a.left, a.right, b.left, b.right),
					));
					return;
				}
			}
			res.count("frames_compared", want.len() as u64);
			res.nontrivial = !want.is_empty();
		}
	}
}

/// Drives a streaming sound of `bytes` from `start` for `chunks` callbacks and
/// returns the left/right output frames (rate 1, device rate == file rate).
#[allow(clippy::too_many_arguments)]
fn stream_out(
	seed: u64,
	bytes: Vec<u8>,
	fault: Fault,
	sample_rate: u32,
	start: f64,
	seeks: &[(usize, f64)],
	chunks: usize,
	chunk: usize,
	res: &mut CaseResult,
) -> Option<(Vec<Frame>, Option<String>, PlaybackState)> {
	stream_out_looped(seed, bytes, fault, sample_rate, start, seeks, chunks, chunk, None, false, res)
}

#[allow(clippy::too_many_arguments)]
fn stream_out_looped(
	seed: u64,
	bytes: Vec<u8>,
	fault: Fault,
	sample_rate: u32,
	start: f64,
	seeks: &[(usize, f64)],
	chunks: usize,
	chunk: usize,
	loop_region: Option<(f64, f64)>,
	second_by: bool,
	res: &mut CaseResult,
) -> Option<(Vec<Frame>, Option<String>, PlaybackState)> {
	let sim = Sim::new(seed);
	let built = monitor::catch(move || {
		let (src, _) = FaultyMediaSource::new(bytes, fault);
		StreamingSoundData::from_media_source(src).and_then(|d| {
			let mut settings = StreamingSoundSettings::new().start_position(start);
			if let Some((a, b)) = loop_region {
				settings = settings.loop_region(a..b);
			}
			d.with_settings(settings).into_sound()
		})
	});
	let (mut sound, mut handle) = match built {
		Err(p) => {
			res.fail(Violation::new("no-panic", format!("streaming-setup-panicked: {}", panic_signature(&p)), format!("creating the streaming sound panicked: {p}")));
			sim.shutdown();
			return None;
		}
		Ok(Err(e)) => {
			sim.shutdown();
			return Some((vec![], Some(format!("{e}")), PlaybackState::Stopped));
		}
		Ok(Ok(x)) => x,
	};
	let decoders = sim.live_tasks(Role::Decoder);
	let info = MockInfoBuilder::new().build();
	let dt = 1.0 / sample_rate as f64;
	let mut out = Vec::with_capacity(chunks * chunk);
	let mut buf = vec![Frame::ZERO; chunk];
	for c in 0..chunks {
		for (si, (at, pos)) in seeks.iter().enumerate() {
			if *at == c {
				if second_by && si == 1 {
					// relative to the position the handle reports now (which is what the decoder reads)
					handle.seek_by(*pos - handle.position());
					res.hit("relative_seeks_after_an_earlier_seek");
				} else {
					handle.seek_to(*pos);
				}
			}
		}
		for d in &decoders {
			let _ = sim.step(*d, 40_000);
		}
		let r = monitor::catch(|| {
			sound.on_start_processing();
			sound.process(&mut buf, dt, &info);
		});
		if let Err(p) = r {
			res.fail(Violation::new("no-panic", format!("streaming-sound-panicked: {}", panic_signature(&p)), p));
			break;
		}
		out.extend_from_slice(&buf);
	}
	let err = handle.pop_error().map(|e| format!("{e}"));
	let state = handle.state();
	for (role, name, msg) in sim.take_panics() {
		res.fail(Violation::new("no-panic", format!("decoder-thread-panicked: {}", panic_signature(&msg)), format!("{role:?} task {name}: {msg}")));
	}
	drop(sound);
	drop(handle);
	sim.shutdown();
	Some((out, err, state))
}

pub fn run_case(case: &Case) -> CaseResult {
	let mut res = CaseResult::default();
	let mut trace = Hasher64::new();
	let mut beh = Hasher64::new();
	match &case.stream {
		Stream::Load { spec } => {
			run_load(spec, &mut res, &mut trace);
			beh.u64(spec.enc as u64);
			beh.u64(spec.channels as u64);
			beh.u64(spec.frames.min(4) as u64);
			beh.u64(spec.sample_rate as u64);
			res.hit(&format!("enc.{:?}", spec.enc));
		}
		Stream::Fault { spec, fault, streaming } => {
			let bytes = encode(spec);
			let (probe_src, _) = FaultyMediaSource::new(bytes.clone(), *fault);
			let effective = probe_src.effective_bytes().to_vec();
			let reference = reference_frames(spec, &effective);
			let full = reference_frames(spec, &bytes);
			let in_header = match fault {
				Fault::Flip(k, _) => *k < spec.data_offset(),
				_ => false,
			};
			let kind = match fault {
				Fault::None => "none",
				Fault::Truncate(_) => "truncate",
				Fault::Flip(..) => "flip",
				Fault::IoError(_) => "io_error",
				Fault::Interrupted(_) => "interrupted",
				Fault::ShortReads(_) => "short_reads",
				Fault::Unseekable => "unseekable",
			};
			res.hit(&format!("fault.{kind}"));
			let frames: Option<Vec<Frame>> = if *streaming {
				match stream_out(case.seed, bytes.clone(), *fault, spec.sample_rate, 0.0, &[], 3, 8, &mut res) {
					None => None,
					Some((out, err, _)) => {
						if err.is_some() {
							res.hit("outcome.error");
						}
						// drop the silence after the end / after an error
						let n = out.iter().rposition(|f| f.left != 0.0 || f.right != 0.0).map(|p| p + 1).unwrap_or(0);
						Some(out[..n].to_vec())
					}
				}
			} else {
				match load(bytes.clone(), *fault) {
					Err(p) => {
						res.fail(Violation::new("no-panic", format!("loader-panicked: {}", panic_signature(&p)), format!("{spec:?} with {fault:?}: {p}")));
						None
					}
					Ok(Err(_)) => {
						res.hit("outcome.error");
						if matches!(fault, Fault::ShortReads(_)) || (*fault == Fault::Unseekable) {
							res.fail(Violation::new(
								"faults",
								"legal-io-behaviour-rejected",
								format!("{spec:?}: a source that returns short reads / cannot seek is legal, but loading failed"),
							));
						}
						None
					}
					Ok(Ok(d)) => {
						res.hit("outcome.loaded");
						Some(d.frames.to_vec())
					}
				}
			};
			if let (Some(frames), false) = (frames, in_header) {
				// an error or the valid prefix: whatever was produced must be a prefix of what the bytes say
				// (for a flip inside the sample data: of the decode of the flipped bytes)
				// (a flipped exponent bit can turn one of the last samples into an enormous or infinite
				// value: the interpolator's four-frame window then rings on - as NaN / huge values -
				// for up to four output frames after the end; that is arithmetic, not invented audio)
				let huge = |f: &Frame| !f.left.is_finite() || !f.right.is_finite() || f.left.abs() > 1e18 || f.right.abs() > 1e18;
				let tail_poisoned = reference.iter().rev().take(4).any(huge);
				let limit = reference.len().max(full.len()) + if tail_poisoned && *streaming { 4 } else { 0 };
				if frames.len() > limit {
					res.fail(Violation::new("faults", "invented-frames", format!("{spec:?} with {fault:?}: {} frames produced, the file holds {}", frames.len(), reference.len())));
				} else {
					for (i, f) in frames.iter().enumerate() {
						trace.f32(f.left);
						// a flipped bit can turn a float sample into NaN / infinity; the interpolator then
						// spreads it over its 4-frame window even at rate 1 - not an invented sample
						let lo = i.saturating_sub(2);
						let near_nonfinite = *streaming && reference[lo..reference.len().min(i + 3)].iter().any(|r| !(r.left.abs() < 1e18) || !(r.right.abs() < 1e18)); // (also astronomically large: the polynomial overflows)
						let ok = near_nonfinite || reference.get(i).map(|r| frames_equal(f, r)).unwrap_or(false);
						// streaming output of silent frames is indistinguishable from padding
						if !ok && !(*streaming && f.left == 0.0 && f.right == 0.0) {
							res.fail(Violation::new(
								"faults",
								"invented-samples",
								format!("{spec:?} with {fault:?}: frame {i} is ({}, {}), the (faulty) file encodes {:?}", f.left, f.right, reference.get(i)),
							));
							break;
						}
					}
				}
				if matches!(fault, Fault::ShortReads(_) | Fault::None) && !*streaming && frames.len() != full.len() {
					res.fail(Violation::new("faults", "short-reads-lose-data", format!("{spec:?} with {fault:?}: {} of {} frames loaded", frames.len(), full.len())));
				}
			}
			res.nontrivial = true;
			beh.u64(spec.enc as u64 * 2 + spec.channels as u64);
			beh.str(kind);
			beh.u64(match fault {
				Fault::Truncate(k) | Fault::Flip(k, _) | Fault::IoError(k) => *k as u64,
				Fault::Interrupted(k) => *k,
				Fault::ShortReads(k) => *k as u64,
				_ => 0,
			});
			beh.u64(*streaming as u64);
		}
		Stream::StreamFile { spec, start, seeks, chunks, chunk, loop_region, second_by } => {
			if !exact_rate(spec.sample_rate) {
				return res;
			}
			let bytes = encode(spec);
			let loaded = match load(bytes.clone(), Fault::None) {
				Ok(Ok(d)) => d.frames.to_vec(),
				_ => {
					res.fail(Violation::new("faithful", "valid-file-rejected", format!("{spec:?} could not be loaded")));
					return res;
				}
			};
			let sr = spec.sample_rate as f64;
			let seeks_s: Vec<(usize, f64)> = seeks.iter().map(|(at, f)| (*at, *f as f64 / sr + 0.25 / sr)).collect();
			let loop_s = loop_region.map(|(a, b)| (a as f64 / sr + 0.1 / sr, b as f64 / sr + 0.1 / sr));
			let Some((out, err, _)) = stream_out_looped(case.seed, bytes, Fault::None, spec.sample_rate, *start as f64 / sr + 0.1 / sr, &seeks_s, *chunks, *chunk, loop_s, *second_by, &mut res) else {
				return res;
			};
			// with a loop region a seek target outside it may be wrapped into it (which way depends on
			// where the decoder is at that moment): any of the three readings is accepted
			let readings = |t: usize| -> Vec<usize> {
				let mut v = vec![t];
				if let Some((a, b)) = loop_region {
					let len = b - a;
					if t >= *b {
						v.push(a + (t - a) % len);
					}
					if t < *a {
						v.push(t + (a - t).div_ceil(len) * len);
					}
				}
				v
			};
			if let Some(e) = err {
				// a seek to or past the end of the audio may be answered with an error value
				if seeks.iter().any(|(_, t)| *t + 1 >= spec.frames) || *start + 1 >= spec.frames {
					res.hit("out_of_range_seek_errors");
				} else {
					res.fail(Violation::new("streaming-equals-loading", "unexpected-error", format!("streaming a valid file reported {e}")));
					return res;
				}
			}
			// the output must be the loaded frames, starting at `start`, contiguous except for
			// jumps to the seek targets (after at most one ring of already decoded audio)
			let mut expected_next: Option<usize> = Some(*start);
			let mut pending: Vec<usize> = vec![];
			let mut maybe_later: Vec<usize> = vec![];
			let mut seek_iter = seeks.iter().collect::<Vec<_>>();
			seek_iter.sort_by_key(|s| s.0);
			let mut frames_since_seek = usize::MAX;
			let mut jumps = 0u64;
			for (k, f) in out.iter().enumerate() {
				let c = k / chunk;
				if k % chunk == 0 {
					for (at, target) in &seek_iter {
						if *at == c {
							pending.push(*target);
							frames_since_seek = 0;
						}
					}
				}
				trace.f32(f.left);
				if f.left == 0.0 && f.right == 0.0 {
					// silence: end of the file (or seek beyond it) - or the one frame whose code is zero
					if let Some(e) = expected_next {
						if loaded.get(e).map(|w| w.left == 0.0 && w.right == 0.0).unwrap_or(false) {
							expected_next = Some(e + 1);
						}
					}
					if frames_since_seek != usize::MAX {
						frames_since_seek += 1;
					}
					// the audio ran out while an in-range seek was still waiting to be carried out
					let waiting: Vec<usize> = pending.iter().copied().filter(|t| *t + 1 < spec.frames).collect();
					if !waiting.is_empty() && expected_next.map(|e| e >= spec.frames).unwrap_or(false) && pending.last().map(|t| *t + 1 < spec.frames).unwrap_or(false) {
						res.fail(Violation::new(
							"streaming-equals-loading",
							"seek-ignored",
							format!("output frame {k}: the stream played on to its end ({} frames) although seek_to(frame {:?}) was issued {frames_since_seek} frames earlier", spec.frames, waiting),
						));
						return res;
					}
					continue;
				}
				let Some(idx) = index_of(spec, f.left) else {
					res.fail(Violation::new("streaming-equals-loading", "foreign-frame", format!("output frame {k} = ({}, {}) is not a frame of the file", f.left, f.right)));
					return res;
				};
				// files of this stream are shorter than 65536 frames: the code is the frame number
				let abs = idx;
				let want = loaded.get(abs);
				if want.map(|w| !frames_equal(w, f)).unwrap_or(true) {
					res.fail(Violation::new("streaming-equals-loading", "frame-differs-from-loaded", format!("output frame {k} decodes to file frame {abs} but is ({}, {}), loaded {:?}", f.left, f.right, want)));
					return res;
				}
				if Some(abs) != expected_next {
					// a jump: must be to a pending seek target (within one frame), within one ring of the seek
					let matches_target = |t: &usize| readings(*t).iter().any(|r| (abs as i64 - *r as i64).abs() <= 1);
					let landed = pending.iter().rposition(matches_target);
					// two pending targets within a frame of each other: the landing fits both, and the
					// later one may still be carried out (a second jump to the same place)
					if landed.is_none() {
						if let Some(i) = maybe_later.iter().position(matches_target) {
							maybe_later.remove(i);
							jumps += 1;
							expected_next = Some(abs + 1);
							if frames_since_seek != usize::MAX {
								frames_since_seek += 1;
							}
							continue;
						}
					}
					if landed.is_none() {
						res.fail(Violation::new(
							"streaming-equals-loading",
							"discontinuity-without-seek",
							format!("output frame {k}: playback jumped from file frame {:?} to {abs}; pending seek targets {:?}", expected_next.map(|e| e.saturating_sub(1)), pending),
						));
						return res;
					}
					if frames_since_seek > 16_384 + chunk + 8 {
						res.fail(Violation::new("streaming-equals-loading", "seek-too-late", format!("the jump to {abs} came {frames_since_seek} frames after the seek (ring holds 16384)")));
						return res;
					}
					// this seek and every earlier one (superseded: last write wins) are done
					if let Some(first) = pending.iter().position(matches_target) {
						for t in &pending[first + 1..=landed.unwrap()] {
							if matches_target(t) {
								maybe_later.push(*t);
							}
						}
					}
					pending.drain(..=landed.unwrap());
					jumps += 1;
				}
				if !pending.is_empty() && frames_since_seek != usize::MAX && frames_since_seek > 16_384 + chunk + 8 && pending.last().map(|t| *t + 1 < spec.frames).unwrap_or(false) {
					res.fail(Violation::new("streaming-equals-loading", "seek-ignored", format!("output frame {k}: {frames_since_seek} frames after seek_to(frame {:?}) playback still runs on at frame {abs}", pending)));
					return res;
				}
				// (the position after the last frame of the loop region - or after any frame beyond it -
				// is taken back into the region)
				expected_next = Some(match loop_region {
					Some((a, b)) => {
						let mut p = abs + 1;
						if p >= *b {
							res.hit("stream_loop_wraps");
						}
						while p >= *b {
							p -= b - a;
						}
						p
					}
					None => abs + 1,
				});
				if frames_since_seek != usize::MAX {
					frames_since_seek += 1;
				}
			}
			res.count("stream_jumps_checked", jumps);
			res.count("frames_compared", out.len() as u64);
			res.nontrivial = out.iter().any(|f| f.left != 0.0);
			beh.u64(spec.enc as u64);
			beh.u64(seeks.len() as u64);
			beh.u64(*start as u64 / 4096);
			beh.u64(*chunk as u64);
		}
		Stream::Asset { name, fault, stream_start } => {
			let path = format!("/repo/crates/examples/assets/{name}");
			let Ok(bytes) = std::fs::read(&path) else {
				res.hit("asset_missing");
				return res;
			};
			let full = match load(bytes.clone(), Fault::None) {
				Ok(Ok(d)) => d,
				Ok(Err(e)) => {
					res.fail(Violation::new("faithful", "shipped-asset-rejected", format!("{name}: {e}")));
					return res;
				}
				Err(p) => {
					res.fail(Violation::new("no-panic", format!("loader-panicked: {}", panic_signature(&p)), format!("{name}: {p}")));
					return res;
				}
			};
			res.hit(&format!("asset.{name}"));
			match fault {
				Fault::None => {
					// streaming equals loading, from a start position
					if exact_rate(full.sample_rate) {
						let sr = full.sample_rate as f64;
						let start_frame = (*stream_start * sr).round() as usize;
						let start_frame = start_frame.min(full.frames.len().saturating_sub(1));
						if let Some((out, err, _)) = stream_out(case.seed, bytes, Fault::None, full.sample_rate, start_frame as f64 / sr, &[], 8, 512, &mut res) {
							if let Some(e) = err {
								res.fail(Violation::new("streaming-equals-loading", "unexpected-error", format!("{name}: streaming reported {e}")));
							}
							for (k, f) in out.iter().enumerate() {
								let want = full.frames.get(start_frame + k).copied().unwrap_or(Frame::ZERO);
								trace.f32(f.left);
								if !frames_equal(f, &want) {
									res.fail(Violation::new(
										"streaming-equals-loading",
										"frame-differs-from-loaded",
										format!("{name} from frame {start_frame}: streamed frame {k} is ({}, {}), loaded ({}, {})", f.left, f.right, want.left, want.right),
									));
									break;
								}
							}
							res.count("frames_compared", out.len() as u64);
						}
					}
				}
				_ => {
					let r = load(bytes.clone(), *fault);
					match r {
						Err(p) => res.fail(Violation::new("no-panic", format!("loader-panicked: {}", panic_signature(&p)), format!("{name} with {fault:?}: {p}"))),
						Ok(Err(_)) => res.hit("outcome.error"),
						Ok(Ok(d)) => {
							res.hit("outcome.loaded");
							match fault {
								Fault::ShortReads(_) => {
									if d.frames.len() != full.frames.len() || d.frames.iter().zip(full.frames.iter()).any(|(a, b)| !frames_equal(a, b)) {
										res.fail(Violation::new("faults", "short-reads-change-data", format!("{name} with {fault:?}: {} frames vs {}", d.frames.len(), full.frames.len())));
									}
								}
								Fault::Truncate(k) if *k < bytes.len() => {
									// the valid prefix: never more audio than the whole file, and (for PCM) the same samples
									if d.frames.len() > full.frames.len() {
										res.fail(Violation::new("faults", "invented-frames", format!("{name} truncated at {k}: {} frames, the whole file has {}", d.frames.len(), full.frames.len())));
									} else if name.ends_with(".wav") && d.frames.iter().zip(full.frames.iter()).any(|(a, b)| !frames_equal(a, b)) {
										res.fail(Violation::new("faults", "invented-samples", format!("{name} truncated at {k}: loaded frames differ from the prefix of the whole file")));
									}
								}
								_ => {}
							}
						}
					}
				}
			}
			res.nontrivial = true;
			beh.str(name);
			beh.u64(match fault {
				Fault::Truncate(k) | Fault::Flip(k, _) => 1 + *k as u64 / 16,
				Fault::ShortReads(k) => 100_000 + *k as u64,
				_ => 0,
			});
		}
	}
	res.behaviour_sig = beh.finish();
	res.trace_hash = trace.finish();
	res
}

pub struct C18;

impl Check for C18 {
	fn info(&self) -> CheckInfo {
		CheckInfo {
			id: "C18",
			level: "fault_enumeration",
			rule: "streams by case index: header (1/8) = systematic (encoding x mono/stereo) x every bit of every size / format field of the RIFF header (plain, then extensible; loaded, then streamed): no panic, no hang; load (1/8) = PCM WAV from the harness's own encoder (u8, s16, s24, s32, f32, f64; 1..4 channels; plain or WAVE_FORMAT_EXTENSIBLE header with the default channel mask (mono = front centre); 7 rates; 0..6000 frames; seeded samples) loaded and compared with the independent decode; fault (4/8) = systematic (encoding x mono/stereo x {truncate at byte k, flip a bit of byte k, I/O error at byte k, EINTR on the k-th read, short reads of 1..9 bytes, unseekable} x every byte offset k of a 12-frame file), loaded or streamed; stream (1/8) = 17000..40000-frame index-coded WAV streamed through the real decoder from a seeded start position with up to 2 seeks (the second one, half of the time, as seek_by from the reported position), compared with the loaded frames by decoded index; asset (1/8) = the shipped .wav / .ogg files loaded, streamed, truncated, bit-flipped and read in short pieces; non-trivial = frames were compared or a fault was applied; distinct = hash of (encoding, channels, size class, fault kind and offset / asset and fault bucket)",
			assumptions: vec![
				"for a bit flip inside the RIFF header only 'no panic, no hang' is demanded (the header then describes a different, possibly valid file)".into(),
				"streaming is compared at rate 1 with device rate == file rate, for rates where sr * (1/sr) == 1.0 (see the C04 known finding)".into(),
				"symphonia is third-party code: a panic inside it is still attributed to kira's loader".into(),
			],
			components: vec![
				("StaticSoundData::from_media_source, SymphoniaDecoder, load_frames_from_buffer, DecodeScheduler, StreamingSound", "real"),
				("symphonia (probe, WAV / OGG demuxers, PCM / Vorbis decoders)", "real (third party)"),
				("byte source", "stub (FaultyMediaSource with injected faults)"),
				("decoder thread scheduling", "simulated (gate scheduler)"),
			],
		}
	}
	fn num_cases(&self, tier: Tier) -> u64 {
		match tier {
			Tier::Quick => 26_000,
			Tier::Thorough => 200_000,
		}
	}
	fn case(&self, tier: Tier, seed: u64, index: u64) -> Json {
		serde_json::to_value(gen_case(derive_seed(seed, 18, index), index, tier)).unwrap()
	}
	fn run(&self, case: &Json) -> CaseResult {
		let case: Case = serde_json::from_value(case.clone()).expect("malformed C18 case");
		run_case(&case)
	}
	fn shrink(&self, _case: &Json) -> Vec<Json> {
		vec![]
	}
}
