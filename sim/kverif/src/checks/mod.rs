//! Registry of checks, one per claimed property.

use crate::core::Check;

pub mod c01;

pub fn all() -> Vec<Box<dyn Check>> {
	vec![Box::new(c01::C01)]
}

pub fn lookup(id: &str) -> Option<Box<dyn Check>> {
	all().into_iter().find(|c| c.info().id == id)
}
