//! Registry of checks, one per claimed property.

use crate::core::Check;

pub mod c01;
pub mod c02;
pub mod c02_sched;
pub mod c03;
pub mod c04;
pub mod c05;
pub mod c05_sched2;
pub mod c06;
pub mod c06_stage;
pub mod c07;
pub mod c08;
pub mod c09;
pub mod c10;
pub mod c11;
pub mod c12;
pub mod c12_sched;
pub mod c15;
pub mod c15_sched;
pub mod c16;
pub mod c17;
pub mod c17_sched;
pub mod c18;

pub fn all() -> Vec<Box<dyn Check>> {
	vec![Box::new(c01::C01), Box::new(c02::C02), Box::new(c03::C03), Box::new(c04::C04), Box::new(c05::C05), Box::new(c06::C06), Box::new(c07::C07), Box::new(c08::C08), Box::new(c09::C09), Box::new(c10::C10), Box::new(c11::C11), Box::new(c12::C12), Box::new(c15::C15), Box::new(c16::C16), Box::new(c17::C17), Box::new(c18::C18)]
}

pub fn lookup(id: &str) -> Option<Box<dyn Check>> {
	all().into_iter().find(|c| c.info().id == id)
}
