//! Known findings: genuine defects of the unchanged tree that are recorded rather
//! than repaired. Read-only at run time (`/verif/known_findings.jsonl`).

use serde::Deserialize;

#[derive(Clone, Debug, Deserialize)]
pub struct Finding {
	pub property: String,
	/// exact violation signature this entry covers
	pub signature: String,
	/// "open" (recorded, still fails) or "fixed" (repaired by a `fix:` commit; suppresses nothing)
	pub status: String,
	/// replay file, relative to /verif
	pub witness: String,
	/// one-line description of what fails
	pub what: String,
	#[serde(default)]
	pub tag: String,
	#[serde(default)]
	pub commit: String,
}

pub fn load() -> Vec<Finding> {
	let path = crate::runner::verif_root().join("known_findings.jsonl");
	let Ok(text) = std::fs::read_to_string(path) else {
		return Vec::new();
	};
	text.lines()
		.filter(|l| !l.trim().is_empty() && !l.trim_start().starts_with('#'))
		.filter_map(|l| serde_json::from_str::<Finding>(l).ok())
		.collect()
}

/// True if the finding with this tag is listed as open: generators then avoid
/// the input class it names (every run would otherwise die on it) and the
/// exclusion is reported in the evidence.
pub fn is_open(tag: &str) -> bool {
	use std::sync::OnceLock;
	// witnesses of known findings are replayed with nothing avoided and nothing relaxed
	if std::env::var_os("KVERIF_IGNORE_KNOWN").is_some() {
		return false;
	}
	static CACHE: OnceLock<Vec<Finding>> = OnceLock::new();
	CACHE
		.get_or_init(load)
		.iter()
		.any(|f| f.tag == tag && f.status == "open")
}
