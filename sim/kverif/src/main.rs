//! kverif - deterministic simulation with fault injection for tesselode/kira.
//!
//!   kverif check <ID> [--tier quick|thorough] [--seed N] [--cases N] [--workers N] [--max-wall SECS]
//!   kverif replay <file>
//!   kverif selftest determinism [<ID>...] [--cases N]
//!   kverif worker ... / kverif run-case <file>      (internal)

mod backend;
mod checks;
mod core;
mod decoder;
mod gen;
mod known;
mod monitor;
mod probes;
mod rng;
mod runner;
mod sched;
mod spec;
mod wav;
mod world;

use std::{path::Path, time::Duration};

use crate::core::Tier;

#[global_allocator]
static ALLOC: monitor::CountingAllocator = monitor::CountingAllocator;

fn arg_value(args: &[String], name: &str) -> Option<String> {
	args.iter().position(|a| a == name).and_then(|i| args.get(i + 1).cloned())
}

fn main() {
	monitor::install_panic_hook();
	let args: Vec<String> = std::env::args().skip(1).collect();
	let code = match args.first().map(|s| s.as_str()) {
		Some("check") => cmd_check(&args[1..]),
		Some("replay") => {
			let Some(path) = args.get(1) else {
				eprintln!("usage: kverif replay <file>");
				std::process::exit(2);
			};
			runner::replay_file(&checks::lookup, Path::new(path))
		}
		Some("selftest") => cmd_selftest(&args[1..]),
		Some("worker") => {
			let Some(check) = args.get(1).and_then(|id| checks::lookup(id)) else {
				eprintln!("worker: unknown check");
				std::process::exit(2);
			};
			runner::worker_main(check.as_ref(), &args[2..])
		}
		Some("run-case") => {
			let text = std::fs::read_to_string(&args[1]).unwrap_or_default();
			let doc: serde_json::Value = match serde_json::from_str(&text) {
				Ok(v) => v,
				Err(e) => {
					eprintln!("run-case: malformed file: {e}");
					std::process::exit(2);
				}
			};
			let Some(check) = doc["check"].as_str().and_then(checks::lookup) else {
				eprintln!("run-case: unknown check");
				std::process::exit(2);
			};
			match monitor::catch(|| runner::run_case_main(check.as_ref(), &doc["case"])) {
				Ok(c) => c,
				Err(msg) => {
					eprintln!("harness panic outside monitored code: {msg}");
					2
				}
			}
		}
		Some("dump") => {
			// kverif dump <ID> <seed> <from> <to>: prints the generated cases (debugging aid)
			let Some(check) = args.get(1).and_then(|id| checks::lookup(id)) else {
				eprintln!("dump: unknown check");
				std::process::exit(2);
			};
			let seed: u64 = args.get(2).and_then(|s| s.parse().ok()).unwrap_or(runner::DEFAULT_SEED);
			let from: u64 = args.get(3).and_then(|s| s.parse().ok()).unwrap_or(0);
			let to: u64 = args.get(4).and_then(|s| s.parse().ok()).unwrap_or(10);
			for i in from..to {
				println!("{}", serde_json::to_string(&check.case(Tier::Quick, seed, i)).unwrap());
			}
			0
		}
		Some("list") => {
			for c in checks::all() {
				println!("{}", c.info().id);
			}
			0
		}
		_ => {
			eprintln!("usage: kverif check <ID> [--tier quick|thorough] [--seed N] | replay <file> | selftest determinism | list");
			2
		}
	};
	std::process::exit(code);
}

fn env_seed() -> u64 {
	std::env::var("VERIF_SEED")
		.ok()
		.and_then(|s| s.trim().parse::<u64>().ok())
		.unwrap_or(runner::DEFAULT_SEED)
}

fn cmd_check(args: &[String]) -> i32 {
	let Some(id) = args.first() else {
		eprintln!("usage: kverif check <ID>");
		return 2;
	};
	let Some(check) = checks::lookup(id) else {
		eprintln!("unknown check {id}");
		return 2;
	};
	let tier_name = arg_value(args, "--tier")
		.or_else(|| std::env::var("VERIF_TIER").ok())
		.unwrap_or_else(|| "quick".into());
	let tier = if tier_name == "thorough" { Tier::Thorough } else { Tier::Quick };
	let seed = arg_value(args, "--seed").and_then(|s| s.parse().ok()).unwrap_or_else(env_seed);
	let workers = arg_value(args, "--workers")
		.and_then(|s| s.parse().ok())
		.unwrap_or_else(|| std::thread::available_parallelism().map(|n| n.get()).unwrap_or(4).min(16));
	let max_wall = arg_value(args, "--max-wall").and_then(|s| s.parse::<u64>().ok()).unwrap_or(match tier {
		Tier::Quick => 120,
		Tier::Thorough => 1500,
	});
	let opts = runner::BatchOptions {
		tier,
		seed,
		workers,
		max_cases: arg_value(args, "--cases").and_then(|s| s.parse().ok()),
		max_wall: Duration::from_secs(max_wall),
		collect_hashes: false,
		write_evidence: !args.iter().any(|a| a == "--no-evidence"),
		quiet: false,
	};
	runner::run_batch(check.as_ref(), &opts).exit_code
}

/// Determinism self-test: every case of a sample is executed in two different
/// processes under two different worker counts; the complete event-log hashes
/// must agree.
fn cmd_selftest(args: &[String]) -> i32 {
	if args.first().map(|s| s.as_str()) != Some("determinism") {
		eprintln!("usage: kverif selftest determinism [<ID>...] [--cases N]");
		return 2;
	}
	let cases: u64 = arg_value(args, "--cases").and_then(|s| s.parse().ok()).unwrap_or(2000);
	let ids: Vec<String> = args[1..].iter().filter(|a| a.starts_with('C')).cloned().collect();
	let seed = env_seed();
	let mut bad = 0;
	for check in checks::all() {
		let id = check.info().id;
		if !ids.is_empty() && !ids.iter().any(|i| i == id) {
			continue;
		}
		let mut runs = Vec::new();
		for workers in [16usize, 5] {
			let opts = runner::BatchOptions {
				tier: Tier::Quick,
				seed,
				workers,
				max_cases: Some(cases),
				max_wall: Duration::from_secs(600),
				collect_hashes: true,
				write_evidence: false,
				quiet: true,
			};
			let r = runner::run_batch(check.as_ref(), &opts);
			if r.exit_code == 2 {
				return 2;
			}
			runs.push(r.hashes);
		}
		let mut mismatches = 0;
		for (i, h) in &runs[0] {
			if runs[1].get(i) != Some(h) {
				mismatches += 1;
				if mismatches <= 5 {
					eprintln!("{id}: case {i} differs between executions: {h} vs {:?}", runs[1].get(i));
				}
			}
		}
		println!("{id}: {} cases executed twice (16 and 5 worker processes), {mismatches} mismatching event-log hashes", runs[0].len());
		if mismatches > 0 || runs[0].len() != runs[1].len() {
			bad += 1;
		}
	}
	if bad > 0 {
		2
	} else {
		0
	}
}
