fn main(){ println!("hi"); }
