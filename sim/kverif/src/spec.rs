//! Serializable descriptions ("specs") of everything a case can ask kira to do,
//! and their conversion into kira's public types. A case is data.

use std::time::Duration;

use kira::{
	clock::{ClockHandle, ClockSpeed, ClockTime},
	effect::{
		compressor::CompressorBuilder,
		delay::DelayBuilder,
		distortion::{DistortionBuilder, DistortionKind},
		eq_filter::{EqFilterBuilder, EqFilterKind},
		filter::{FilterBuilder, FilterMode},
		panning_control::PanningControlBuilder,
		reverb::ReverbBuilder,
		volume_control::VolumeControlBuilder,
	},
	modulator::{lfo::Waveform, ModulatorId},
	sound::{EndPosition, PlaybackPosition, Region},
	Decibels, Easing, Frame, Mapping, Mix, Panning, PlaybackRate, StartTime, Tween, Value,
};
use serde::{Deserialize, Serialize};

use crate::rng::Rng;

#[derive(Clone, Copy, Debug, Serialize, Deserialize, PartialEq)]
pub enum EasingSpec {
	Linear,
	InPowi(i32),
	OutPowi(i32),
	InOutPowi(i32),
	InPowf(f64),
	OutPowf(f64),
	InOutPowf(f64),
}

impl EasingSpec {
	pub fn k(self) -> Easing {
		match self {
			EasingSpec::Linear => Easing::Linear,
			EasingSpec::InPowi(p) => Easing::InPowi(p),
			EasingSpec::OutPowi(p) => Easing::OutPowi(p),
			EasingSpec::InOutPowi(p) => Easing::InOutPowi(p),
			EasingSpec::InPowf(p) => Easing::InPowf(p),
			EasingSpec::OutPowf(p) => Easing::OutPowf(p),
			EasingSpec::InOutPowf(p) => Easing::InOutPowf(p),
		}
	}

	/// Independent implementation of the documented curves (reference model).
	pub fn apply(self, x: f64) -> f64 {
		fn inp(x: f64, p: f64) -> f64 {
			x.powf(p)
		}
		fn ini(x: f64, p: i32) -> f64 {
			x.powi(p)
		}
		match self {
			EasingSpec::Linear => x,
			EasingSpec::InPowi(p) => ini(x, p),
			EasingSpec::OutPowi(p) => 1.0 - ini(1.0 - x, p),
			EasingSpec::InOutPowi(p) => {
				if x < 0.5 {
					0.5 * ini(2.0 * x, p)
				} else {
					1.0 - 0.5 * ini(2.0 - 2.0 * x, p)
				}
			}
			EasingSpec::InPowf(p) => inp(x, p),
			EasingSpec::OutPowf(p) => 1.0 - inp(1.0 - x, p),
			EasingSpec::InOutPowf(p) => {
				if x < 0.5 {
					0.5 * inp(2.0 * x, p)
				} else {
					1.0 - 0.5 * inp(2.0 - 2.0 * x, p)
				}
			}
		}
	}

	pub fn gen(rng: &mut Rng) -> Self {
		match rng.below(9) {
			0..=2 => EasingSpec::Linear,
			3 => EasingSpec::InPowi(rng.range(1, 4) as i32),
			4 => EasingSpec::OutPowi(rng.range(1, 4) as i32),
			5 => EasingSpec::InOutPowi(rng.range(1, 4) as i32),
			6 => EasingSpec::InPowf(rng.frange(0.25, 4.0)),
			7 => EasingSpec::OutPowf(rng.frange(0.25, 4.0)),
			_ => EasingSpec::InOutPowf(rng.frange(0.25, 4.0)),
		}
	}
}

#[derive(Clone, Copy, Debug, Serialize, Deserialize, PartialEq)]
pub enum StartSpec {
	Immediate,
	Delayed(f64),
	/// index into the world's clock list, target time
	Clock { clock: usize, ticks: u64, fraction: f64 },
}

#[derive(Clone, Copy, Debug, Serialize, Deserialize, PartialEq)]
pub struct TweenSpec {
	pub start: StartSpec,
	pub dur: f64,
	pub easing: EasingSpec,
}

impl TweenSpec {
	pub const INSTANT: TweenSpec = TweenSpec {
		start: StartSpec::Immediate,
		dur: 0.0,
		easing: EasingSpec::Linear,
	};
}

pub fn dur(secs: f64) -> Duration {
	Duration::from_secs_f64(secs.max(0.0))
}

/// Resolves indices against the live world (clock ids, modulator ids).
pub trait Resolver {
	fn clock_time(&self, clock: usize, ticks: u64, fraction: f64) -> Option<ClockTime>;
	fn modulator_id(&self, index: usize) -> Option<ModulatorId>;
}

impl StartSpec {
	pub fn k(self, r: &dyn Resolver) -> StartTime {
		match self {
			StartSpec::Immediate => StartTime::Immediate,
			StartSpec::Delayed(s) => StartTime::Delayed(dur(s)),
			StartSpec::Clock { clock, ticks, fraction } => match r.clock_time(clock, ticks, fraction) {
				Some(t) => StartTime::ClockTime(t),
				None => StartTime::Immediate,
			},
		}
	}
}

impl TweenSpec {
	pub fn k(self, r: &dyn Resolver) -> Tween {
		Tween {
			start_time: self.start.k(r),
			duration: dur(self.dur),
			easing: self.easing.k(),
		}
	}
}

#[derive(Clone, Copy, Debug, Serialize, Deserialize, PartialEq)]
pub struct MapSpec<T> {
	pub input: (f64, f64),
	pub output: (T, T),
	pub easing: EasingSpec,
}

#[derive(Clone, Copy, Debug, Serialize, Deserialize, PartialEq)]
pub enum Val<T> {
	Fixed(T),
	Mod { m: usize, map: MapSpec<T> },
	Dist(MapSpec<T>),
}

pub trait ToKira: Copy {
	type K: Copy;
	fn k(self) -> Self::K;
}

#[derive(Clone, Copy, Debug, Serialize, Deserialize, PartialEq)]
pub struct Db(pub f32);
#[derive(Clone, Copy, Debug, Serialize, Deserialize, PartialEq)]
pub struct Pan(pub f32);
#[derive(Clone, Copy, Debug, Serialize, Deserialize, PartialEq)]
pub struct Rate(pub f64);
#[derive(Clone, Copy, Debug, Serialize, Deserialize, PartialEq)]
pub struct MixS(pub f32);
#[derive(Clone, Copy, Debug, Serialize, Deserialize, PartialEq)]
pub struct Secs(pub f64);
#[derive(Clone, Copy, Debug, Serialize, Deserialize, PartialEq)]
pub struct V3(pub [f32; 3]);
#[derive(Clone, Copy, Debug, Serialize, Deserialize, PartialEq)]
pub struct Q4(pub [f32; 4]);
#[derive(Clone, Copy, Debug, Serialize, Deserialize, PartialEq)]
pub enum Speed {
	SecondsPerTick(f64),
	TicksPerSecond(f64),
	TicksPerMinute(f64),
}

impl Speed {
	pub fn ticks_per_second(self) -> f64 {
		match self {
			Speed::SecondsPerTick(s) => 1.0 / s,
			Speed::TicksPerSecond(t) => t,
			Speed::TicksPerMinute(t) => t / 60.0,
		}
	}
}

impl ToKira for Db {
	type K = Decibels;
	fn k(self) -> Decibels {
		Decibels(self.0)
	}
}
impl ToKira for Pan {
	type K = Panning;
	fn k(self) -> Panning {
		Panning(self.0)
	}
}
impl ToKira for Rate {
	type K = PlaybackRate;
	fn k(self) -> PlaybackRate {
		PlaybackRate(self.0)
	}
}
impl ToKira for MixS {
	type K = Mix;
	fn k(self) -> Mix {
		Mix(self.0)
	}
}
impl ToKira for Secs {
	type K = Duration;
	fn k(self) -> Duration {
		dur(self.0)
	}
}
impl ToKira for f64 {
	type K = f64;
	fn k(self) -> f64 {
		self
	}
}
impl ToKira for f32 {
	type K = f32;
	fn k(self) -> f32 {
		self
	}
}
impl ToKira for V3 {
	type K = mint::Vector3<f32>;
	fn k(self) -> mint::Vector3<f32> {
		mint::Vector3 {
			x: self.0[0],
			y: self.0[1],
			z: self.0[2],
		}
	}
}
impl ToKira for Q4 {
	type K = mint::Quaternion<f32>;
	fn k(self) -> mint::Quaternion<f32> {
		mint::Quaternion {
			v: mint::Vector3 {
				x: self.0[0],
				y: self.0[1],
				z: self.0[2],
			},
			s: self.0[3],
		}
	}
}
impl ToKira for Speed {
	type K = ClockSpeed;
	fn k(self) -> ClockSpeed {
		match self {
			Speed::SecondsPerTick(v) => ClockSpeed::SecondsPerTick(v),
			Speed::TicksPerSecond(v) => ClockSpeed::TicksPerSecond(v),
			Speed::TicksPerMinute(v) => ClockSpeed::TicksPerMinute(v),
		}
	}
}

impl<T: ToKira> Val<T> {
	pub fn k(self, r: &dyn Resolver) -> Value<T::K> {
		match self {
			Val::Fixed(v) => Value::Fixed(v.k()),
			Val::Mod { m, map } => match r.modulator_id(m) {
				Some(id) => Value::FromModulator {
					id,
					mapping: Mapping {
						input_range: map.input,
						output_range: (map.output.0.k(), map.output.1.k()),
						easing: map.easing.k(),
					},
				},
				None => Value::Fixed(map.output.0.k()),
			},
			Val::Dist(map) => Value::FromListenerDistance(Mapping {
				input_range: map.input,
				output_range: (map.output.0.k(), map.output.1.k()),
				easing: map.easing.k(),
			}),
		}
	}
	pub fn fixed(self) -> Option<T> {
		match self {
			Val::Fixed(v) => Some(v),
			_ => None,
		}
	}
}

// ---------------------------------------------------------------------------
// effects
// ---------------------------------------------------------------------------

#[derive(Clone, Copy, Debug, Serialize, Deserialize, PartialEq)]
pub enum FilterModeS {
	LowPass,
	BandPass,
	HighPass,
	Notch,
}
impl FilterModeS {
	pub fn k(self) -> FilterMode {
		match self {
			FilterModeS::LowPass => FilterMode::LowPass,
			FilterModeS::BandPass => FilterMode::BandPass,
			FilterModeS::HighPass => FilterMode::HighPass,
			FilterModeS::Notch => FilterMode::Notch,
		}
	}
}
#[derive(Clone, Copy, Debug, Serialize, Deserialize, PartialEq)]
pub enum EqKindS {
	Bell,
	LowShelf,
	HighShelf,
}
impl EqKindS {
	pub fn k(self) -> EqFilterKind {
		match self {
			EqKindS::Bell => EqFilterKind::Bell,
			EqKindS::LowShelf => EqFilterKind::LowShelf,
			EqKindS::HighShelf => EqFilterKind::HighShelf,
		}
	}
}
#[derive(Clone, Copy, Debug, Serialize, Deserialize, PartialEq)]
pub enum DistKindS {
	HardClip,
	SoftClip,
}
impl DistKindS {
	pub fn k(self) -> DistortionKind {
		match self {
			DistKindS::HardClip => DistortionKind::HardClip,
			DistKindS::SoftClip => DistortionKind::SoftClip,
		}
	}
}

#[derive(Clone, Debug, Serialize, Deserialize, PartialEq)]
pub enum EffectSpec {
	Filter { mode: FilterModeS, cutoff: Val<f64>, resonance: Val<f64>, mix: Val<MixS> },
	Eq { kind: EqKindS, frequency: Val<f64>, gain: Val<Db>, q: Val<f64> },
	Delay { time: f64, feedback: Val<Db>, mix: Val<MixS>, feedback_effects: Vec<EffectSpec> },
	Reverb { feedback: Val<f64>, damping: Val<f64>, stereo_width: Val<f64>, mix: Val<MixS> },
	Compressor { threshold: Val<f64>, ratio: Val<f64>, attack: Val<Secs>, release: Val<Secs>, makeup: Val<Db>, mix: Val<MixS> },
	Distortion { kind: DistKindS, drive: Val<Db>, mix: Val<MixS> },
	Volume(Val<Db>),
	Panning(Val<Pan>),
}

impl EffectSpec {
	pub fn kind_name(&self) -> &'static str {
		match self {
			EffectSpec::Filter { .. } => "filter",
			EffectSpec::Eq { .. } => "eq",
			EffectSpec::Delay { .. } => "delay",
			EffectSpec::Reverb { .. } => "reverb",
			EffectSpec::Compressor { .. } => "compressor",
			EffectSpec::Distortion { .. } => "distortion",
			EffectSpec::Volume(_) => "volume_control",
			EffectSpec::Panning(_) => "panning_control",
		}
	}
	pub fn is_recursive(&self) -> bool {
		!matches!(self, EffectSpec::Volume(_) | EffectSpec::Panning(_) | EffectSpec::Distortion { .. })
	}
}

/// Handle of a built effect, kept by the world for later commands.
pub enum EffectH {
	Filter(kira::effect::filter::FilterHandle),
	Eq(kira::effect::eq_filter::EqFilterHandle),
	Delay(kira::effect::delay::DelayHandle),
	Reverb(kira::effect::reverb::ReverbHandle),
	Compressor(kira::effect::compressor::CompressorHandle),
	Distortion(kira::effect::distortion::DistortionHandle),
	Volume(kira::effect::volume_control::VolumeControlHandle),
	Panning(kira::effect::panning_control::PanningControlHandle),
}

/// Anything effects can be added to (the three track builders and the delay's
/// feedback loop).
pub trait EffectSink {
	fn add_filter(&mut self, b: FilterBuilder) -> kira::effect::filter::FilterHandle;
	fn add_eq(&mut self, b: EqFilterBuilder) -> kira::effect::eq_filter::EqFilterHandle;
	fn add_delay(&mut self, b: DelayBuilder) -> kira::effect::delay::DelayHandle;
	fn add_reverb(&mut self, b: ReverbBuilder) -> kira::effect::reverb::ReverbHandle;
	fn add_compressor(&mut self, b: CompressorBuilder) -> kira::effect::compressor::CompressorHandle;
	fn add_distortion(&mut self, b: DistortionBuilder) -> kira::effect::distortion::DistortionHandle;
	fn add_volume(&mut self, b: VolumeControlBuilder) -> kira::effect::volume_control::VolumeControlHandle;
	fn add_panning(&mut self, b: PanningControlBuilder) -> kira::effect::panning_control::PanningControlHandle;
}

macro_rules! impl_sink {
	($t:ty, $m:ident) => {
		impl EffectSink for $t {
			fn add_filter(&mut self, b: FilterBuilder) -> kira::effect::filter::FilterHandle {
				self.$m(b)
			}
			fn add_eq(&mut self, b: EqFilterBuilder) -> kira::effect::eq_filter::EqFilterHandle {
				self.$m(b)
			}
			fn add_delay(&mut self, b: DelayBuilder) -> kira::effect::delay::DelayHandle {
				self.$m(b)
			}
			fn add_reverb(&mut self, b: ReverbBuilder) -> kira::effect::reverb::ReverbHandle {
				self.$m(b)
			}
			fn add_compressor(&mut self, b: CompressorBuilder) -> kira::effect::compressor::CompressorHandle {
				self.$m(b)
			}
			fn add_distortion(&mut self, b: DistortionBuilder) -> kira::effect::distortion::DistortionHandle {
				self.$m(b)
			}
			fn add_volume(&mut self, b: VolumeControlBuilder) -> kira::effect::volume_control::VolumeControlHandle {
				self.$m(b)
			}
			fn add_panning(&mut self, b: PanningControlBuilder) -> kira::effect::panning_control::PanningControlHandle {
				self.$m(b)
			}
		}
	};
}
impl_sink!(kira::track::TrackBuilder, add_effect);
impl_sink!(kira::track::SpatialTrackBuilder, add_effect);
impl_sink!(kira::track::SendTrackBuilder, add_effect);
impl_sink!(kira::track::MainTrackBuilder, add_effect);
impl_sink!(DelayBuilder, add_feedback_effect);

/// Adds the described effect to `sink`; handles (this one first, then any
/// nested feedback effects) are appended to `handles`.
pub fn add_effect(sink: &mut dyn EffectSink, spec: &EffectSpec, r: &dyn Resolver, handles: &mut Vec<EffectH>) {
	match spec {
		EffectSpec::Filter { mode, cutoff, resonance, mix } => {
			let b = FilterBuilder::new()
				.mode(mode.k())
				.cutoff(cutoff.k(r))
				.resonance(resonance.k(r))
				.mix(mix.k(r));
			handles.push(EffectH::Filter(sink.add_filter(b)));
		}
		EffectSpec::Eq { kind, frequency, gain, q } => {
			let b = EqFilterBuilder::new(kind.k(), frequency.k(r), gain.k(r), q.k(r));
			handles.push(EffectH::Eq(sink.add_eq(b)));
		}
		EffectSpec::Delay { time, feedback, mix, feedback_effects } => {
			let mut b = DelayBuilder::new()
				.delay_time(dur(*time))
				.feedback(feedback.k(r))
				.mix(mix.k(r));
			let mut nested = Vec::new();
			for fe in feedback_effects {
				add_effect(&mut b, fe, r, &mut nested);
			}
			handles.push(EffectH::Delay(sink.add_delay(b)));
			handles.extend(nested);
		}
		EffectSpec::Reverb { feedback, damping, stereo_width, mix } => {
			let b = ReverbBuilder::new()
				.feedback(feedback.k(r))
				.damping(damping.k(r))
				.stereo_width(stereo_width.k(r))
				.mix(mix.k(r));
			handles.push(EffectH::Reverb(sink.add_reverb(b)));
		}
		EffectSpec::Compressor { threshold, ratio, attack, release, makeup, mix } => {
			let b = CompressorBuilder::new()
				.threshold(threshold.k(r))
				.ratio(ratio.k(r))
				.attack_duration(attack.k(r))
				.release_duration(release.k(r))
				.makeup_gain(makeup.k(r))
				.mix(mix.k(r));
			handles.push(EffectH::Compressor(sink.add_compressor(b)));
		}
		EffectSpec::Distortion { kind, drive, mix } => {
			let b = DistortionBuilder::new().kind(kind.k()).drive(drive.k(r)).mix(mix.k(r));
			handles.push(EffectH::Distortion(sink.add_distortion(b)));
		}
		EffectSpec::Volume(v) => {
			handles.push(EffectH::Volume(sink.add_volume(VolumeControlBuilder::new(v.k(r)))));
		}
		EffectSpec::Panning(p) => {
			handles.push(EffectH::Panning(sink.add_panning(PanningControlBuilder(p.k(r)))));
		}
	}
}

/// A command for an effect handle: parameter number `param` (modulo the number
/// of parameters the effect has) is set to `value` (interpreted in the
/// parameter's unit) with a tween. `param == 255` switches the kind/mode.
#[derive(Clone, Copy, Debug, Serialize, Deserialize, PartialEq)]
pub struct EffectCmd {
	pub param: u8,
	pub value: Val<f64>,
	pub tween: TweenSpec,
}

fn conv<T: ToKira>(v: Val<f64>, f: impl Fn(f64) -> T) -> Val<T> {
	match v {
		Val::Fixed(x) => Val::Fixed(f(x)),
		Val::Mod { m, map } => Val::Mod {
			m,
			map: MapSpec {
				input: map.input,
				output: (f(map.output.0), f(map.output.1)),
				easing: map.easing,
			},
		},
		Val::Dist(map) => Val::Dist(MapSpec {
			input: map.input,
			output: (f(map.output.0), f(map.output.1)),
			easing: map.easing,
		}),
	}
}

/// Input classes named by open known findings; commands that would land in one
/// are reshaped (counted by the caller as reduced coverage).
#[derive(Clone, Copy, Debug, Default)]
pub struct Avoid {
	pub distortion_silent_drive: bool,
	pub compressor_ratio_zero: bool,
}

pub fn apply_effect_cmd(h: &mut EffectH, cmd: &EffectCmd, r: &dyn Resolver, avoid: &Avoid) {
	let t = cmd.tween.k(r);
	let mut v = cmd.value;
	if let (EffectH::Distortion(_), true, Val::Fixed(x)) = (&*h, avoid.distortion_silent_drive && cmd.param != 255 && cmd.param % 2 == 0, v) {
		if x <= -60.0 {
			v = Val::Fixed(-59.0);
		}
	}
	if let (EffectH::Compressor(_), true, Val::Fixed(x)) = (&*h, avoid.compressor_ratio_zero && cmd.param % 6 == 1, v) {
		if x == 0.0 {
			v = Val::Fixed(1.0);
		}
	}
	let sel = |n: u8| cmd.param % n;
	let kind_pick = match v {
		Val::Fixed(x) => x.abs() as u64,
		_ => 0,
	};
	match h {
		EffectH::Filter(h) => {
			if cmd.param == 255 {
				h.set_mode([FilterMode::LowPass, FilterMode::BandPass, FilterMode::HighPass, FilterMode::Notch][(kind_pick % 4) as usize]);
				return;
			}
			match sel(3) {
				0 => h.set_cutoff(v.k(r), t),
				1 => h.set_resonance(v.k(r), t),
				_ => h.set_mix(conv(v, |x| MixS(x as f32)).k(r), t),
			}
		}
		EffectH::Eq(h) => {
			if cmd.param == 255 {
				h.set_kind([EqFilterKind::Bell, EqFilterKind::LowShelf, EqFilterKind::HighShelf][(kind_pick % 3) as usize]);
				return;
			}
			match sel(3) {
				0 => h.set_frequency(v.k(r), t),
				1 => h.set_gain(conv(v, |x| Db(x as f32)).k(r), t),
				_ => h.set_q(v.k(r), t),
			}
		}
		EffectH::Delay(h) => match sel(2) {
			0 => h.set_feedback(conv(v, |x| Db(x as f32)).k(r), t),
			_ => h.set_mix(conv(v, |x| MixS(x as f32)).k(r), t),
		},
		EffectH::Reverb(h) => match sel(4) {
			0 => h.set_feedback(v.k(r), t),
			1 => h.set_damping(v.k(r), t),
			2 => h.set_stereo_width(v.k(r), t),
			_ => h.set_mix(conv(v, |x| MixS(x as f32)).k(r), t),
		},
		EffectH::Compressor(h) => match sel(6) {
			0 => h.set_threshold(v.k(r), t),
			1 => h.set_ratio(v.k(r), t),
			2 => h.set_attack_duration(conv(v, |x| Secs(x.abs())).k(r), t),
			3 => h.set_release_duration(conv(v, |x| Secs(x.abs())).k(r), t),
			4 => h.set_makeup_gain(conv(v, |x| Db(x as f32)).k(r), t),
			_ => h.set_mix(conv(v, |x| MixS(x as f32)).k(r), t),
		},
		EffectH::Distortion(h) => {
			if cmd.param == 255 {
				h.set_kind([DistortionKind::HardClip, DistortionKind::SoftClip][(kind_pick % 2) as usize]);
				return;
			}
			match sel(2) {
				0 => h.set_drive(conv(v, |x| Db(x as f32)).k(r), t),
				_ => h.set_mix(conv(v, |x| MixS(x as f32)).k(r), t),
			}
		}
		EffectH::Volume(h) => h.set_volume(conv(v, |x| Db(x as f32)).k(r), t),
		EffectH::Panning(h) => h.set_panning(conv(v, |x| Pan(x as f32)).k(r), t),
	}
}

// ---------------------------------------------------------------------------
// sounds
// ---------------------------------------------------------------------------

#[derive(Clone, Copy, Debug, Serialize, Deserialize, PartialEq)]
pub enum Signal {
	/// both channels constant
	Dc(f32),
	/// frame i has left = (i+1)/scale, right = -(i+1)/scale (exactly representable)
	Index { scale: f32 },
	/// deterministic pseudo-noise in [-amp, amp]
	Noise { seed: u64, amp: f32 },
	/// sine of the given cycles-per-frame
	Sine { cpf: f32, amp: f32 },
	/// +amp, 0, -amp, 0, ...: every other frame is exactly zero (an infinite gain then gives
	/// isolated non-finite frames, 0 x inf)
	Gapped { amp: f32 },
}

#[derive(Clone, Copy, Debug, Serialize, Deserialize, PartialEq)]
pub struct DataSpec {
	pub len: usize,
	pub sample_rate: u32,
	pub signal: Signal,
}

impl DataSpec {
	pub fn frame(&self, i: usize) -> Frame {
		match self.signal {
			Signal::Dc(v) => Frame::new(v, v),
			Signal::Index { scale } => {
				let v = (i + 1) as f32 / scale;
				Frame::new(v, -v)
			}
			Signal::Noise { seed, amp } => {
				let mut x = seed ^ (i as u64).wrapping_mul(0x9E37_79B9_7F4A_7C15);
				let a = crate::rng::splitmix64(&mut x);
				let l = ((a >> 40) as f32 / (1u64 << 24) as f32) * 2.0 - 1.0;
				let r = (((a >> 8) & 0xff_ffff) as f32 / (1u64 << 24) as f32) * 2.0 - 1.0;
				Frame::new(l * amp, r * amp)
			}
			Signal::Sine { cpf, amp } => {
				let v = (i as f32 * cpf * std::f32::consts::TAU).sin() * amp;
				Frame::new(v, v * 0.5)
			}
			Signal::Gapped { amp } => match i % 4 {
				0 => Frame::new(amp, amp),
				2 => Frame::new(-amp, -amp),
				_ => Frame::ZERO,
			},
		}
	}
	pub fn frames(&self) -> Vec<Frame> {
		(0..self.len).map(|i| self.frame(i)).collect()
	}
}

#[derive(Clone, Copy, Debug, Serialize, Deserialize, PartialEq)]
pub enum Pos {
	Secs(f64),
	Samples(usize),
}
impl Pos {
	pub fn k(self) -> PlaybackPosition {
		match self {
			Pos::Secs(s) => PlaybackPosition::Seconds(s),
			Pos::Samples(s) => PlaybackPosition::Samples(s),
		}
	}
	pub fn samples(self, sample_rate: u32) -> usize {
		match self {
			Pos::Secs(s) => (s * sample_rate as f64).round() as usize,
			Pos::Samples(s) => s,
		}
	}
}

#[derive(Clone, Copy, Debug, Serialize, Deserialize, PartialEq)]
pub struct RegionSpec {
	pub start: Pos,
	pub end: Option<Pos>,
}
impl RegionSpec {
	pub fn k(self) -> Region {
		Region {
			start: self.start.k(),
			end: match self.end {
				None => EndPosition::EndOfAudio,
				Some(p) => EndPosition::Custom(p.k()),
			},
		}
	}
}

#[derive(Clone, Debug, Serialize, Deserialize, PartialEq)]
pub struct SoundSettingsSpec {
	pub start: StartSpec,
	pub start_position: Pos,
	pub loop_region: Option<RegionSpec>,
	pub reverse: bool,
	pub volume: Val<Db>,
	pub rate: Val<Rate>,
	pub panning: Val<Pan>,
	pub fade_in: Option<TweenSpec>,
}

impl Default for SoundSettingsSpec {
	fn default() -> Self {
		Self {
			start: StartSpec::Immediate,
			start_position: Pos::Samples(0),
			loop_region: None,
			reverse: false,
			volume: Val::Fixed(Db(0.0)),
			rate: Val::Fixed(Rate(1.0)),
			panning: Val::Fixed(Pan(0.0)),
			fade_in: None,
		}
	}
}

#[derive(Clone, Copy, Debug, Serialize, Deserialize, PartialEq)]
pub enum WaveS {
	Sine,
	Triangle,
	Saw,
	Pulse(f64),
}
impl WaveS {
	pub fn k(self) -> Waveform {
		match self {
			WaveS::Sine => Waveform::Sine,
			WaveS::Triangle => Waveform::Triangle,
			WaveS::Saw => Waveform::Saw,
			WaveS::Pulse(w) => Waveform::Pulse { width: w },
		}
	}
}

#[derive(Clone, Copy, Debug, Serialize, Deserialize, PartialEq)]
pub enum SoundCmd {
	Pause(TweenSpec),
	Resume(TweenSpec),
	ResumeAt(StartSpec, TweenSpec),
	Stop(TweenSpec),
	SeekTo(f64),
	SeekBy(f64),
	SetVolume(Val<Db>, TweenSpec),
	SetRate(Val<Rate>, TweenSpec),
	SetPanning(Val<Pan>, TweenSpec),
	SetLoop(Option<RegionSpec>),
}

pub fn clock_time_of(handle: &ClockHandle, ticks: u64, fraction: f64) -> ClockTime {
	ClockTime {
		clock: handle.id(),
		ticks,
		fraction,
	}
}
