//! The simulated audio device: a `kira::backend::Backend` that keeps the
//! `Renderer` and lets the simulator decide when a callback happens, how many
//! frames and channels it has and when the sample rate changes.

use std::sync::{Arc, Mutex};

use kira::backend::{Backend, Renderer};

use crate::monitor::{self, Role};

pub struct SimBackendSettings {
	pub sample_rate: u32,
}

impl Default for SimBackendSettings {
	fn default() -> Self {
		Self { sample_rate: 48_000 }
	}
}

#[derive(Clone)]
pub struct Device {
	renderer: Arc<Mutex<Option<Renderer>>>,
}

pub struct SimBackend {
	pub device: Device,
	pub sample_rate: u32,
}

impl Backend for SimBackend {
	type Settings = SimBackendSettings;
	type Error = ();

	fn setup(settings: Self::Settings, _internal_buffer_size: usize) -> Result<(Self, u32), ()> {
		Ok((
			Self {
				device: Device {
					renderer: Arc::new(Mutex::new(None)),
				},
				sample_rate: settings.sample_rate,
			},
			settings.sample_rate,
		))
	}

	fn start(&mut self, renderer: Renderer) -> Result<(), ()> {
		*self.device.renderer.lock().unwrap() = Some(renderer);
		Ok(())
	}
}

/// What one device callback did, as seen by the always-on monitors.
#[derive(Debug, Default, Clone)]
pub struct CallbackReport {
	pub panic: Option<String>,
	pub allocs: u64,
	pub frees: u64,
}

pub const SENTINEL: f32 = 1234.5;

impl Device {
	/// One device callback: `on_start_processing` followed by `process` into
	/// `out` (resized to `frames * channels` and pre-filled with a sentinel so
	/// unwritten samples are visible). Runs in the audio role with the heap
	/// monitor armed.
	pub fn callback(&self, frames: usize, channels: u16, out: &mut Vec<f32>) -> CallbackReport {
		out.clear();
		out.resize(frames * channels as usize, SENTINEL);
		let mut guard = self.renderer.lock().unwrap();
		let renderer = guard.as_mut().expect("renderer not started");
		let prev_role = monitor::set_role(Role::Audio);
		monitor::reset_heap_counts();
		let prev_arm = monitor::arm(true);
		let result = monitor::catch(|| {
			renderer.on_start_processing();
			renderer.process(out, channels);
		});
		monitor::arm(prev_arm);
		let (allocs, frees) = monitor::heap_counts();
		monitor::set_role(prev_role);
		CallbackReport {
			panic: result.err(),
			allocs,
			frees,
		}
	}

	/// Only the first half of a callback (used to separate command application
	/// from rendering in some oracles).
	pub fn on_start_processing(&self) -> CallbackReport {
		let mut guard = self.renderer.lock().unwrap();
		let renderer = guard.as_mut().expect("renderer not started");
		let prev_role = monitor::set_role(Role::Audio);
		monitor::reset_heap_counts();
		let prev_arm = monitor::arm(true);
		let result = monitor::catch(|| renderer.on_start_processing());
		monitor::arm(prev_arm);
		let (allocs, frees) = monitor::heap_counts();
		monitor::set_role(prev_role);
		CallbackReport {
			panic: result.err(),
			allocs,
			frees,
		}
	}

	pub fn process_only(&self, frames: usize, channels: u16, out: &mut Vec<f32>) -> CallbackReport {
		out.clear();
		out.resize(frames * channels as usize, SENTINEL);
		let mut guard = self.renderer.lock().unwrap();
		let renderer = guard.as_mut().expect("renderer not started");
		let prev_role = monitor::set_role(Role::Audio);
		monitor::reset_heap_counts();
		let prev_arm = monitor::arm(true);
		let result = monitor::catch(|| renderer.process(out, channels));
		monitor::arm(prev_arm);
		let (allocs, frees) = monitor::heap_counts();
		monitor::set_role(prev_role);
		CallbackReport {
			panic: result.err(),
			allocs,
			frees,
		}
	}

	pub fn change_sample_rate(&self, sample_rate: u32) -> Option<String> {
		let mut guard = self.renderer.lock().unwrap();
		let renderer = guard.as_mut().expect("renderer not started");
		let prev_role = monitor::set_role(Role::Audio);
		let result = monitor::catch(|| renderer.on_change_sample_rate(sample_rate));
		monitor::set_role(prev_role);
		result.err()
	}
}
