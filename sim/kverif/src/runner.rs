//! Batch runner. The parent process spawns worker child processes (one per
//! core), each of which executes a strided slice of the batch and reports on
//! its stdout; the parent aggregates evidence, watches each child's CPU time
//! (hang watchdog), shrinks and reports violations.
//!
//! Exit codes: 0 = property held on everything explored; 1 = violation
//! (a `VIOLATION property=<id> replay=<path>` line is printed); 2 = harness error.

use std::{
	collections::{BTreeMap, HashSet},
	io::{BufRead, BufReader, Read, Write},
	path::{Path, PathBuf},
	process::{Child, Command, Stdio},
	sync::{
		atomic::{AtomicBool, AtomicU64, Ordering},
		Arc, Mutex,
	},
	time::{Duration, Instant},
};

use serde_json::{json, Value};

use crate::{
	core::{CaseResult, Check, Tier, Violation},
	known::{self, Finding},
};

pub const DEFAULT_SEED: u64 = 20_260_927;

pub fn verif_root() -> PathBuf {
	std::env::var("KVERIF_ROOT")
		.map(PathBuf::from)
		.unwrap_or_else(|_| PathBuf::from("/verif"))
}

fn tmp_dir() -> PathBuf {
	let d = verif_root().join("sim/target/kverif-tmp");
	let _ = std::fs::create_dir_all(&d);
	d
}

pub struct BatchOptions {
	pub tier: Tier,
	pub seed: u64,
	pub workers: usize,
	pub max_cases: Option<u64>,
	pub max_wall: Duration,
	pub collect_hashes: bool,
	pub write_evidence: bool,
	pub quiet: bool,
}

// ---------------------------------------------------------------------------
// worker side
// ---------------------------------------------------------------------------

fn violation_json(v: &Violation) -> Value {
	json!({"oracle": v.oracle, "signature": v.signature, "detail": v.detail})
}

/// `kverif worker <check> <tier> <seed> <start> <stride> <limit> <sigfile> <flags>`
pub fn worker_main(check: &dyn Check, args: &[String]) -> i32 {
	let tier = if args[0] == "thorough" { Tier::Thorough } else { Tier::Quick };
	let seed: u64 = args[1].parse().unwrap();
	let start: u64 = args[2].parse().unwrap();
	let stride: u64 = args[3].parse().unwrap();
	let limit: u64 = args[4].parse().unwrap();
	let sigfile = &args[5];
	let flags = &args[6];
	let collect_hashes = flags.contains('h');
	let id = check.info().id;
	let _ = id;
	let deadline_ms: u64 = std::env::var("KVERIF_DEADLINE_MS")
		.ok()
		.and_then(|s| s.parse().ok())
		.unwrap_or(u64::MAX);
	let t0 = Instant::now();

	let stdout = std::io::stdout();
	let mut out = stdout.lock();
	let mut agg = Agg::default();
	let mut sigs: HashSet<u64> = HashSet::new();
	let mut index = start;
	let mut code = 0;
	while index < limit {
		if t0.elapsed().as_millis() as u64 > deadline_ms {
			agg.stopped_early = true;
			break;
		}
		let case = check.case(tier, seed, index);
		let _ = writeln!(out, "B {index}");
		let _ = out.flush();
		let r = match std::panic::catch_unwind(std::panic::AssertUnwindSafe(|| check.run(&case))) {
			Ok(r) => r,
			Err(_) => {
				// a panic that escaped the monitored sections is a bug of the harness
				let _ = writeln!(out, "X {index} harness panic outside monitored code");
				let _ = out.flush();
				eprintln!("harness panic in case {index}: {}", serde_json::to_string(&case).unwrap_or_default());
				return 2;
			}
		};
		agg.add(&r);
		if agg.samples.len() < 2 {
			agg.samples.push(case.clone());
		}
		if r.nontrivial && !r.inconclusive {
			sigs.insert(r.behaviour_sig);
		}
		if collect_hashes {
			let _ = writeln!(out, "T {index} {:016x}", r.trace_hash);
		}
		if let Some(v) = &r.violation {
			if !r.inconclusive {
				// nothing is suppressed by signature: the input classes of open known findings
				// are not generated, so whatever fails here is a violation that is not listed
				let _ = writeln!(out, "V {index} {}", json!({"case": case, "violation": violation_json(v)}));
				let _ = out.flush();
				code = 1;
				break;
			}
		}
		index += stride;
	}
	// distinct behaviour signatures go through a side file (can be large)
	let mut bytes = Vec::with_capacity(sigs.len() * 8);
	for s in &sigs {
		bytes.extend_from_slice(&s.to_le_bytes());
	}
	let _ = std::fs::write(sigfile, bytes);
	let _ = writeln!(out, "S {}", agg.to_json());
	let _ = out.flush();
	code
}

/// `kverif run-case <file>`: executes exactly one case and reports on stdout.
pub fn run_case_main(check: &dyn Check, case: &Value) -> i32 {
	let r = check.run(case);
	let stdout = std::io::stdout();
	let mut out = stdout.lock();
	match (&r.violation, r.inconclusive) {
		(Some(v), false) => {
			let _ = writeln!(out, "V 0 {}", json!({"violation": violation_json(v), "trace_hash": format!("{:016x}", r.trace_hash)}));
			1
		}
		_ => {
			let _ = writeln!(out, "OK {:016x}", r.trace_hash);
			0
		}
	}
}

#[derive(Default)]
struct Agg {
	evaluations: u64,
	nontrivial: u64,
	inconclusive: u64,
	known_hits: u64,
	counters: BTreeMap<String, u64>,
	sim_seconds: f64,
	frames: u64,
	callbacks: u64,
	samples: Vec<Value>,
	stopped_early: bool,
}

impl Agg {
	fn add(&mut self, r: &CaseResult) {
		self.evaluations += 1;
		if r.nontrivial {
			self.nontrivial += 1;
		}
		if r.inconclusive {
			self.inconclusive += 1;
		}
		for (k, v) in &r.counters {
			*self.counters.entry(k.clone()).or_insert(0) += v;
		}
		self.sim_seconds += r.sim_seconds;
		self.frames += r.frames;
		self.callbacks += r.callbacks;
	}
	fn to_json(&self) -> Value {
		json!({
			"evaluations": self.evaluations, "nontrivial": self.nontrivial, "inconclusive": self.inconclusive,
			"known_hits": self.known_hits, "counters": self.counters, "sim_seconds": self.sim_seconds,
			"frames": self.frames, "callbacks": self.callbacks, "samples": self.samples,
			"stopped_early": self.stopped_early,
		})
	}
	fn merge_json(&mut self, v: &Value) {
		self.evaluations += v["evaluations"].as_u64().unwrap_or(0);
		self.nontrivial += v["nontrivial"].as_u64().unwrap_or(0);
		self.inconclusive += v["inconclusive"].as_u64().unwrap_or(0);
		self.known_hits += v["known_hits"].as_u64().unwrap_or(0);
		if let Some(c) = v["counters"].as_object() {
			for (k, n) in c {
				*self.counters.entry(k.clone()).or_insert(0) += n.as_u64().unwrap_or(0);
			}
		}
		self.sim_seconds += v["sim_seconds"].as_f64().unwrap_or(0.0);
		self.frames += v["frames"].as_u64().unwrap_or(0);
		self.callbacks += v["callbacks"].as_u64().unwrap_or(0);
		if let Some(s) = v["samples"].as_array() {
			for x in s {
				if self.samples.len() < 3 {
					self.samples.push(x.clone());
				}
			}
		}
		self.stopped_early |= v["stopped_early"].as_bool().unwrap_or(false);
	}
}

// ---------------------------------------------------------------------------
// parent side
// ---------------------------------------------------------------------------

fn child_cpu_seconds(pid: u32) -> Option<f64> {
	let s = std::fs::read_to_string(format!("/proc/{pid}/stat")).ok()?;
	let rest = &s[s.rfind(')')? + 2..];
	let f: Vec<&str> = rest.split_whitespace().collect();
	let utime: f64 = f.get(11)?.parse().ok()?;
	let stime: f64 = f.get(12)?.parse().ok()?;
	let hz = unsafe { libc::sysconf(libc::_SC_CLK_TCK) } as f64;
	Some((utime + stime) / hz)
}

struct ChildState {
	last_index: AtomicU64,
	lines: Mutex<Vec<(char, u64, String)>>,
	done: AtomicBool,
}

pub struct ChildOutcome {
	pub violation: Option<(u64, Value)>,
	pub knowns: Vec<(u64, Value)>,
	pub stats: Option<Value>,
	pub hashes: Vec<(u64, String)>,
	pub hang_at: Option<u64>,
	pub crash: Option<(u64, String)>,
	pub harness_error: Option<String>,
}

fn spawn_reader(child: &mut Child, state: Arc<ChildState>) -> std::thread::JoinHandle<()> {
	let stdout = child.stdout.take().unwrap();
	std::thread::spawn(move || {
		let reader = BufReader::new(stdout);
		for line in reader.lines() {
			let Ok(line) = line else { break };
			let mut parts = line.splitn(3, ' ');
			let tag = parts.next().unwrap_or("");
			match tag {
				"B" => {
					if let Some(i) = parts.next().and_then(|s| s.parse::<u64>().ok()) {
						state.last_index.store(i, Ordering::SeqCst);
					}
				}
				"V" | "K" | "T" => {
					let idx = parts.next().and_then(|s| s.parse::<u64>().ok()).unwrap_or(0);
					let rest = parts.next().unwrap_or("").to_string();
					state.lines.lock().unwrap().push((tag.chars().next().unwrap(), idx, rest));
				}
				"S" => {
					let rest: String = line[2..].to_string();
					state.lines.lock().unwrap().push(('S', 0, rest));
				}
				"OK" => {
					state.lines.lock().unwrap().push(('O', 0, parts.next().unwrap_or("").to_string()));
				}
				_ => {}
			}
		}
		state.done.store(true, Ordering::SeqCst);
	})
}

/// Runs one child to completion under the CPU watchdog.
fn supervise(
	mut child: Child,
	hang_cpu_secs: f64,
	stop: &AtomicBool,
) -> ChildOutcome {
	let state = Arc::new(ChildState {
		last_index: AtomicU64::new(u64::MAX),
		lines: Mutex::new(Vec::new()),
		done: AtomicBool::new(false),
	});
	let reader = spawn_reader(&mut child, state.clone());
	let mut stderr = child.stderr.take();
	let stderr_thread = std::thread::spawn(move || {
		let mut s = String::new();
		if let Some(e) = stderr.as_mut() {
			let _ = e.read_to_string(&mut s);
		}
		s
	});
	let pid = child.id();
	let mut last_seen = u64::MAX;
	let mut cpu_at_change = child_cpu_seconds(pid).unwrap_or(0.0);
	let mut hang_at = None;
	let mut killed = false;
	let status = loop {
		match child.try_wait() {
			Ok(Some(status)) => break Some(status),
			Ok(None) => {}
			Err(_) => break None,
		}
		if stop.load(Ordering::SeqCst) && !killed {
			let _ = child.kill();
			killed = true;
		}
		let idx = state.last_index.load(Ordering::SeqCst);
		let cpu = child_cpu_seconds(pid).unwrap_or(cpu_at_change);
		if idx != last_seen {
			last_seen = idx;
			cpu_at_change = cpu;
		} else if cpu - cpu_at_change > hang_cpu_secs && !killed {
			hang_at = Some(idx);
			let _ = child.kill();
			killed = true;
		}
		std::thread::sleep(Duration::from_millis(20));
	};
	let _ = reader.join();
	let stderr_text = stderr_thread.join().unwrap_or_default();
	let mut out = ChildOutcome {
		violation: None,
		knowns: Vec::new(),
		stats: None,
		hashes: Vec::new(),
		hang_at,
		crash: None,
		harness_error: None,
	};
	for (tag, idx, rest) in state.lines.lock().unwrap().drain(..) {
		match tag {
			'V' => {
				if out.violation.is_none() {
					out.violation = serde_json::from_str(&rest).ok().map(|v| (idx, v));
				}
			}
			'K' => {
				if let Ok(v) = serde_json::from_str(&rest) {
					out.knowns.push((idx, v));
				}
			}
			'T' => out.hashes.push((idx, rest)),
			'S' => out.stats = serde_json::from_str(&rest).ok(),
			'O' => out.hashes.push((0, rest)),
			_ => {}
		}
	}
	if hang_at.is_none() && !stop.load(Ordering::SeqCst) {
		if let Some(status) = status {
			let code = status.code();
			if code == Some(2) {
				let tail: String = stderr_text.lines().rev().take(4).collect::<Vec<_>>().join(" | ");
				out.harness_error = Some(format!("worker reported a harness error: {tail}"));
			} else if code != Some(0) && code != Some(1) {
				let idx = state.last_index.load(Ordering::SeqCst);
				let tail: String = stderr_text.lines().rev().take(6).collect::<Vec<_>>().join(" | ");
				out.crash = Some((idx, format!("worker ended with {status:?}: {tail}")));
			}
		}
	}
	out
}

fn self_exe() -> PathBuf {
	std::env::current_exe().expect("current_exe")
}

fn hang_secs() -> f64 {
	std::env::var("KVERIF_HANG_CPU_SECS")
		.ok()
		.and_then(|s| s.parse().ok())
		.unwrap_or(20.0)
}

/// Executes a single case in a fresh process. Returns (violation json, trace hash).
pub fn run_case_in_child(check_id: &str, case: &Value, hang_cpu_secs: f64) -> Result<(Option<Value>, String), String> {
	run_case_in_child_opts(check_id, case, hang_cpu_secs, false)
}

pub fn run_case_in_child_opts(check_id: &str, case: &Value, hang_cpu_secs: f64, ignore_known: bool) -> Result<(Option<Value>, String), String> {
	static COUNTER: AtomicU64 = AtomicU64::new(0);
	let n = COUNTER.fetch_add(1, Ordering::SeqCst);
	let path = tmp_dir().join(format!("case-{}-{}.json", std::process::id(), n));
	std::fs::write(&path, serde_json::to_vec(&json!({"check": check_id, "case": case})).unwrap())
		.map_err(|e| e.to_string())?;
	let mut cmd = Command::new(self_exe());
	cmd.arg("run-case").arg(&path).stdout(Stdio::piped()).stderr(Stdio::piped());
	if ignore_known {
		cmd.env("KVERIF_IGNORE_KNOWN", "1");
	}
	let child = cmd.spawn().map_err(|e| e.to_string())?;
	let stop = AtomicBool::new(false);
	let outcome = supervise(child, hang_cpu_secs, &stop);
	let _ = std::fs::remove_file(&path);
	if let Some(e) = outcome.harness_error {
		return Err(e);
	}
	if outcome.hang_at.is_some() {
		return Ok((
			Some(json!({"oracle": "watchdog", "signature": "hang", "detail": format!("case consumed more than {hang_cpu_secs} CPU-seconds without finishing")})),
			String::new(),
		));
	}
	if let Some((_, msg)) = outcome.crash {
		return Ok((Some(json!({"oracle": "process", "signature": "crash", "detail": msg})), String::new()));
	}
	if let Some((_, v)) = outcome.violation {
		let h = v["trace_hash"].as_str().unwrap_or("").to_string();
		return Ok((Some(v["violation"].clone()), h));
	}
	let h = outcome.hashes.first().map(|(_, h)| h.clone()).unwrap_or_default();
	Ok((None, h))
}

fn shrink(check: &dyn Check, mut case: Value, signature: &str, budget: Duration) -> (Value, u64) {
	let id = check.info().id;
	let t0 = Instant::now();
	let mut steps = 0u64;
	let hang = if signature == "hang" { 3.0 } else { hang_secs() };
	'outer: loop {
		if t0.elapsed() > budget {
			break;
		}
		let cands = check.shrink(&case);
		if cands.is_empty() {
			break;
		}
		for batch in cands.chunks(12) {
			if t0.elapsed() > budget {
				break 'outer;
			}
			let results: Vec<bool> = std::thread::scope(|s| {
				let handles: Vec<_> = batch
					.iter()
					.map(|c| {
						s.spawn(move || match run_case_in_child(id, c, hang) {
							Ok((Some(v), _)) => v["signature"].as_str() == Some(signature),
							_ => false,
						})
					})
					.collect();
				handles.into_iter().map(|h| h.join().unwrap_or(false)).collect()
			});
			if let Some(pos) = results.iter().position(|b| *b) {
				case = batch[pos].clone();
				steps += 1;
				continue 'outer;
			}
		}
		break;
	}
	(case, steps)
}

pub struct BatchResult {
	pub exit_code: i32,
	pub hashes: BTreeMap<u64, String>,
}

pub fn replay_witness(check_id: &str, finding: &Finding) -> Result<Option<Value>, String> {
	let path = verif_root().join(&finding.witness);
	let text = std::fs::read_to_string(&path).map_err(|e| format!("{}: {e}", path.display()))?;
	let v: Value = serde_json::from_str(&text).map_err(|e| e.to_string())?;
	let (viol, _) = run_case_in_child_opts(check_id, &v["case"], 5.0, true)?;
	Ok(viol)
}

pub fn run_batch(check: &dyn Check, opts: &BatchOptions) -> BatchResult {
	let info = check.info();
	let id = info.id;
	let t0 = Instant::now();
	let total = check.num_cases(opts.tier).min(opts.max_cases.unwrap_or(u64::MAX));
	let workers = opts.workers.max(1).min(total.max(1) as usize);
	let mut exit_code = 0;
	let mut messages: Vec<String> = Vec::new();

	// known findings first: open ones must still fail the same way, fixed ones must pass
	let findings: Vec<Finding> = known::load().into_iter().filter(|f| f.property == id).collect();
	let mut known_lines = Vec::new();
	for f in &findings {
		match replay_witness(id, f) {
			Ok(Some(v)) => {
				let sig = v["signature"].as_str().unwrap_or("");
				if f.status == "open" && sig == f.signature {
					known_lines.push(format!("KNOWN-FINDING: property={id} {}", f.what));
				} else if f.status == "fixed" {
					let replay = verif_root().join(&f.witness);
					println!("the witness of fixed finding '{}' fails again: {}", f.what, v);
					println!("VIOLATION property={id} replay={}", replay.display());
					exit_code = 1;
				} else {
					let replay = verif_root().join(&f.witness);
					println!("the witness of open finding '{}' now fails differently: {}", f.what, v);
					println!("VIOLATION property={id} replay={}", replay.display());
					exit_code = 1;
				}
			}
			Ok(None) => {
				if f.status == "open" {
					messages.push(format!("note: witness of open finding '{}' no longer fails", f.what));
				}
			}
			Err(e) => {
				eprintln!("harness error replaying witness {}: {e}", f.witness);
				return BatchResult { exit_code: 2, hashes: BTreeMap::new() };
			}
		}
	}
	for l in &known_lines {
		println!("{l}");
	}

	let stop = Arc::new(AtomicBool::new(false));
	let deadline_ms = opts.max_wall.as_millis() as u64;
	let mut handles = Vec::new();
	let mut sigfiles = Vec::new();
	for w in 0..workers {
		let sigfile = tmp_dir().join(format!("sigs-{}-{}.bin", std::process::id(), w));
		sigfiles.push(sigfile.clone());
		let child = Command::new(self_exe())
			.arg("worker")
			.arg(id)
			.arg(opts.tier.name())
			.arg(opts.seed.to_string())
			.arg(w.to_string())
			.arg(workers.to_string())
			.arg(total.to_string())
			.arg(&sigfile)
			.arg(if opts.collect_hashes { "-h" } else { "-" })
			.env("KVERIF_DEADLINE_MS", deadline_ms.to_string())
			.stdout(Stdio::piped())
			.stderr(Stdio::piped())
			.spawn();
		let child = match child {
			Ok(c) => c,
			Err(e) => {
				eprintln!("harness error: cannot spawn worker: {e}");
				return BatchResult { exit_code: 2, hashes: BTreeMap::new() };
			}
		};
		let stop = stop.clone();
		handles.push(std::thread::spawn(move || {
			let o = supervise(child, hang_secs(), &stop);
			if o.violation.is_some() || o.hang_at.is_some() || o.crash.is_some() || o.harness_error.is_some() {
				stop.store(true, Ordering::SeqCst);
			}
			o
		}));
	}
	let outcomes: Vec<ChildOutcome> = handles.into_iter().map(|h| h.join().unwrap()).collect();

	let mut agg = Agg::default();
	let mut hashes = BTreeMap::new();
	let mut first_violation: Option<(u64, Value, Value)> = None; // index, case, violation
	let mut known_cases: Vec<(u64, Value)> = Vec::new();
	for o in &outcomes {
		if let Some(e) = &o.harness_error {
			eprintln!("harness error: {e}");
			return BatchResult { exit_code: 2, hashes };
		}
		if let Some(s) = &o.stats {
			agg.merge_json(s);
		}
		for (i, h) in &o.hashes {
			hashes.insert(*i, h.clone());
		}
		for k in &o.knowns {
			known_cases.push(k.clone());
		}
		let mut cand: Option<(u64, Value, Value)> = None;
		if let Some((idx, v)) = &o.violation {
			cand = Some((*idx, v["case"].clone(), v["violation"].clone()));
		} else if let Some(idx) = o.hang_at {
			let case = check.case(opts.tier, opts.seed, idx);
			cand = Some((idx, case, json!({"oracle": "watchdog", "signature": "hang", "detail": format!("case {idx} consumed more than {} CPU-seconds without finishing", hang_secs())})));
		} else if let Some((idx, msg)) = &o.crash {
			if *idx != u64::MAX {
				let case = check.case(opts.tier, opts.seed, *idx);
				cand = Some((*idx, case, json!({"oracle": "process", "signature": "crash", "detail": msg})));
			} else {
				eprintln!("harness error: worker crashed before its first case: {msg}");
				return BatchResult { exit_code: 2, hashes };
			}
		}
		if let Some(c) = cand {
			if first_violation.as_ref().map(|f| c.0 < f.0).unwrap_or(true) {
				first_violation = Some(c);
			}
		}
	}
	let mut sigs: HashSet<u64> = HashSet::new();
	for f in &sigfiles {
		if let Ok(bytes) = std::fs::read(f) {
			for c in bytes.chunks_exact(8) {
				sigs.insert(u64::from_le_bytes(c.try_into().unwrap()));
			}
		}
		let _ = std::fs::remove_file(f);
	}

	// a hang / crash may itself be a listed known finding
	let mut violations = 0;
	let mut replay_path = None;
	if let Some((idx, case, viol)) = first_violation {
		let sig = viol["signature"].as_str().unwrap_or("").to_string();
		{
			// (no suppression by signature: open known findings are avoided by the generators
			// and shown by their witnesses; anything that fails in the batch is reported)
			violations = 1;
			if !opts.quiet {
				eprintln!("violation at case {idx} (seed {}): {}", opts.seed, viol);
				eprintln!("shrinking ...");
			}
			// (KVERIF_SHRINK_SECS: time budget for minimising; the catch-table tools set it to 0 -
			// they only need the verdict - the registered commands leave the default)
			let shrink_secs = std::env::var("KVERIF_SHRINK_SECS").ok().and_then(|v| v.parse::<u64>().ok()).unwrap_or(120);
			let (small, steps) = shrink(check, case.clone(), &sig, Duration::from_secs(shrink_secs));
			// confirm the minimised case in a fresh process
			let confirmed = match run_case_in_child(id, &small, hang_secs()) {
				Ok((Some(v), _)) if v["signature"].as_str() == Some(sig.as_str()) => Some(v),
				_ => None,
			};
			let (final_case, final_viol) = match confirmed {
				Some(v) => (small, v),
				None => (case, viol),
			};
			let dir = verif_root().join("replays");
			let _ = std::fs::create_dir_all(&dir);
			let path = dir.join(format!("{id}-{}-{idx}.json", opts.seed));
			let doc = json!({
				"check": id, "tier": opts.tier.name(), "seed": opts.seed, "index": idx,
				"violation": final_viol, "shrink_steps": steps, "case": final_case,
			});
			let _ = std::fs::write(&path, serde_json::to_string_pretty(&doc).unwrap());
			eprintln!("minimised case ({steps} shrink steps): {}", serde_json::to_string(&doc["case"]).unwrap_or_default());
			eprintln!("oracle {}: {}", doc["violation"]["oracle"], doc["violation"]["detail"]);
			println!("VIOLATION property={id} replay={}", path.display());
			replay_path = Some(path);
			exit_code = 1;
		}
	}
	let _ = replay_path;

	let wall = t0.elapsed().as_secs_f64();
	if opts.write_evidence {
		let runs_per_hour = if wall > 0.0 { agg.evaluations as f64 / wall * 3600.0 } else { 0.0 };
		let mut samples = agg.samples.clone();
		if samples.is_empty() {
			samples.push(check.case(opts.tier, opts.seed, 0));
		}
		let evidence = json!({
			"property_id": id,
			"tier": opts.tier.name(),
			"seed": opts.seed,
			"level": info.level,
			"coverage": {
				"evaluations": agg.evaluations,
				"distinct_nontrivial": sigs.len(),
				"rule": info.rule,
				"samples": samples,
				"nontrivial_runs": agg.nontrivial,
				"inconclusive_runs": agg.inconclusive,
				"planned_cases": total,
				"stopped_early_on_wall_clock": agg.stopped_early,
				"simulated_seconds": agg.sim_seconds,
				"callbacks": agg.callbacks,
				"frames_rendered": agg.frames,
				"runs_per_hour": runs_per_hour,
				"workers": workers,
				"counters": agg.counters,
				"known_finding_hits": agg.known_hits,
				"known_findings_listed": findings.iter().map(|f| json!({"signature": f.signature, "status": f.status, "what": f.what})).collect::<Vec<_>>(),
				"components": info.components.iter().map(|(c, k)| json!({"component": c, "ran": k})).collect::<Vec<_>>(),
				"notes": messages,
			},
			"assumptions": info.assumptions,
			"wall_s": wall,
			"violations": violations,
		});
		let dir = verif_root().join("evidence");
		let _ = std::fs::create_dir_all(&dir);
		let path = dir.join(format!("{id}.json"));
		if let Err(e) = std::fs::write(&path, serde_json::to_string_pretty(&evidence).unwrap()) {
			eprintln!("harness error: cannot write evidence: {e}");
			return BatchResult { exit_code: 2, hashes };
		}
	}
	if !opts.quiet {
		eprintln!(
			"{id} {}: {} cases ({} distinct non-trivial behaviours, {} inconclusive) in {:.1}s, seed {}{}",
			opts.tier.name(),
			agg.evaluations,
			sigs.len(),
			agg.inconclusive,
			wall,
			opts.seed,
			if agg.stopped_early { " [stopped early on wall-clock cap]" } else { "" }
		);
	}
	BatchResult { exit_code, hashes }
}

pub fn replay_file(check_lookup: &dyn Fn(&str) -> Option<Box<dyn Check>>, path: &Path) -> i32 {
	let text = match std::fs::read_to_string(path) {
		Ok(t) => t,
		Err(e) => {
			eprintln!("harness error: {e}");
			return 2;
		}
	};
	let doc: Value = match serde_json::from_str(&text) {
		Ok(v) => v,
		Err(e) => {
			eprintln!("harness error: malformed replay file: {e}");
			return 2;
		}
	};
	let Some(id) = doc["check"].as_str() else {
		eprintln!("harness error: replay file has no check id");
		return 2;
	};
	if check_lookup(id).is_none() {
		eprintln!("harness error: unknown check {id}");
		return 2;
	}
	match run_case_in_child_opts(id, &doc["case"], hang_secs(), true) {
		Ok((Some(v), h)) => {
			eprintln!("reproduced: {v} (trace {h})");
			println!("VIOLATION property={id} replay={}", path.display());
			1
		}
		Ok((None, h)) => {
			eprintln!("no violation on replay (trace {h})");
			0
		}
		Err(e) => {
			eprintln!("harness error: {e}");
			2
		}
	}
}
