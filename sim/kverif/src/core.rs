//! Shared vocabulary of all checks.

use std::collections::BTreeMap;

use serde_json::Value;

#[derive(Clone, Copy, Debug, PartialEq, Eq)]
pub enum Tier {
	Quick,
	Thorough,
}

impl Tier {
	pub fn name(self) -> &'static str {
		match self {
			Tier::Quick => "quick",
			Tier::Thorough => "thorough",
		}
	}
}

#[derive(Clone, Debug)]
pub struct Violation {
	/// which oracle raised it
	pub oracle: String,
	/// class of the failure; stable under shrinking, used to match known findings
	pub signature: String,
	/// expected vs observed, op index, ...
	pub detail: String,
}

impl Violation {
	pub fn new(oracle: &str, signature: impl Into<String>, detail: impl Into<String>) -> Self {
		Self {
			oracle: oracle.to_string(),
			signature: signature.into(),
			detail: detail.into(),
		}
	}
}

#[derive(Clone, Debug, Default)]
pub struct CaseResult {
	pub violation: Option<Violation>,
	/// hash of the abstract behaviour of the run (states visited, transitions,
	/// queue occupancies, ...) - counts distinct explored behaviours
	pub behaviour_sig: u64,
	pub nontrivial: bool,
	/// hash of the complete event log (ops, yields, rendered sample bits, oracle
	/// observations): two executions of one case must agree on it
	pub trace_hash: u64,
	pub counters: BTreeMap<String, u64>,
	pub sim_seconds: f64,
	pub frames: u64,
	pub callbacks: u64,
	/// the run hit a harness bound (step cap); its verdict is not used
	pub inconclusive: bool,
}

impl CaseResult {
	pub fn count(&mut self, key: &str, n: u64) {
		if n > 0 {
			*self.counters.entry(key.to_string()).or_insert(0) += n;
		}
	}
	pub fn hit(&mut self, key: &str) {
		self.count(key, 1);
	}
	pub fn fail(&mut self, v: Violation) {
		if self.violation.is_none() {
			self.violation = Some(v);
		}
	}
}

pub struct CheckInfo {
	pub id: &'static str,
	pub level: &'static str,
	pub rule: &'static str,
	pub assumptions: Vec<String>,
	/// which components ran real code and which a stub
	pub components: Vec<(&'static str, &'static str)>,
}

pub trait Check: Send + Sync {
	fn info(&self) -> CheckInfo;
	/// Number of cases of a batch at this tier (systematic + seeded).
	fn num_cases(&self, tier: Tier) -> u64;
	/// The `index`-th case of the batch: a pure function of (tier, seed, index).
	/// The case is data: everything `run` does is determined by it.
	fn case(&self, tier: Tier, seed: u64, index: u64) -> Value;
	/// Executes a case against the real library. Deterministic.
	fn run(&self, case: &Value) -> CaseResult;
	/// Smaller variants of a failing case, most aggressive first.
	fn shrink(&self, case: &Value) -> Vec<Value>;
}

/// Generic shrinker for cases that carry an `ops` array: drop chunks, then
/// single ops. Checks add their own argument simplifications on top.
pub fn shrink_ops_array(case: &Value, field: &str) -> Vec<Value> {
	let mut out = Vec::new();
	let Some(ops) = case.get(field).and_then(|o| o.as_array()) else {
		return out;
	};
	let n = ops.len();
	if n == 0 {
		return out;
	}
	let mut chunk = n / 2;
	while chunk >= 1 {
		let mut start = 0;
		while start < n {
			let end = (start + chunk).min(n);
			let mut v: Vec<Value> = Vec::with_capacity(n - (end - start));
			v.extend_from_slice(&ops[..start]);
			v.extend_from_slice(&ops[end..]);
			let mut c = case.clone();
			c[field] = Value::Array(v);
			out.push(c);
			start = end;
		}
		if chunk == 1 {
			break;
		}
		chunk /= 2;
	}
	out
}
