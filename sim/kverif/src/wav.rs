//! Independent PCM WAV encoder + reference decoder, and a media source that
//! injects I/O faults (short reads, `Interrupted`, hard errors, truncation, bit
//! flips, unseekable).

use std::io::{self, Read, Seek, SeekFrom};

use kira::Frame;
use serde::{Deserialize, Serialize};
use symphonia::core::io::MediaSource;

use crate::rng::splitmix64;

#[derive(Clone, Copy, Debug, Serialize, Deserialize, PartialEq)]
pub enum Enc {
	U8,
	S16,
	S24,
	S32,
	F32,
	F64,
}

impl Enc {
	pub fn bytes(self) -> usize {
		match self {
			Enc::U8 => 1,
			Enc::S16 => 2,
			Enc::S24 => 3,
			Enc::S32 | Enc::F32 => 4,
			Enc::F64 => 8,
		}
	}
}

#[derive(Clone, Copy, Debug, Serialize, Deserialize, PartialEq)]
pub struct WavSpec {
	pub enc: Enc,
	pub channels: u16,
	pub sample_rate: u32,
	pub frames: usize,
	/// seed of the sample data; `indexed`: frame i carries a value that identifies i
	pub seed: u64,
	pub indexed: bool,
	/// WAVE_FORMAT_EXTENSIBLE header (40-byte fmt chunk with channel mask and sub-format GUID), as
	/// written by most tools for 24-bit, float and multi-channel files
	#[serde(default)]
	pub extensible: bool,
}

impl WavSpec {
	/// offset of the first sample byte
	pub fn data_offset(&self) -> usize {
		if self.extensible {
			68
		} else {
			44
		}
	}
}

/// Raw sample (as stored in the file) of (frame, channel).
fn raw_sample(spec: &WavSpec, frame: usize, channel: u16) -> u64 {
	if spec.indexed {
		// an odd multiplier is a bijection modulo 2^16: the low 16 bits identify the frame
		let v = ((frame as u64).wrapping_mul(40_503).wrapping_add(channel as u64 * 7)) & 0xffff;
		return match spec.enc {
			Enc::U8 => v & 0xff,
			Enc::S16 => v,
			Enc::S24 => v << 8,
			Enc::S32 => v << 16,
			Enc::F32 => ((v as i64 - 32_768) as f32 / 32_768.0).to_bits() as u64,
			Enc::F64 => ((v as i64 - 32_768) as f64 / 32_768.0).to_bits(),
		};
	}
	let mut x = spec.seed ^ (frame as u64).wrapping_mul(0x9E37_79B9_7F4A_7C15) ^ ((channel as u64) << 56);
	let h = splitmix64(&mut x);
	match spec.enc {
		Enc::U8 => h & 0xff,
		Enc::S16 => h & 0xffff,
		Enc::S24 => h & 0xff_ffff,
		Enc::S32 => h & 0xffff_ffff,
		Enc::F32 => (((h >> 11) as f64 / (1u64 << 53) as f64 * 2.0 - 1.0) as f32).to_bits() as u64,
		Enc::F64 => ((h >> 11) as f64 / (1u64 << 53) as f64 * 2.0 - 1.0).to_bits(),
	}
}

pub fn encode(spec: &WavSpec) -> Vec<u8> {
	let bps = spec.enc.bytes();
	let block = bps * spec.channels as usize;
	let data_len = block * spec.frames;
	let float = matches!(spec.enc, Enc::F32 | Enc::F64);
	let mut out = Vec::with_capacity(68 + data_len);
	out.extend_from_slice(b"RIFF");
	out.extend_from_slice(&((spec.data_offset() - 8 + data_len) as u32).to_le_bytes());
	out.extend_from_slice(b"WAVE");
	out.extend_from_slice(b"fmt ");
	out.extend_from_slice(&(if spec.extensible { 40u32 } else { 16u32 }).to_le_bytes());
	out.extend_from_slice(&(if spec.extensible { 0xFFFEu16 } else if float { 3u16 } else { 1u16 }).to_le_bytes());
	out.extend_from_slice(&spec.channels.to_le_bytes());
	out.extend_from_slice(&spec.sample_rate.to_le_bytes());
	out.extend_from_slice(&((spec.sample_rate as usize * block) as u32).to_le_bytes());
	out.extend_from_slice(&(block as u16).to_le_bytes());
	out.extend_from_slice(&((bps * 8) as u16).to_le_bytes());
	if spec.extensible {
		out.extend_from_slice(&22u16.to_le_bytes()); // cbSize
		out.extend_from_slice(&((bps * 8) as u16).to_le_bytes()); // valid bits per sample
		// the standard speaker masks: front centre; front left | front right; then the first n speakers
		let mask: u32 = match spec.channels {
			1 => 0x4,
			2 => 0x3,
			n => (1u32 << n) - 1,
		};
		out.extend_from_slice(&mask.to_le_bytes());
		// KSDATAFORMAT_SUBTYPE_PCM / _IEEE_FLOAT
		out.extend_from_slice(&(if float { 3u32 } else { 1u32 }).to_le_bytes());
		out.extend_from_slice(&[0x00, 0x00, 0x10, 0x00, 0x80, 0x00, 0x00, 0xaa, 0x00, 0x38, 0x9b, 0x71]);
	}
	out.extend_from_slice(b"data");
	out.extend_from_slice(&(data_len as u32).to_le_bytes());
	for f in 0..spec.frames {
		for c in 0..spec.channels {
			let raw = raw_sample(spec, f, c);
			out.extend_from_slice(&raw.to_le_bytes()[..bps]);
		}
	}
	out
}


/// Documented PCM -> f32 conversion of one stored sample.
pub fn sample_to_f32(enc: Enc, bytes: &[u8]) -> f32 {
	match enc {
		Enc::U8 => (bytes[0] as f32 - 128.0) / 128.0,
		Enc::S16 => i16::from_le_bytes([bytes[0], bytes[1]]) as f32 / 32_768.0,
		Enc::S24 => {
			let v = (bytes[0] as i32) | (bytes[1] as i32) << 8 | ((bytes[2] as i8) as i32) << 16;
			v as f32 / 8_388_608.0
		}
		Enc::S32 => (i32::from_le_bytes([bytes[0], bytes[1], bytes[2], bytes[3]]) as f64 / 2_147_483_648.0) as f32,
		Enc::F32 => f32::from_le_bytes([bytes[0], bytes[1], bytes[2], bytes[3]]),
		Enc::F64 => f64::from_le_bytes(bytes[..8].try_into().unwrap()) as f32,
	}
}

/// Reference decode of the sample data of `bytes` (a file produced by `encode`,
/// possibly corrupted inside the data chunk or truncated): as many whole frames
/// as are present.
pub fn reference_frames(spec: &WavSpec, bytes: &[u8]) -> Vec<Frame> {
	let bps = spec.enc.bytes();
	let block = bps * spec.channels as usize;
	if bytes.len() <= spec.data_offset() || block == 0 {
		return vec![];
	}
	let data = &bytes[spec.data_offset()..];
	let n = (data.len() / block).min(spec.frames);
	(0..n)
		.map(|f| {
			let at = f * block;
			let l = sample_to_f32(spec.enc, &data[at..at + bps]);
			let r = if spec.channels >= 2 { sample_to_f32(spec.enc, &data[at + bps..at + 2 * bps]) } else { l };
			Frame::new(l, r)
		})
		.collect()
}

/// Frame index encoded in a frame of an `indexed` file (left channel).
pub fn index_of(spec: &WavSpec, left: f32) -> Option<usize> {
	let v: i64 = match spec.enc {
		Enc::U8 => return None,
		Enc::S16 | Enc::S24 | Enc::S32 => {
			let s = (left as f64 * 32_768.0).round() as i64;
			s.rem_euclid(65_536)
		}
		Enc::F32 | Enc::F64 => (left as f64 * 32_768.0).round() as i64 + 32_768,
	};
	if !(0..65_536).contains(&v) {
		return None;
	}
	// inverse of 40503 modulo 65536
	const INV: u64 = {
		// 40503 * INV == 1 (mod 65536), computed by Newton iteration
		let a = 40_503u64;
		let mut x = a; // correct to 3 bits
		let mut i = 0;
		while i < 5 {
			x = x.wrapping_mul(2u64.wrapping_sub(a.wrapping_mul(x)));
			i += 1;
		}
		x & 0xffff
	};
	Some(((v as u64).wrapping_mul(INV) & 0xffff) as usize)
}

#[derive(Clone, Copy, Debug, Serialize, Deserialize, PartialEq)]
pub enum Fault {
	None,
	/// the file ends after `k` bytes
	Truncate(usize),
	/// bit `bit` of byte `k` is flipped
	Flip(usize, u8),
	/// a read touching byte `k` fails with a hard I/O error (every time)
	IoError(usize),
	/// the n-th read call returns `ErrorKind::Interrupted` once
	Interrupted(u64),
	/// every read returns at most `n` bytes
	ShortReads(usize),
	/// seeking is not supported
	Unseekable,
}

pub struct FaultyMediaSource {
	data: Vec<u8>,
	pos: u64,
	fault: Fault,
	reads: u64,
	pub fired: std::sync::Arc<std::sync::atomic::AtomicU64>,
}

impl FaultyMediaSource {
	pub fn new(mut data: Vec<u8>, fault: Fault) -> (Self, std::sync::Arc<std::sync::atomic::AtomicU64>) {
		let fired = std::sync::Arc::new(std::sync::atomic::AtomicU64::new(0));
		match fault {
			Fault::Truncate(k) => {
				if k < data.len() {
					fired.fetch_add(1, std::sync::atomic::Ordering::SeqCst);
				}
				data.truncate(k);
			}
			Fault::Flip(k, bit) => {
				if k < data.len() {
					data[k] ^= 1 << (bit % 8);
					fired.fetch_add(1, std::sync::atomic::Ordering::SeqCst);
				}
			}
			_ => {}
		}
		(
			Self {
				data,
				pos: 0,
				fault,
				reads: 0,
				fired: fired.clone(),
			},
			fired,
		)
	}

	pub fn effective_bytes(&self) -> &[u8] {
		&self.data
	}
}

impl Read for FaultyMediaSource {
	fn read(&mut self, buf: &mut [u8]) -> io::Result<usize> {
		let call = self.reads;
		self.reads += 1;
		if let Fault::Interrupted(n) = self.fault {
			if call == n {
				self.fired.fetch_add(1, std::sync::atomic::Ordering::SeqCst);
				return Err(io::Error::new(io::ErrorKind::Interrupted, "injected EINTR"));
			}
		}
		let start = (self.pos as usize).min(self.data.len());
		let mut n = buf.len().min(self.data.len() - start);
		if let Fault::ShortReads(m) = self.fault {
			if n > m.max(1) {
				n = m.max(1);
				self.fired.fetch_add(1, std::sync::atomic::Ordering::SeqCst);
			}
		}
		if let Fault::IoError(k) = self.fault {
			if start <= k && k < start + n.max(1) && k < self.data.len() {
				self.fired.fetch_add(1, std::sync::atomic::Ordering::SeqCst);
				return Err(io::Error::new(io::ErrorKind::Other, "injected I/O error"));
			}
		}
		buf[..n].copy_from_slice(&self.data[start..start + n]);
		self.pos += n as u64;
		Ok(n)
	}
}

impl Seek for FaultyMediaSource {
	fn seek(&mut self, pos: SeekFrom) -> io::Result<u64> {
		if self.fault == Fault::Unseekable {
			self.fired.fetch_add(1, std::sync::atomic::Ordering::SeqCst);
			return Err(io::Error::new(io::ErrorKind::Unsupported, "injected: not seekable"));
		}
		let new = match pos {
			SeekFrom::Start(p) => p as i128,
			SeekFrom::End(d) => self.data.len() as i128 + d as i128,
			SeekFrom::Current(d) => self.pos as i128 + d as i128,
		};
		if new < 0 {
			return Err(io::Error::new(io::ErrorKind::InvalidInput, "seek before start"));
		}
		self.pos = new as u64;
		Ok(self.pos)
	}
}

impl MediaSource for FaultyMediaSource {
	fn is_seekable(&self) -> bool {
		self.fault != Fault::Unseekable
	}
	fn byte_len(&self) -> Option<u64> {
		if self.fault == Fault::Unseekable {
			None
		} else {
			Some(self.data.len() as u64)
		}
	}
}
