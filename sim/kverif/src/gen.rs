//! Seeded generators for specs. Every numeric argument is drawn from a value
//! tier: T0 typical, T1 the boundary values the properties name, T2 extreme
//! finite magnitudes.

use crate::{known, rng::Rng, spec::*, world::*};

#[derive(Clone, Copy, Debug)]
pub struct Tiers {
	/// probability that an argument is drawn from the boundary tier
	pub t1: f64,
	/// probability that an argument is drawn from the extreme tier
	pub t2: f64,
}

pub struct G<'a> {
	pub rng: &'a mut Rng,
	pub tiers: Tiers,
	/// number of modulators / clocks / listeners / sends the case will have
	/// created by now (indices are taken modulo the live count at run time)
	pub n_mods: usize,
	pub n_clocks: usize,
	pub allow_mod_links: bool,
	pub allow_dist_links: bool,
	pub allow_clock_starts: bool,
	pub max_delay_secs: f64,
	pub max_tween_secs: f64,
}

#[derive(Clone, Copy, PartialEq)]
pub enum T {
	T0,
	T1,
	T2,
}

impl<'a> G<'a> {
	pub fn new(rng: &'a mut Rng, tiers: Tiers) -> Self {
		Self {
			rng,
			tiers,
			n_mods: 0,
			n_clocks: 0,
			allow_mod_links: true,
			allow_dist_links: false,
			allow_clock_starts: true,
			max_delay_secs: 0.05,
			max_tween_secs: 0.05,
		}
	}

	pub fn tier(&mut self) -> T {
		let x = self.rng.f64();
		if x < self.tiers.t2 {
			T::T2
		} else if x < self.tiers.t2 + self.tiers.t1 {
			T::T1
		} else {
			T::T0
		}
	}

	pub fn easing(&mut self) -> EasingSpec {
		EasingSpec::gen(self.rng)
	}

	pub fn start(&mut self) -> StartSpec {
		let k = self.rng.below(10);
		if k < 6 {
			StartSpec::Immediate
		} else if k < 8 || !self.allow_clock_starts || self.n_clocks == 0 {
			match self.tier() {
				T::T0 => StartSpec::Delayed(self.rng.frange(0.0, self.max_delay_secs)),
				T::T1 => StartSpec::Delayed(*self.rng.pick(&[0.0, 1e-9, 1.0 / 48_000.0, self.max_delay_secs])),
				T::T2 => StartSpec::Delayed(*self.rng.pick(&[1e9, 1e-300, 3600.0])),
			}
		} else {
			let ticks = match self.tier() {
				T::T0 => self.rng.below(6),
				T::T1 => *self.rng.pick(&[0u64, 1, 2]),
				T::T2 => *self.rng.pick(&[1u64 << 53, u64::MAX, 1_000_000]),
			};
			let fraction = if self.rng.chance(0.5) { 0.0 } else { self.rng.f64() };
			StartSpec::Clock {
				clock: self.rng.usize_below(8),
				ticks,
				fraction,
			}
		}
	}

	pub fn tween(&mut self) -> TweenSpec {
		let dur = match self.tier() {
			T::T0 => self.rng.frange(0.0, self.max_tween_secs),
			T::T1 => *self.rng.pick(&[0.0, 1e-9, 1.0 / 192_000.0, 0.01, self.max_tween_secs]),
			T::T2 => *self.rng.pick(&[1e9, 1e-300, 1e6]),
		};
		TweenSpec {
			start: self.start(),
			dur,
			easing: self.easing(),
		}
	}

	fn link<V: Copy>(&mut self, lo: V, hi: V) -> Option<Val<V>> {
		if self.allow_mod_links && self.n_mods > 0 && self.rng.chance(0.15) {
			let input = match self.rng.below(4) {
				0 => (0.0, 1.0),
				1 => (-1.0, 1.0),
				2 => (1.0, 0.0),
				_ => (0.0, 0.0),
			};
			let output = if self.rng.chance(0.5) { (lo, hi) } else { (hi, lo) };
			return Some(Val::Mod {
				m: self.rng.usize_below(8),
				map: MapSpec {
					input,
					output,
					easing: self.easing(),
				},
			});
		}
		if self.allow_dist_links && self.rng.chance(0.15) {
			let input = match self.rng.below(3) {
				0 => (0.0, 100.0),
				1 => (1.0, 10.0),
				_ => (5.0, 5.0),
			};
			return Some(Val::Dist(MapSpec {
				input,
				output: (lo, hi),
				easing: self.easing(),
			}));
		}
		None
	}

	pub fn db_raw(&mut self) -> f32 {
		match self.tier() {
			T::T0 => self.rng.frange(-40.0, 6.0) as f32,
			T::T1 => *self.rng.pick(&[-60.0f32, 0.0, -59.999, -60.001, -100.0, 6.0, 24.0, -0.0]),
			T::T2 => {
				if known::is_open("C01-huge-gain-nan") {
					*self.rng.pick(&[-1e30f32, f32::MIN, 120.0, -3.0e38])
				} else {
					*self.rng.pick(&[f32::MAX, f32::MIN, 1e30, -1e30, 770.0, 800.0, 120.0])
				}
			}
		}
	}

	pub fn db(&mut self) -> Val<Db> {
		if let Some(v) = self.link(Db(-60.0), Db(0.0)) {
			return v;
		}
		Val::Fixed(Db(self.db_raw()))
	}

	pub fn pan(&mut self) -> Val<Pan> {
		if let Some(v) = self.link(Pan(-1.0), Pan(1.0)) {
			return v;
		}
		Val::Fixed(Pan(match self.tier() {
			T::T0 => self.rng.frange(-1.0, 1.0) as f32,
			T::T1 => *self.rng.pick(&[-1.0f32, 0.0, 1.0, 0.5, -1.5, 2.0]),
			T::T2 => *self.rng.pick(&[f32::MAX, f32::MIN, 1e30, -1e30]),
		}))
	}

	pub fn rate_raw(&mut self, allow_negative: bool) -> f64 {
		let v = match self.tier() {
			T::T0 => *self.rng.pick(&[1.0, 1.0, 0.5, 2.0, 0.75, 1.5, std::f64::consts::FRAC_1_SQRT_2, 3.7]),
			T::T1 => *self.rng.pick(&[0.0, 1.0, 1e-9, 0.999_999_9, 1.000_000_1, 16.0, 100.0]),
			T::T2 => *self.rng.pick(&[300.0, 1e-300, 1000.0]),
		};
		if allow_negative && self.rng.chance(0.2) {
			-v
		} else {
			v
		}
	}

	pub fn rate(&mut self, allow_negative: bool) -> Val<Rate> {
		if let Some(v) = self.link(Rate(0.5), Rate(2.0)) {
			return v;
		}
		Val::Fixed(Rate(self.rate_raw(allow_negative)))
	}

	pub fn mix(&mut self) -> Val<MixS> {
		if let Some(v) = self.link(MixS(0.0), MixS(1.0)) {
			return v;
		}
		Val::Fixed(MixS(match self.tier() {
			T::T0 => self.rng.f64() as f32,
			T::T1 => *self.rng.pick(&[0.0f32, 1.0, 0.5, -0.5, 1.5]),
			T::T2 => *self.rng.pick(&[f32::MAX, f32::MIN]),
		}))
	}

	pub fn f64_in(&mut self, lo: f64, hi: f64, edges: &[f64], extreme: &[f64]) -> Val<f64> {
		if let Some(v) = self.link(lo, hi) {
			return v;
		}
		Val::Fixed(match self.tier() {
			T::T0 => self.rng.frange(lo, hi),
			T::T1 => *self.rng.pick(edges),
			T::T2 => *self.rng.pick(extreme),
		})
	}

	pub fn secs_val(&mut self) -> Val<Secs> {
		Val::Fixed(Secs(match self.tier() {
			T::T0 => self.rng.frange(0.0005, 0.3),
			T::T1 => *self.rng.pick(&[0.0, 1e-9, 0.01, 0.1]),
			T::T2 => *self.rng.pick(&[1e9, 1e-300]),
		}))
	}

	pub fn effect(&mut self, depth: usize) -> EffectSpec {
		let k = self.rng.below(8);
		match k {
			0 => EffectSpec::Filter {
				mode: *self.rng.pick(&[FilterModeS::LowPass, FilterModeS::BandPass, FilterModeS::HighPass, FilterModeS::Notch]),
				cutoff: self.f64_in(20.0, 20_000.0, &[0.0, 1.0, 20.0, 24_000.0, 96_000.0, 1e6, -100.0], &[1e300, -1e300, 1e-300]),
				resonance: self.f64_in(0.0, 1.0, &[0.0, 1.0, -1.0, 2.0], &[1e300, -1e300]),
				mix: self.mix(),
			},
			1 => EffectSpec::Eq {
				kind: *self.rng.pick(&[EqKindS::Bell, EqKindS::LowShelf, EqKindS::HighShelf]),
				frequency: self.f64_in(20.0, 20_000.0, &[0.0, 1.0, 24_000.0, 1e6, -100.0], &[1e300, -1e300]),
				gain: {
					let v = match self.tier() {
						T::T0 => self.rng.frange(-24.0, 24.0) as f32,
						T::T1 => *self.rng.pick(&[0.0f32, -60.0, 60.0, 24.0]),
						T::T2 => *self.rng.pick(&[200.0f32, -200.0]),
					};
					Val::Fixed(Db(v))
				},
				q: self.f64_in(0.1, 10.0, &[0.0, 0.01, 1.0, -1.0, 100.0], &[1e300, -1e300, 1e-300]),
			},
			2 => {
				let min_time = if known::is_open("C01-delay-zero-frames") { 0.001 } else { 0.0 };
				let time = match self.tier() {
					T::T0 => self.rng.frange(0.001, 0.05),
					T::T1 => *self.rng.pick(&[min_time, 1.0 / 8000.0 + 1e-6, 0.001, 0.5, 1.0 / 192_000.0 + min_time]),
					T::T2 => *self.rng.pick(&[1.0, min_time.max(1e-300)]),
				};
				let mut feedback_effects = vec![];
				if depth < 2 && self.rng.chance(0.3) {
					let n = self.rng.urange(1, 2);
					for _ in 0..n {
						feedback_effects.push(self.effect(depth + 1));
					}
				}
				EffectSpec::Delay {
					time: time.max(min_time),
					feedback: self.db(),
					mix: self.mix(),
					feedback_effects,
				}
			}
			3 => EffectSpec::Reverb {
				feedback: self.f64_in(0.0, 0.98, &[0.0, 1.0, 0.9, -1.0, 1.5], &[1e300, -1e300]),
				damping: self.f64_in(0.0, 1.0, &[0.0, 1.0, -1.0, 2.0], &[1e300, -1e300]),
				stereo_width: self.f64_in(0.0, 1.0, &[0.0, 1.0, -1.0, 2.0], &[1e300, -1e300]),
				mix: self.mix(),
			},
			4 => {
				let ratio_edges: &[f64] = if known::is_open("C01-compressor-ratio-zero") {
					&[1.0, 2.0, 100.0, 0.5]
				} else {
					&[0.0, 1.0, 2.0, 100.0, 0.5, -1.0]
				};
				EffectSpec::Compressor {
					threshold: self.f64_in(-40.0, 0.0, &[0.0, -60.0, 6.0, -100.0], &[1e300, -1e300]),
					ratio: self.f64_in(1.0, 20.0, ratio_edges, &[1e300, 1e-300]),
					attack: self.secs_val(),
					release: self.secs_val(),
					makeup: {
						let v = self.db_raw();
						Val::Fixed(Db(v))
					},
					mix: self.mix(),
				}
			}
			5 => EffectSpec::Distortion {
				kind: *self.rng.pick(&[DistKindS::HardClip, DistKindS::SoftClip]),
				drive: {
					let mut v = self.db();
					if known::is_open("C01-distortion-silent-drive") {
						if let Val::Fixed(Db(d)) = v {
							if d <= -60.0 {
								v = Val::Fixed(Db(-59.0));
							}
						} else {
							v = Val::Fixed(Db(6.0));
						}
					}
					v
				},
				mix: self.mix(),
			},
			6 => EffectSpec::Volume(self.db()),
			_ => EffectSpec::Panning(self.pan()),
		}
	}

	pub fn effects(&mut self, max: usize) -> Vec<EffectSpec> {
		let n = if self.rng.chance(0.4) { 0 } else { self.rng.urange(1, max) };
		(0..n).map(|_| self.effect(0)).collect()
	}

	pub fn effect_cmd(&mut self) -> EffectCmd {
		let param = if self.rng.chance(0.1) { 255 } else { self.rng.below(6) as u8 };
		let value = match self.tier() {
			T::T0 => self.rng.frange(-1.0, 1.0) * *self.rng.pick(&[1.0, 10.0, 100.0, 1000.0]),
			T::T1 => *self.rng.pick(&[0.0, 1.0, -1.0, 0.5, 2.0, 20_000.0, 1e-3]),
			T::T2 => *self.rng.pick(&[1e30, -1e30, 1e-300]),
		};
		EffectCmd {
			param,
			// -60 dB drive and ratio 0 are reachable through commands too; the
			// unit of `value` depends on the parameter it lands on, so known
			// classes are filtered when the command is executed (see c01.rs)
			value: Val::Fixed(value),
			tween: self.tween(),
		}
	}

	pub fn signal(&mut self) -> Signal {
		match self.rng.below(4) {
			0 => Signal::Dc(*self.rng.pick(&[1.0f32, 0.5, -0.25, 0.0])),
			1 => Signal::Index { scale: 4096.0 },
			2 => Signal::Noise {
				seed: self.rng.next_u64(),
				amp: *self.rng.pick(&[1.0f32, 0.5, 0.1]),
			},
			_ => Signal::Sine {
				cpf: self.rng.frange(0.001, 0.4) as f32,
				amp: 0.8,
			},
		}
	}

	pub fn data(&mut self, max_len: usize) -> DataSpec {
		let len = match self.tier() {
			T::T0 => self.rng.urange(3, max_len.max(4)),
			T::T1 => *self.rng.pick(&[0usize, 1, 2, 3, 4, 5]),
			T::T2 => max_len * 4,
		};
		DataSpec {
			len,
			sample_rate: *self.rng.pick(&[8000u32, 11_025, 22_050, 44_100, 48_000, 96_000, 8001, 1000]),
			signal: self.signal(),
		}
	}

	pub fn pos(&mut self, len: usize, sample_rate: u32) -> Pos {
		let n = match self.tier() {
			T::T0 => self.rng.usize_below(len.max(1)),
			T::T1 => *self.rng.pick(&[0usize, 1, len.saturating_sub(1), len, len + 1]),
			T::T2 => len * 10 + 7,
		};
		if self.rng.chance(0.5) {
			Pos::Samples(n)
		} else {
			Pos::Secs(n as f64 / sample_rate as f64)
		}
	}

	/// Loop regions; empty / inverted ones only while those classes are not
	/// listed as open findings.
	pub fn region(&mut self, len: usize, sample_rate: u32) -> RegionSpec {
		let degenerate_ok = !known::is_open("C01-empty-loop-hang");
		let a = self.pos(len, sample_rate);
		let mut b = if self.rng.chance(0.3) { None } else { Some(self.pos(len, sample_rate)) };
		let sa = a.samples(sample_rate);
		let mut a = a;
		if let Some(bp) = b {
			let sb = bp.samples(sample_rate);
			if sb <= sa {
				if degenerate_ok && self.rng.chance(0.5) {
					// keep the empty / inverted region
				} else {
					a = Pos::Samples(sb.saturating_sub(1).min(sa));
					b = Some(Pos::Samples(sa.max(sb) + 1));
				}
			}
		} else if sa >= len && !degenerate_ok {
			a = Pos::Samples(len.saturating_sub(1));
			if len == 0 {
				b = Some(Pos::Samples(1));
			}
		}
		RegionSpec { start: a, end: b }
	}

	pub fn sound_settings(&mut self, len: usize, sample_rate: u32, streaming: bool) -> SoundSettingsSpec {
		let mut start_position = if self.rng.chance(0.6) { Pos::Samples(0) } else { self.pos(len, sample_rate) };
		let reverse = !streaming && self.rng.chance(0.2);
		if reverse {
			// `num_frames - 1 - start` is computed on the caller's thread; keep it in range
			let s = start_position.samples(sample_rate);
			if len == 0 || s >= len {
				start_position = Pos::Samples(0);
			}
		}
		SoundSettingsSpec {
			start: self.start(),
			start_position,
			loop_region: if self.rng.chance(0.35) { Some(self.region(len, sample_rate)) } else { None },
			reverse,
			volume: self.db(),
			rate: self.rate(!streaming),
			panning: self.pan(),
			fade_in: if self.rng.chance(0.25) { Some(self.tween()) } else { None },
		}
	}

	pub fn sound_cmd(&mut self, len_hint: usize, sample_rate_hint: u32) -> SoundCmd {
		match self.rng.below(12) {
			0 => SoundCmd::Pause(self.tween()),
			1 => SoundCmd::Resume(self.tween()),
			2 => SoundCmd::ResumeAt(self.start(), self.tween()),
			3 => SoundCmd::Stop(self.tween()),
			4 => {
				let p = match self.tier() {
					T::T0 => self.rng.frange(0.0, len_hint as f64 / sample_rate_hint as f64),
					T::T1 => *self.rng.pick(&[0.0, -1.0, 1e-9, 1.0]),
					T::T2 => *self.rng.pick(&[1e15, -1e15, 1e300]),
				};
				SoundCmd::SeekTo(p)
			}
			5 => {
				let p = match self.tier() {
					T::T0 => self.rng.frange(-0.01, 0.01),
					T::T1 => *self.rng.pick(&[0.0, -1.0, 1.0, 1e-9]),
					T::T2 => *self.rng.pick(&[1e15, -1e15]),
				};
				SoundCmd::SeekBy(p)
			}
			6 | 7 => SoundCmd::SetVolume(self.db(), self.tween()),
			8 | 9 => SoundCmd::SetRate(self.rate(true), self.tween()),
			10 => SoundCmd::SetPanning(self.pan(), self.tween()),
			_ => SoundCmd::SetLoop(if self.rng.chance(0.3) { None } else { Some(self.region(len_hint, sample_rate_hint)) }),
		}
	}

	pub fn v3(&mut self) -> V3 {
		let mut c = || -> f32 {
			match self.tier() {
				T::T0 => self.rng.frange(-20.0, 20.0) as f32,
				T::T1 => *self.rng.pick(&[0.0f32, 1.0, -1.0, 0.1, 100.0]),
				T::T2 => *self.rng.pick(&[1e30f32, -1e30, f32::MAX, 1e-38]),
			}
		};
		V3([c(), c(), c()])
	}

	pub fn q4(&mut self) -> Q4 {
		match self.tier() {
			T::T0 => {
				// random unit quaternion
				let (a, b, c, d) = (
					self.rng.frange(-1.0, 1.0),
					self.rng.frange(-1.0, 1.0),
					self.rng.frange(-1.0, 1.0),
					self.rng.frange(-1.0, 1.0),
				);
				let n = (a * a + b * b + c * c + d * d).sqrt().max(1e-6);
				Q4([(a / n) as f32, (b / n) as f32, (c / n) as f32, (d / n) as f32])
			}
			T::T1 => *self.rng.pick(&[
				Q4([0.0, 0.0, 0.0, 1.0]),
				Q4([0.0, 1.0, 0.0, 0.0]),
				Q4([0.0, 0.0, 0.0, 0.0]),
				Q4([0.0, 0.707_106_77, 0.0, 0.707_106_77]),
				Q4([1.0, 1.0, 1.0, 1.0]),
			]),
			T::T2 => *self.rng.pick(&[Q4([1e30, 0.0, 0.0, 1e30]), Q4([f32::MAX, f32::MAX, f32::MAX, f32::MAX])]),
		}
	}

	pub fn speed(&mut self) -> Val<Speed> {
		let v = match self.tier() {
			T::T0 => self.rng.frange(1.0, 2000.0),
			T::T1 => *self.rng.pick(&[0.0, 1.0, 60.0, 120.0, 48_000.0, 1e-9]),
			T::T2 => *self.rng.pick(&[1e6, 1e-300]),
		};
		Val::Fixed(match self.rng.below(3) {
			0 => Speed::TicksPerSecond(v),
			1 => Speed::TicksPerMinute(v * 60.0),
			_ => Speed::SecondsPerTick(if v == 0.0 { 1.0 } else { 1.0 / v }),
		})
	}

	pub fn track_spec(&mut self, n_sends: usize) -> TrackSpec {
		let mut sends = vec![];
		if n_sends > 0 && self.rng.chance(0.5) {
			let k = self.rng.urange(1, n_sends.min(3));
			for _ in 0..k {
				sends.push((self.rng.usize_below(8), self.db()));
			}
		}
		TrackSpec {
			volume: self.db(),
			effects: self.effects(3),
			sound_capacity: *self.rng.pick(&[1usize, 2, 4, 8]),
			sub_track_capacity: *self.rng.pick(&[1usize, 2, 4]),
			sends,
			persist: self.rng.chance(0.3),
		}
	}

	pub fn spatial_spec(&mut self) -> SpatialSpec {
		let degenerate_ok = !known::is_open("C01-spatial-equal-distances");
		let distances = match self.tier() {
			T::T0 => {
				let a = self.rng.frange(0.1, 10.0) as f32;
				(a, a + self.rng.frange(0.5, 100.0) as f32)
			}
			T::T1 => {
				if degenerate_ok {
					*self.rng.pick(&[(1.0f32, 100.0f32), (0.0, 1.0), (5.0, 5.0), (0.0, 0.0), (10.0, 1.0)])
				} else {
					*self.rng.pick(&[(1.0f32, 100.0f32), (0.0, 1.0), (0.0, 1e-3)])
				}
			}
			T::T2 => *self.rng.pick(&[(0.0f32, f32::MAX), (1e-30, 1e30)]),
		};
		SpatialSpec {
			listener: self.rng.usize_below(4),
			position: Val::Fixed(self.v3()),
			distances,
			attenuation: if self.rng.chance(0.2) { None } else { Some(self.easing()) },
			strength: Val::Fixed(match self.tier() {
				T::T0 => self.rng.f64() as f32,
				T::T1 => *self.rng.pick(&[0.0f32, 1.0, 0.75, -1.0, 2.0]),
				T::T2 => *self.rng.pick(&[1e30f32, -1e30]),
			}),
		}
	}
}
