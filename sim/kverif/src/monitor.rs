//! Always-on monitors: role of the executing code, heap traffic while the audio
//! role is armed, panic capture.

use std::{
	alloc::{GlobalAlloc, Layout, System},
	cell::{Cell, RefCell},
	panic::{self, AssertUnwindSafe},
};

#[derive(Clone, Copy, Debug, PartialEq, Eq, Hash, serde::Serialize, serde::Deserialize)]
pub enum Role {
	Gameplay,
	Audio,
	Decoder,
	Reader,
}

thread_local! {
	static ROLE: Cell<Role> = const { Cell::new(Role::Gameplay) };
	/// When true, every allocation / free on this thread is counted.
	static ARMED: Cell<bool> = const { Cell::new(false) };
	static ALLOCS: Cell<u64> = const { Cell::new(0) };
	static FREES: Cell<u64> = const { Cell::new(0) };
	static LAST_PANIC: RefCell<Option<String>> = const { RefCell::new(None) };
}

pub fn role() -> Role {
	ROLE.with(|r| r.get())
}

pub fn set_role(role: Role) -> Role {
	ROLE.with(|r| r.replace(role))
}

pub struct CountingAllocator;

unsafe impl GlobalAlloc for CountingAllocator {
	unsafe fn alloc(&self, layout: Layout) -> *mut u8 {
		let _ = ARMED.try_with(|a| {
			if a.get() {
				let _ = ALLOCS.try_with(|c| c.set(c.get() + 1));
			}
		});
		System.alloc(layout)
	}
	unsafe fn dealloc(&self, ptr: *mut u8, layout: Layout) {
		let _ = ARMED.try_with(|a| {
			if a.get() {
				let _ = FREES.try_with(|c| c.set(c.get() + 1));
			}
		});
		System.dealloc(ptr, layout)
	}
	unsafe fn realloc(&self, ptr: *mut u8, layout: Layout, new_size: usize) -> *mut u8 {
		let _ = ARMED.try_with(|a| {
			if a.get() {
				let _ = ALLOCS.try_with(|c| c.set(c.get() + 1));
				let _ = FREES.try_with(|c| c.set(c.get() + 1));
			}
		});
		System.realloc(ptr, layout, new_size)
	}
}

/// Arms the heap monitor on this thread; returns the previous state.
pub fn arm(on: bool) -> bool {
	ARMED.with(|a| a.replace(on))
}

/// Suspends the heap monitor for harness-side code (probes logging into
/// vectors) that runs inside the audio role.
pub struct Disarm(bool);
impl Disarm {
	pub fn new() -> Self {
		Self(arm(false))
	}
}
impl Drop for Disarm {
	fn drop(&mut self) {
		arm(self.0);
	}
}

pub fn heap_counts() -> (u64, u64) {
	(ALLOCS.with(|c| c.get()), FREES.with(|c| c.get()))
}

pub fn reset_heap_counts() {
	ALLOCS.with(|c| c.set(0));
	FREES.with(|c| c.set(0));
}

/// Marker payload used to unwind simulator-owned threads at the end of a run.
pub struct SimKilled;

pub fn install_panic_hook() {
	panic::set_hook(Box::new(|info| {
		let _d = Disarm::new();
		let payload = info.payload();
		let msg = if let Some(s) = payload.downcast_ref::<&str>() {
			(*s).to_string()
		} else if let Some(s) = payload.downcast_ref::<String>() {
			s.clone()
		} else {
			"<non-string panic>".to_string()
		};
		let loc = info
			.location()
			.map(|l| format!("{}:{}", l.file(), l.line()))
			.unwrap_or_default();
		let _ = LAST_PANIC.try_with(|p| {
			if let Ok(mut p) = p.try_borrow_mut() {
				*p = Some(format!("{msg} @ {loc}"));
			}
		});
	}));
}

/// Runs `f`, turning a panic into `Err(message @ location)`.
pub fn catch<R>(f: impl FnOnce() -> R) -> Result<R, String> {
	let _ = LAST_PANIC.try_with(|p| p.borrow_mut().take());
	match panic::catch_unwind(AssertUnwindSafe(f)) {
		Ok(r) => Ok(r),
		Err(payload) => {
			let armed = arm(false);
			let msg = if payload.is::<SimKilled>() {
				"<sim killed>".to_string()
			} else {
				LAST_PANIC
					.try_with(|p| p.borrow_mut().take())
					.ok()
					.flatten()
					.unwrap_or_else(|| "<panic>".to_string())
			};
			drop(payload);
			arm(armed);
			Err(msg)
		}
	}
}

/// Normalises a panic message into a signature that is stable under shrinking
/// (numbers removed).
pub fn panic_signature(msg: &str) -> String {
	let mut out = String::new();
	let mut last_hash = false;
	for ch in msg.chars() {
		if ch.is_ascii_digit() {
			if !last_hash {
				out.push('#');
				last_hash = true;
			}
		} else {
			out.push(ch);
			last_hash = false;
		}
	}
	// keep only the file name of the location, not the line
	if let Some(idx) = out.rfind(" @ ") {
		let (m, loc) = out.split_at(idx);
		let file = loc[3..].rsplit('/').next().unwrap_or("");
		let file = file.split(':').next().unwrap_or("");
		return format!("{} @ {}", m.trim(), file);
	}
	out
}
