//! Gate scheduler: simulator-owned tasks are real OS threads that are parked on a
//! gate and run strictly one at a time. Which one runs next is decided either by
//! the controller (directed stepping, op granularity) or by the seeded PRNG at
//! every yield point (random schedules). Same seed + same code => same execution.

use std::{
	collections::BTreeMap,
	sync::{
		atomic::{AtomicBool, AtomicU8, Ordering},
		Arc, Condvar, Mutex,
	},
	thread::JoinHandle,
	time::Duration,
};

use kira::verif::{self, SimContext};

use crate::{
	monitor::{self, Role, SimKilled},
	rng::{Hasher64, Rng},
};

pub const CONTROLLER: usize = 0;
const POLICY_DIRECTED: u8 = 0;
const POLICY_RANDOM: u8 = 1;

#[derive(Clone, Copy, Debug, PartialEq, Eq)]
enum TState {
	Ready,
	Sleeping,
	Done,
}

struct Task {
	name: String,
	role: Role,
	state: TState,
	started: bool,
	/// loop-top yields seen since the last grant (directed mode)
	iters: u64,
	loop_iters_total: u64,
	sleeps_total: u64,
	last_site: &'static str,
	parked_at_loop_top: bool,
}

#[derive(Clone, Copy, Debug, PartialEq, Eq)]
pub enum StepEnd {
	/// the task called the sleep hook ("nothing to do")
	Slept,
	/// the iteration budget was used up; parked at the top of its loop
	Limit,
	/// the task's closure returned (thread ended)
	Done,
}

struct Inner {
	tasks: Vec<Task>,
	current: usize,
	rng: Rng,
	seq: u64,
	steps: u64,
	step_cap: u64,
	capped: bool,
	trace: Hasher64,
	switch_prob: f64,
	hot_prob: f64,
	budget: u64,
	step_end: Option<StepEnd>,
	schedule: Vec<u8>,
	replay: Option<Vec<u8>>,
	replay_pos: usize,
	panics: Vec<(Role, String, String)>,
	tids: Vec<i32>,
	handles: Vec<JoinHandle<()>>,
	site_counts: BTreeMap<&'static str, u64>,
	switches: u64,
}

pub struct Sim {
	inner: Mutex<Inner>,
	cv: Condvar,
	policy: AtomicU8,
	poisoned: AtomicBool,
	zero_sleeps: std::sync::atomic::AtomicU64,
}

struct TaskCtx {
	sim: Arc<Sim>,
	id: usize,
}

impl SimContext for TaskCtx {
	fn yield_point(&self, site: &'static str) {
		self.sim.yield_from(self.id, site);
	}
	fn spawn(&self, f: Box<dyn FnOnce() + Send + 'static>) {
		self.sim.spawn_task("decoder", Role::Decoder, f);
	}
	fn sleep(&self, duration: Duration) {
		// (a wait of zero length is no wait: counted, so that a check can call it a busy spin)
		if duration.is_zero() {
			self.sim.zero_sleeps.fetch_add(1, Ordering::SeqCst);
		}
		self.sim.sleep_from(self.id);
	}
}

fn gettid() -> i32 {
	unsafe { libc::syscall(libc::SYS_gettid) as i32 }
}

fn is_hot(site: &'static str) -> bool {
	matches!(site, "stream.ring.pop" | "stream.reached_end.load" | "decoder.ring.is_full" | "stream.state.load")
}

impl Sim {
	/// Creates the simulation and installs its context on the calling thread,
	/// which becomes the controller task (id 0).
	pub fn new(seed: u64) -> Arc<Sim> {
		let sim = Arc::new(Sim {
			inner: Mutex::new(Inner {
				tasks: vec![Task {
					name: "controller".into(),
					role: Role::Gameplay,
					state: TState::Ready,
					started: true,
					iters: 0,
					loop_iters_total: 0,
					sleeps_total: 0,
					last_site: "",
					parked_at_loop_top: false,
				}],
				current: CONTROLLER,
				rng: Rng::new(seed ^ 0x5c4e_d51a_77aa_0001),
				seq: 0,
				steps: 0,
				step_cap: 200_000,
				capped: false,
				trace: Hasher64::new(),
				switch_prob: 0.3,
				hot_prob: 0.02,
				budget: 0,
				step_end: None,
				schedule: Vec::new(),
				replay: None,
				replay_pos: 0,
				panics: Vec::new(),
				tids: vec![gettid()],
				handles: Vec::new(),
				site_counts: BTreeMap::new(),
				switches: 0,
			}),
			cv: Condvar::new(),
			policy: AtomicU8::new(POLICY_DIRECTED),
			poisoned: AtomicBool::new(false),
			zero_sleeps: std::sync::atomic::AtomicU64::new(0),
		});
		verif::install(Some(Arc::new(TaskCtx {
			sim: sim.clone(),
			id: CONTROLLER,
		})));
		sim
	}

	pub fn poisoned(&self) -> bool {
		self.poisoned.load(Ordering::SeqCst)
	}

	/// A fresh, strictly increasing stamp for history events.
	pub fn stamp(&self) -> u64 {
		let mut g = self.inner.lock().unwrap();
		g.seq += 1;
		g.seq
	}

	pub fn set_random_params(&self, switch_prob: f64, hot_prob: f64, step_cap: u64) {
		let mut g = self.inner.lock().unwrap();
		g.switch_prob = switch_prob;
		g.hot_prob = hot_prob;
		g.step_cap = step_cap;
	}

	pub fn set_replay_schedule(&self, schedule: Vec<u8>) {
		let mut g = self.inner.lock().unwrap();
		g.replay = Some(schedule);
		g.replay_pos = 0;
	}

	pub fn schedule(&self) -> Vec<u8> {
		self.inner.lock().unwrap().schedule.clone()
	}

	pub fn trace_hash(&self) -> u64 {
		let g = self.inner.lock().unwrap();
		let mut h = g.trace;
		h.u64(g.steps);
		h.finish()
	}

	pub fn steps(&self) -> u64 {
		self.inner.lock().unwrap().steps
	}

	/// sleeps of zero duration asked for by simulated tasks
	pub fn zero_sleeps(&self) -> u64 {
		self.zero_sleeps.load(Ordering::SeqCst)
	}

	pub fn switches(&self) -> u64 {
		self.inner.lock().unwrap().switches
	}

	pub fn capped(&self) -> bool {
		self.inner.lock().unwrap().capped
	}

	pub fn tids(&self) -> Vec<i32> {
		self.inner.lock().unwrap().tids.clone()
	}

	pub fn site_counts(&self) -> BTreeMap<&'static str, u64> {
		self.inner.lock().unwrap().site_counts.clone()
	}

	pub fn take_panics(&self) -> Vec<(Role, String, String)> {
		std::mem::take(&mut self.inner.lock().unwrap().panics)
	}

	/// Ids of tasks with the given role that have not ended.
	pub fn live_tasks(&self, role: Role) -> Vec<usize> {
		let g = self.inner.lock().unwrap();
		g.tasks
			.iter()
			.enumerate()
			.filter(|(i, t)| *i != CONTROLLER && t.role == role && t.state != TState::Done)
			.map(|(i, _)| i)
			.collect()
	}

	pub fn num_tasks(&self, role: Role) -> usize {
		let g = self.inner.lock().unwrap();
		g.tasks
			.iter()
			.enumerate()
			.filter(|(i, t)| *i != CONTROLLER && t.role == role)
			.count()
	}

	pub fn task_done(&self, id: usize) -> bool {
		self.inner.lock().unwrap().tasks[id].state == TState::Done
	}

	/// (loop iterations, sleeps) of a task so far.
	pub fn task_progress(&self, id: usize) -> (u64, u64) {
		let g = self.inner.lock().unwrap();
		(g.tasks[id].loop_iters_total, g.tasks[id].sleeps_total)
	}

	pub fn task_ids_from(&self, first: usize) -> Vec<usize> {
		let g = self.inner.lock().unwrap();
		(first.max(1)..g.tasks.len()).collect()
	}

	pub fn task_count(&self) -> usize {
		self.inner.lock().unwrap().tasks.len()
	}

	/// Registers a task and starts its (parked) OS thread.
	pub fn spawn_task(
		self: &Arc<Self>,
		name: &str,
		role: Role,
		f: Box<dyn FnOnce() + Send + 'static>,
	) -> usize {
		let _d = monitor::Disarm::new();
		let mut g = self.inner.lock().unwrap();
		let id = g.tasks.len();
		g.tasks.push(Task {
			name: format!("{name}{id}"),
			role,
			state: TState::Ready,
			started: false,
			iters: 0,
			loop_iters_total: 0,
			sleeps_total: 0,
			last_site: "<start>",
			parked_at_loop_top: false,
		});
		let sim = self.clone();
		let handle = std::thread::Builder::new()
			.name(format!("sim-{name}{id}"))
			.stack_size(1 << 20)
			.spawn(move || {
				verif::install(Some(Arc::new(TaskCtx {
					sim: sim.clone(),
					id,
				})));
				monitor::set_role(role);
				{
					let mut g = sim.inner.lock().unwrap();
					g.tids.push(gettid());
					while g.current != id && !sim.poisoned() {
						g = sim.cv.wait(g).unwrap();
					}
					if g.current != id {
						// poisoned before it ever ran
						g.tasks[id].state = TState::Done;
						drop(g);
						drop(f);
						verif::install(None);
						return;
					}
					g.tasks[id].started = true;
				}
				let result = monitor::catch(f);
				if let Err(msg) = result {
					if msg != "<sim killed>" {
						let mut g = sim.inner.lock().unwrap();
						let name = g.tasks[id].name.clone();
						g.panics.push((role, name, msg));
					}
				}
				sim.finish(id);
				verif::install(None);
			})
			.expect("spawn sim task thread");
		g.handles.push(handle);
		id
	}

	fn finish(&self, id: usize) {
		let mut g = self.inner.lock().unwrap();
		g.tasks[id].state = TState::Done;
		if self.poisoned() {
			self.cv.notify_all();
			return;
		}
		if self.policy.load(Ordering::SeqCst) == POLICY_DIRECTED {
			g.step_end = Some(StepEnd::Done);
			g.current = CONTROLLER;
		} else {
			self.pick_next_random(&mut g, id, "<end>");
		}
		self.cv.notify_all();
	}

	fn wait_turn<'a>(
		&'a self,
		mut g: std::sync::MutexGuard<'a, Inner>,
		id: usize,
	) -> std::sync::MutexGuard<'a, Inner> {
		while g.current != id && !self.poisoned() {
			g = self.cv.wait(g).unwrap();
		}
		g
	}

	fn kill_if_poisoned_decoder(&self, role: Role, site: &'static str) {
		if self.poisoned() && role == Role::Decoder && (site == "decoder.loop" || site == "<sleep>" || site == "scripted.decode") {
			std::panic::resume_unwind(Box::new(SimKilled));
		}
	}

	pub fn yield_from(&self, id: usize, site: &'static str) {
		if self.poisoned() {
			if id != CONTROLLER {
				let role = monitor::role();
				self.kill_if_poisoned_decoder(role, site);
			}
			return;
		}
		let directed = self.policy.load(Ordering::Relaxed) == POLICY_DIRECTED;
		if directed && (id == CONTROLLER || site != "decoder.loop") {
			return;
		}
		let _d = monitor::Disarm::new();
		let mut g = self.inner.lock().unwrap();
		if g.current != id {
			// a task running while it is not its turn can only happen after poisoning
			return;
		}
		g.steps += 1;
		g.tasks[id].last_site = site;
		if site == "decoder.loop" {
			g.tasks[id].loop_iters_total += 1;
		}
		if directed {
			g.tasks[id].iters += 1;
			if g.tasks[id].iters > g.budget {
				g.tasks[id].parked_at_loop_top = true;
				g.step_end = Some(StepEnd::Limit);
				g.current = CONTROLLER;
				self.cv.notify_all();
				g = self.wait_turn(g, id);
				g.tasks[id].parked_at_loop_top = false;
				let role = g.tasks[id].role;
				drop(g);
				self.kill_if_poisoned_decoder(role, site);
			}
			return;
		}
		// random policy
		*g.site_counts.entry(site).or_insert(0) += 1;
		g.trace.u64(id as u64);
		g.trace.str(site);
		if g.steps > g.step_cap && !g.capped {
			g.capped = true;
		}
		self.pick_next_random(&mut g, id, site);
		if g.current != id {
			self.cv.notify_all();
			g = self.wait_turn(g, id);
		}
		let role = g.tasks[id].role;
		drop(g);
		self.kill_if_poisoned_decoder(role, site);
	}

	/// Chooses the task that runs next (random policy). `from` is the task that
	/// is yielding, sleeping or ending.
	fn pick_next_random(&self, g: &mut Inner, from: usize, site: &'static str) {
		// wake sleepers (a sleep lasts until some other task has made a step)
		for (i, t) in g.tasks.iter_mut().enumerate() {
			if i != from && t.state == TState::Sleeping {
				t.state = TState::Ready;
			}
		}
		let non_decoder_left = g
			.tasks
			.iter()
			.enumerate()
			.any(|(i, t)| i != CONTROLLER && t.role != Role::Decoder && t.state != TState::Done);
		if !non_decoder_left {
			// only decoder tasks remain: hand back to the controller, which
			// continues with directed stepping. Sleepers become ready again.
			for t in g.tasks.iter_mut() {
				if t.state == TState::Sleeping {
					t.state = TState::Ready;
				}
			}
			self.policy.store(POLICY_DIRECTED, Ordering::SeqCst);
			g.current = CONTROLLER;
			return;
		}
		let mut ready: Vec<usize> = g
			.tasks
			.iter()
			.enumerate()
			.filter(|(i, t)| *i != CONTROLLER && t.state == TState::Ready)
			.map(|(i, _)| i)
			.collect();
		if ready.is_empty() {
			// everyone else is asleep: time passes, they wake up
			for (i, t) in g.tasks.iter_mut().enumerate() {
				if t.state == TState::Sleeping {
					t.state = TState::Ready;
					ready.push(i);
				}
			}
			ready.sort_unstable();
		}
		debug_assert!(!ready.is_empty());
		let from_ready = ready.contains(&from);
		let next = if g.capped {
			// drain deterministically without further preemption: keep running
			// the same task; otherwise the lowest non-decoder task
			if from_ready {
				from
			} else {
				*ready
					.iter()
					.find(|i| g.tasks[**i].role != Role::Decoder)
					.unwrap_or(&ready[0])
			}
		} else if let Some(replay) = &g.replay {
			let want = replay.get(g.replay_pos).copied();
			g.replay_pos += 1;
			match want {
				Some(w) if ready.contains(&(w as usize)) => w as usize,
				_ => {
					if from_ready {
						from
					} else {
						ready[0]
					}
				}
			}
		} else {
			let p = if is_hot(site) { g.hot_prob } else { g.switch_prob };
			if from_ready && !g.rng.chance(p) {
				from
			} else {
				ready[g.rng.usize_below(ready.len())]
			}
		};
		g.schedule.push(next as u8);
		if next != from {
			g.switches += 1;
		}
		g.current = next;
	}

	pub fn sleep_from(&self, id: usize) {
		if self.poisoned() {
			let role = monitor::role();
			self.kill_if_poisoned_decoder(role, "<sleep>");
			std::thread::sleep(Duration::from_millis(1));
			return;
		}
		let _d = monitor::Disarm::new();
		let mut g = self.inner.lock().unwrap();
		if g.current != id {
			return;
		}
		g.steps += 1;
		g.tasks[id].sleeps_total += 1;
		g.tasks[id].last_site = "<sleep>";
		if self.policy.load(Ordering::SeqCst) == POLICY_DIRECTED {
			if id == CONTROLLER {
				return;
			}
			g.step_end = Some(StepEnd::Slept);
			g.current = CONTROLLER;
		} else {
			g.trace.u64(id as u64);
			g.trace.str("<sleep>");
			g.tasks[id].state = TState::Sleeping;
			self.pick_next_random(&mut g, id, "<sleep>");
			if g.tasks[id].state == TState::Sleeping && g.current == id {
				g.tasks[id].state = TState::Ready;
			}
		}
		if g.current != id {
			self.cv.notify_all();
			g = self.wait_turn(g, id);
			if g.tasks[id].state == TState::Sleeping {
				g.tasks[id].state = TState::Ready;
			}
		}
		let role = g.tasks[id].role;
		drop(g);
		self.kill_if_poisoned_decoder(role, "<sleep>");
	}

	/// Directed stepping (controller only): lets `task` run until it has begun
	/// `max_iters` loop iterations and reaches the next loop top, sleeps, or ends.
	pub fn step(&self, task: usize, max_iters: u64) -> StepEnd {
		let mut g = self.inner.lock().unwrap();
		assert_eq!(g.current, CONTROLLER);
		assert_eq!(self.policy.load(Ordering::SeqCst), POLICY_DIRECTED);
		if g.tasks[task].state == TState::Done {
			return StepEnd::Done;
		}
		g.budget = max_iters;
		// a task parked at its loop top is about to run that iteration
		g.tasks[task].iters = if g.tasks[task].parked_at_loop_top { 1 } else { 0 };
		g.step_end = None;
		g.current = task;
		self.cv.notify_all();
		while g.current != CONTROLLER {
			g = self.cv.wait(g).unwrap();
		}
		g.step_end.take().unwrap_or(StepEnd::Done)
	}

	/// Random-schedule phase (controller only): runs all spawned tasks under the
	/// PRNG until every non-decoder task has ended; decoder tasks stay parked.
	pub fn run_random(&self) {
		let mut g = self.inner.lock().unwrap();
		assert_eq!(g.current, CONTROLLER);
		self.policy.store(POLICY_RANDOM, Ordering::SeqCst);
		self.pick_next_random(&mut g, CONTROLLER, "<start>");
		self.cv.notify_all();
		while g.current != CONTROLLER {
			g = self.cv.wait(g).unwrap();
		}
		self.policy.store(POLICY_DIRECTED, Ordering::SeqCst);
	}

	/// Ends the simulation: releases every parked task (decoder tasks unwind at
	/// their next loop top or sleep) and joins all threads.
	pub fn shutdown(&self) {
		let handles = {
			let mut g = self.inner.lock().unwrap();
			self.poisoned.store(true, Ordering::SeqCst);
			self.cv.notify_all();
			std::mem::take(&mut g.handles)
		};
		for h in handles {
			let _ = h.join();
		}
		verif::install(None);
	}
}
