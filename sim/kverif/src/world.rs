//! A world = one `AudioManager<SimBackend>` + every handle the gameplay side
//! holds + (optionally) the gate scheduler that owns decoder threads. Ops are
//! data; executing one goes through kira's public API only.

use std::sync::Arc;

use kira::{
	clock::{ClockHandle, ClockId, ClockTime},
	listener::{ListenerHandle, ListenerId},
	modulator::{
		lfo::{LfoBuilder, LfoHandle},
		tweener::{TweenerBuilder, TweenerHandle},
		ModulatorId,
	},
	sound::{
		static_sound::{StaticSoundData, StaticSoundHandle, StaticSoundSettings},
		streaming::{StreamingSoundData, StreamingSoundHandle, StreamingSoundSettings},
		PlaybackState,
	},
	track::{
		MainTrackBuilder, SendTrackBuilder, SendTrackHandle, SendTrackId, SpatialTrackBuilder,
		SpatialTrackDistances, SpatialTrackHandle, TrackBuilder, TrackHandle, TrackPlaybackState,
	},
	AudioManager, AudioManagerSettings, Capacities, PlaySoundError, Tween,
};
use serde::{Deserialize, Serialize};

use crate::{
	backend::{CallbackReport, Device, SimBackend, SimBackendSettings},
	decoder::{DecoderProbe, DecoderSpec, ScriptErr, ScriptedDecoder},
	monitor,
	sched::Sim,
	spec::*,
};

#[derive(Clone, Copy, Debug, Serialize, Deserialize, PartialEq)]
pub struct CapsSpec {
	pub sub_tracks: usize,
	pub send_tracks: usize,
	pub clocks: usize,
	pub modulators: usize,
	pub listeners: usize,
}

impl Default for CapsSpec {
	fn default() -> Self {
		Self {
			sub_tracks: 16,
			send_tracks: 4,
			clocks: 4,
			modulators: 6,
			listeners: 3,
		}
	}
}

#[derive(Clone, Debug, Serialize, Deserialize, PartialEq)]
pub struct WorldConfig {
	pub sample_rate: u32,
	pub internal_buffer_size: usize,
	pub caps: CapsSpec,
	pub main_volume: Val<Db>,
	pub main_effects: Vec<EffectSpec>,
	pub main_sound_capacity: usize,
}

impl Default for WorldConfig {
	fn default() -> Self {
		Self {
			sample_rate: 48_000,
			internal_buffer_size: 128,
			caps: CapsSpec::default(),
			main_volume: Val::Fixed(Db(0.0)),
			main_effects: vec![],
			main_sound_capacity: 16,
		}
	}
}

#[derive(Clone, Debug, Serialize, Deserialize, PartialEq)]
pub struct TrackSpec {
	pub volume: Val<Db>,
	pub effects: Vec<EffectSpec>,
	pub sound_capacity: usize,
	pub sub_track_capacity: usize,
	/// (index into the world's send list, route volume)
	pub sends: Vec<(usize, Val<Db>)>,
	pub persist: bool,
}

impl Default for TrackSpec {
	fn default() -> Self {
		Self {
			volume: Val::Fixed(Db(0.0)),
			effects: vec![],
			sound_capacity: 8,
			sub_track_capacity: 4,
			sends: vec![],
			persist: false,
		}
	}
}

#[derive(Clone, Debug, Serialize, Deserialize, PartialEq)]
pub struct SpatialSpec {
	pub listener: usize,
	pub position: Val<V3>,
	pub distances: (f32, f32),
	pub attenuation: Option<EasingSpec>,
	pub strength: Val<f32>,
}

#[derive(Clone, Debug, Serialize, Deserialize, PartialEq)]
pub enum TrackCmd {
	SetVolume(Val<Db>, TweenSpec),
	Pause(TweenSpec),
	Resume(TweenSpec),
	ResumeAt(StartSpec, TweenSpec),
	SetSend(usize, Val<Db>, TweenSpec),
	SetPosition(Val<V3>, TweenSpec),
	SetStrength(Val<f32>, TweenSpec),
}

#[derive(Clone, Debug, Serialize, Deserialize, PartialEq)]
pub enum ClockCmd {
	Start,
	Pause,
	Stop,
	SetSpeed(Val<Speed>, TweenSpec),
}

#[derive(Clone, Debug, Serialize, Deserialize, PartialEq)]
pub enum ModCmd {
	TweenerSet(f64, TweenSpec),
	LfoWaveform(WaveS),
	LfoFrequency(Val<f64>, TweenSpec),
	LfoAmplitude(Val<f64>, TweenSpec),
	LfoOffset(Val<f64>, TweenSpec),
	LfoPhase(f64),
}

#[derive(Clone, Copy, Debug, Serialize, Deserialize, PartialEq, Eq, Hash)]
pub enum Kind {
	Track,
	Send,
	Clock,
	Modulator,
	Listener,
	Sound,
}

#[derive(Clone, Debug, Serialize, Deserialize, PartialEq)]
pub enum Op {
	/// `parent`: None = manager, Some(i) = i-th track (modulo live tracks)
	AddTrack { parent: Option<usize>, spec: TrackSpec, spatial: Option<SpatialSpec> },
	AddSend { volume: Val<Db>, effects: Vec<EffectSpec> },
	AddClock { speed: Val<Speed> },
	AddTweener { initial: f64 },
	AddLfo { wave: WaveS, frequency: Val<f64>, amplitude: Val<f64>, offset: Val<f64>, phase: f64 },
	AddListener { position: Val<V3>, orientation: Val<Q4> },
	/// `track`: None = main track
	PlayStatic { track: Option<usize>, data: DataSpec, slice: Option<(usize, usize)>, settings: SoundSettingsSpec },
	PlayStreaming { track: Option<usize>, decoder: DecoderSpec, slice: Option<(usize, usize)>, settings: SoundSettingsSpec },
	Sound { sound: usize, cmd: SoundCmd },
	Track { track: usize, cmd: TrackCmd },
	MainVolume(Val<Db>, TweenSpec),
	SendVolume { send: usize, volume: Val<Db>, tween: TweenSpec },
	Clock { clock: usize, cmd: ClockCmd },
	Mod { modulator: usize, cmd: ModCmd },
	ListenerPos { listener: usize, position: Val<V3>, tween: TweenSpec },
	ListenerRot { listener: usize, orientation: Val<Q4>, tween: TweenSpec },
	Effect { effect: usize, cmd: EffectCmd },
	Drop { kind: Kind, index: usize },
	/// one device callback
	Callback { frames: usize, channels: u16 },
	ChangeRate { hz: u32 },
	/// let every live decoder task run until its ring is full, it sleeps or ends
	/// (`max_iters` loop iterations at most)
	Decoders { max_iters: u64 },
	/// query every handle's observable state (exercises the read paths)
	Query,
}

pub enum TrackH {
	Plain(TrackHandle),
	Spatial(SpatialTrackHandle),
}

pub enum SoundH {
	Static(StaticSoundHandle),
	Streaming(StreamingSoundHandle<ScriptErr>, Arc<DecoderProbe>),
}

impl SoundH {
	pub fn state(&self) -> PlaybackState {
		match self {
			SoundH::Static(h) => h.state(),
			SoundH::Streaming(h, _) => h.state(),
		}
	}
	pub fn position(&self) -> f64 {
		match self {
			SoundH::Static(h) => h.position(),
			SoundH::Streaming(h, _) => h.position(),
		}
	}
}

pub enum ModH {
	Tweener(TweenerHandle),
	Lfo(LfoHandle),
}

pub struct Entry<H, I> {
	pub handle: Option<H>,
	pub id: I,
}

#[derive(Debug, Clone, Default)]
pub struct OpOutcome {
	/// panic raised on the gameplay side of the op (caught)
	pub gameplay_panic: Option<String>,
	pub callback: Option<CallbackReport>,
	/// resource creation reported "limit reached"
	pub limit: bool,
	pub created: bool,
	pub skipped: bool,
}

pub struct World {
	pub manager: AudioManager<SimBackend>,
	pub device: Device,
	pub sim: Option<Arc<Sim>>,
	pub cfg: WorldConfig,
	pub sample_rate: u32,
	pub tracks: Vec<Entry<TrackH, ()>>,
	pub sends: Vec<Entry<SendTrackHandle, SendTrackId>>,
	pub clocks: Vec<Entry<ClockHandle, ClockId>>,
	pub mods: Vec<Entry<ModH, ModulatorId>>,
	pub listeners: Vec<Entry<ListenerHandle, ListenerId>>,
	pub sounds: Vec<Entry<SoundH, ()>>,
	pub effects: Vec<EffectH>,
	pub out: Vec<f32>,
	pub frames_rendered: u64,
	pub callbacks: u64,
	pub sim_seconds: f64,
	/// decoder probes of streaming sounds whose `play` was rejected or failed
	pub orphan_probes: Vec<Arc<DecoderProbe>>,
	pub avoid: Avoid,
}

struct R<'a> {
	clocks: &'a [Entry<ClockHandle, ClockId>],
	mods: &'a [Entry<ModH, ModulatorId>],
}

impl Resolver for R<'_> {
	fn clock_time(&self, clock: usize, ticks: u64, fraction: f64) -> Option<ClockTime> {
		if self.clocks.is_empty() {
			return None;
		}
		let e = &self.clocks[clock % self.clocks.len()];
		Some(ClockTime {
			clock: e.id,
			ticks,
			fraction,
		})
	}
	fn modulator_id(&self, index: usize) -> Option<ModulatorId> {
		if self.mods.is_empty() {
			return None;
		}
		Some(self.mods[index % self.mods.len()].id)
	}
}

pub struct NoResolver;
impl Resolver for NoResolver {
	fn clock_time(&self, _: usize, _: u64, _: f64) -> Option<ClockTime> {
		None
	}
	fn modulator_id(&self, _: usize) -> Option<ModulatorId> {
		None
	}
}

pub fn static_data(data: &DataSpec, slice: Option<(usize, usize)>, settings: &SoundSettingsSpec, r: &dyn Resolver) -> StaticSoundData {
	apply_slice(static_data_unsliced(data, settings, r), slice)
}

/// The slice is made the way a caller makes it, through `slice()`; one that runs to the end of the
/// audio is written with an open end, and on top of an earlier, shorter slice (slicing always refers
/// to the whole audio).
pub fn apply_slice(whole: StaticSoundData, slice: Option<(usize, usize)>) -> StaticSoundData {
	use kira::sound::{EndPosition, PlaybackPosition, Region};
	let n = whole.frames.len();
	match slice {
		None => whole,
		Some((a, b)) if b == n && a <= n => whole
			.slice(Region {
				start: PlaybackPosition::Samples(0),
				end: EndPosition::Custom(PlaybackPosition::Samples((a + 1).min(n))),
			})
			.slice(Region {
				start: PlaybackPosition::Samples(a),
				end: EndPosition::EndOfAudio,
			}),
		Some((a, b)) => whole.slice(Region {
			start: PlaybackPosition::Samples(a),
			end: EndPosition::Custom(PlaybackPosition::Samples(b)),
		}),
	}
}

fn static_data_unsliced(data: &DataSpec, settings: &SoundSettingsSpec, r: &dyn Resolver) -> StaticSoundData {
	StaticSoundData {
		sample_rate: data.sample_rate,
		frames: data.frames().into(),
		settings: StaticSoundSettings {
			start_time: settings.start.k(r),
			start_position: settings.start_position.k(),
			// (set below, through the builder method, as a caller would)
			loop_region: None,
			reverse: settings.reverse,
			volume: settings.volume.k(r),
			playback_rate: settings.rate.k(r),
			panning: settings.panning.k(r),
			fade_in_tween: settings.fade_in.map(|t| t.k(r)),
		},
		slice: None,
	}
	.loop_region(settings.loop_region.map(|l| l.k()))
}

pub fn streaming_data(
	decoder: &DecoderSpec,
	slice: Option<(usize, usize)>,
	settings: &SoundSettingsSpec,
	r: &dyn Resolver,
) -> (StreamingSoundData<ScriptErr>, Arc<DecoderProbe>) {
	let (dec, probe) = ScriptedDecoder::new(decoder.clone());
	let mut data = StreamingSoundData::from_decoder(dec).with_settings(StreamingSoundSettings {
		start_time: settings.start.k(r),
		start_position: settings.start_position.k(),
		loop_region: settings.loop_region.map(|l| l.k()),
		volume: settings.volume.k(r),
		playback_rate: settings.rate.k(r),
		panning: settings.panning.k(r),
		fade_in_tween: settings.fade_in.map(|t| t.k(r)),
	});
	// slices are made through the public `slice()`, one that reaches the end as an open-ended
	// re-slice of a shorter one (positions stay absolute), like `apply_slice` for static sounds
	{
		use kira::sound::{EndPosition, PlaybackPosition, Region};
		let n = decoder.data.len;
		data = match slice {
			None => data,
			Some((a, b)) if b == n && a <= n => data
				.slice(Region {
					start: PlaybackPosition::Samples(0),
					end: EndPosition::Custom(PlaybackPosition::Samples((a + 1).min(n))),
				})
				.slice(Region {
					start: PlaybackPosition::Samples(a),
					end: EndPosition::EndOfAudio,
				}),
			Some((a, b)) => data.slice(Region {
				start: PlaybackPosition::Samples(a),
				end: EndPosition::Custom(PlaybackPosition::Samples(b)),
			}),
		};
	}
	(data, probe)
}

impl World {
	pub fn new(cfg: &WorldConfig, sim: Option<Arc<Sim>>) -> Result<World, String> {
		let cfg2 = cfg.clone();
		let mut effects = Vec::new();
		let manager = monitor::catch(|| {
			let mut main = MainTrackBuilder::new()
				.volume(cfg2.main_volume.k(&NoResolver))
				.sound_capacity(cfg2.main_sound_capacity);
			for e in &cfg2.main_effects {
				add_effect(&mut main, e, &NoResolver, &mut effects);
			}
			AudioManager::<SimBackend>::new(AudioManagerSettings {
				capacities: Capacities {
					sub_track_capacity: cfg2.caps.sub_tracks,
					send_track_capacity: cfg2.caps.send_tracks,
					clock_capacity: cfg2.caps.clocks,
					modulator_capacity: cfg2.caps.modulators,
					listener_capacity: cfg2.caps.listeners,
				},
				main_track_builder: main,
				internal_buffer_size: cfg2.internal_buffer_size,
				backend_settings: SimBackendSettings {
					sample_rate: cfg2.sample_rate,
				},
			})
			.expect("SimBackend cannot fail")
		})?;
		let mut manager = manager;
		let device = manager.backend_mut().device.clone();
		Ok(World {
			manager,
			device,
			sim,
			cfg: cfg.clone(),
			sample_rate: cfg.sample_rate,
			tracks: vec![],
			sends: vec![],
			clocks: vec![],
			mods: vec![],
			listeners: vec![],
			sounds: vec![],
			effects,
			out: Vec::new(),
			frames_rendered: 0,
			callbacks: 0,
			sim_seconds: 0.0,
			orphan_probes: vec![],
			avoid: Avoid::default(),
		})
	}

	fn live_track(&self, index: usize) -> Option<usize> {
		let live: Vec<usize> = self
			.tracks
			.iter()
			.enumerate()
			.filter(|(_, e)| e.handle.is_some())
			.map(|(i, _)| i)
			.collect();
		if live.is_empty() {
			None
		} else {
			Some(live[index % live.len()])
		}
	}

	/// Runs every live decoder task until it sleeps (ring full), ends, or has
	/// done `max_iters` loop iterations.
	pub fn pump_decoders(&mut self, max_iters: u64) {
		if let Some(sim) = &self.sim {
			for id in sim.live_tasks(monitor::Role::Decoder) {
				let _ = sim.step(id, max_iters);
			}
		}
	}

	pub fn callback(&mut self, frames: usize, channels: u16) -> CallbackReport {
		let mut out = std::mem::take(&mut self.out);
		let rep = self.device.callback(frames, channels, &mut out);
		self.out = out;
		self.frames_rendered += frames as u64;
		self.callbacks += 1;
		self.sim_seconds += frames as f64 / self.sample_rate as f64;
		rep
	}

	pub fn exec(&mut self, op: &Op) -> OpOutcome {
		let mut o = OpOutcome::default();
		match op {
			Op::Callback { frames, channels } => {
				o.callback = Some(self.callback(*frames, (*channels).max(1)));
				return o;
			}
			Op::ChangeRate { hz } => {
				let hz = (*hz).max(1);
				if let Some(p) = self.device.change_sample_rate(hz) {
					o.callback = Some(CallbackReport {
						panic: Some(p),
						allocs: 0,
						frees: 0,
					});
				}
				self.sample_rate = hz;
				return o;
			}
			Op::Decoders { max_iters } => {
				self.pump_decoders(*max_iters);
				return o;
			}
			_ => {}
		}
		let result = {
			let this = &mut *self;
			monitor::catch(move || this.exec_gameplay(op))
		};
		match result {
			Ok(inner) => inner,
			Err(msg) => {
				o.gameplay_panic = Some(msg);
				o
			}
		}
	}

	fn exec_gameplay(&mut self, op: &Op) -> OpOutcome {
		let mut o = OpOutcome::default();
		match op {
			Op::AddTrack { parent, spec, spatial } => {
				let r = R {
					clocks: &self.clocks,
					mods: &self.mods,
				};
				let mut new_effects = Vec::new();
				let sends: Vec<(SendTrackId, kira::Value<kira::Decibels>)> = spec
					.sends
					.iter()
					.filter(|_| !self.sends.is_empty())
					.map(|(i, v)| (self.sends[*i % self.sends.len()].id, v.k(&r)))
					.collect();
				let parent_idx = parent.and_then(|p| self.live_track(p));
				let handle: Result<TrackH, kira::ResourceLimitReached> = if let Some(sp) = spatial {
					if self.listeners.is_empty() {
						o.skipped = true;
						return o;
					}
					let listener = self.listeners[sp.listener % self.listeners.len()].id;
					let mut b = SpatialTrackBuilder::new()
						.volume(spec.volume.k(&r))
						.sound_capacity(spec.sound_capacity)
						.sub_track_capacity(spec.sub_track_capacity)
						.persist_until_sounds_finish(spec.persist)
						.distances(SpatialTrackDistances {
							min_distance: sp.distances.0,
							max_distance: sp.distances.1,
						})
						.attenuation_function(sp.attenuation.map(|e| e.k()))
						.spatialization_strength(sp.strength.k(&r));
					for (id, v) in sends {
						b = b.with_send(id, v);
					}
					for e in &spec.effects {
						add_effect(&mut b, e, &r, &mut new_effects);
					}
					let pos = sp.position.k(&r);
					match parent_idx {
						None => self.manager.add_spatial_sub_track(listener, pos, b),
						Some(p) => match self.tracks[p].handle.as_mut().unwrap() {
							TrackH::Plain(h) => h.add_spatial_sub_track(listener, pos, b),
							TrackH::Spatial(h) => h.add_spatial_sub_track(listener, pos, b),
						},
					}
					.map(TrackH::Spatial)
				} else {
					let mut b = TrackBuilder::new()
						.volume(spec.volume.k(&r))
						.sound_capacity(spec.sound_capacity)
						.sub_track_capacity(spec.sub_track_capacity)
						.persist_until_sounds_finish(spec.persist);
					for (id, v) in sends {
						b = b.with_send(id, v);
					}
					for e in &spec.effects {
						add_effect(&mut b, e, &r, &mut new_effects);
					}
					match parent_idx {
						None => self.manager.add_sub_track(b),
						Some(p) => match self.tracks[p].handle.as_mut().unwrap() {
							TrackH::Plain(h) => h.add_sub_track(b),
							TrackH::Spatial(h) => h.add_sub_track(b),
						},
					}
					.map(TrackH::Plain)
				};
				match handle {
					Ok(h) => {
						self.tracks.push(Entry {
							handle: Some(h),
							id: (),
						});
						self.effects.extend(new_effects);
						o.created = true;
					}
					Err(_) => o.limit = true,
				}
			}
			Op::AddSend { volume, effects } => {
				let r = R {
					clocks: &self.clocks,
					mods: &self.mods,
				};
				let mut new_effects = Vec::new();
				let mut b = SendTrackBuilder::new().volume(volume.k(&r));
				for e in effects {
					add_effect(&mut b, e, &r, &mut new_effects);
				}
				match self.manager.add_send_track(b) {
					Ok(h) => {
						let id = h.id();
						self.sends.push(Entry { handle: Some(h), id });
						self.effects.extend(new_effects);
						o.created = true;
					}
					Err(_) => o.limit = true,
				}
			}
			Op::AddClock { speed } => {
				let r = R {
					clocks: &self.clocks,
					mods: &self.mods,
				};
				match self.manager.add_clock(speed.k(&r)) {
					Ok(h) => {
						let id = h.id();
						self.clocks.push(Entry { handle: Some(h), id });
						o.created = true;
					}
					Err(_) => o.limit = true,
				}
			}
			Op::AddTweener { initial } => match self.manager.add_modulator(TweenerBuilder { initial_value: *initial }) {
				Ok(h) => {
					let id = h.id();
					self.mods.push(Entry {
						handle: Some(ModH::Tweener(h)),
						id,
					});
					o.created = true;
				}
				Err(_) => o.limit = true,
			},
			Op::AddLfo { wave, frequency, amplitude, offset, phase } => {
				let r = R {
					clocks: &self.clocks,
					mods: &self.mods,
				};
				let b = LfoBuilder::new()
					.waveform(wave.k())
					.frequency(frequency.k(&r))
					.amplitude(amplitude.k(&r))
					.offset(offset.k(&r))
					.starting_phase(*phase);
				match self.manager.add_modulator(b) {
					Ok(h) => {
						let id = h.id();
						self.mods.push(Entry {
							handle: Some(ModH::Lfo(h)),
							id,
						});
						o.created = true;
					}
					Err(_) => o.limit = true,
				}
			}
			Op::AddListener { position, orientation } => {
				let r = R {
					clocks: &self.clocks,
					mods: &self.mods,
				};
				match self.manager.add_listener(position.k(&r), orientation.k(&r)) {
					Ok(h) => {
						let id = h.id();
						self.listeners.push(Entry { handle: Some(h), id });
						o.created = true;
					}
					Err(_) => o.limit = true,
				}
			}
			Op::PlayStatic { track, data, slice, settings } => {
				let r = R {
					clocks: &self.clocks,
					mods: &self.mods,
				};
				let sd = static_data(data, *slice, settings, &r);
				let t = track.and_then(|t| self.live_track(t));
				let res = match t {
					None => self.manager.play(sd),
					Some(t) => match self.tracks[t].handle.as_mut().unwrap() {
						TrackH::Plain(h) => h.play(sd),
						TrackH::Spatial(h) => h.play(sd),
					},
				};
				match res {
					Ok(h) => {
						self.sounds.push(Entry {
							handle: Some(SoundH::Static(h)),
							id: (),
						});
						o.created = true;
					}
					Err(_) => o.limit = true,
				}
			}
			Op::PlayStreaming { track, decoder, slice, settings } => {
				let r = R {
					clocks: &self.clocks,
					mods: &self.mods,
				};
				let (sd, probe) = streaming_data(decoder, *slice, settings, &r);
				let t = track.and_then(|t| self.live_track(t));
				let res = match t {
					None => self.manager.play(sd),
					Some(t) => match self.tracks[t].handle.as_mut().unwrap() {
						TrackH::Plain(h) => h.play(sd),
						TrackH::Spatial(h) => h.play(sd),
					},
				};
				match res {
					Ok(h) => {
						self.sounds.push(Entry {
							handle: Some(SoundH::Streaming(h, probe)),
							id: (),
						});
						o.created = true;
					}
					Err(PlaySoundError::SoundLimitReached) => {
						self.orphan_probes.push(probe);
						o.limit = true;
					}
					Err(_) => {
						self.orphan_probes.push(probe);
						o.skipped = true;
					}
				}
			}
			Op::Sound { sound, cmd } => {
				if self.sounds.is_empty() {
					o.skipped = true;
					return o;
				}
				let idx = *sound % self.sounds.len();
				let r = R {
					clocks: &self.clocks,
					mods: &self.mods,
				};
				let Some(h) = self.sounds[idx].handle.as_mut() else {
					o.skipped = true;
					return o;
				};
				macro_rules! both {
					($h:ident => $e:expr) => {
						match h {
							SoundH::Static($h) => $e,
							SoundH::Streaming($h, _) => $e,
						}
					};
				}
				match cmd {
					SoundCmd::Pause(t) => both!(h => h.pause(t.k(&r))),
					SoundCmd::Resume(t) => both!(h => h.resume(t.k(&r))),
					SoundCmd::ResumeAt(s, t) => both!(h => h.resume_at(s.k(&r), t.k(&r))),
					SoundCmd::Stop(t) => both!(h => h.stop(t.k(&r))),
					SoundCmd::SeekTo(p) => both!(h => h.seek_to(*p)),
					SoundCmd::SeekBy(p) => both!(h => h.seek_by(*p)),
					SoundCmd::SetVolume(v, t) => both!(h => h.set_volume(v.k(&r), t.k(&r))),
					SoundCmd::SetRate(v, t) => both!(h => h.set_playback_rate(v.k(&r), t.k(&r))),
					SoundCmd::SetPanning(v, t) => both!(h => h.set_panning(v.k(&r), t.k(&r))),
					SoundCmd::SetLoop(l) => both!(h => h.set_loop_region(l.map(|l| l.k()))),
				}
			}
			Op::Track { track, cmd } => {
				let Some(idx) = self.live_track(*track) else {
					o.skipped = true;
					return o;
				};
				let r = R {
					clocks: &self.clocks,
					mods: &self.mods,
				};
				let send_id = |i: usize| -> Option<SendTrackId> {
					if self.sends.is_empty() {
						None
					} else {
						Some(self.sends[i % self.sends.len()].id)
					}
				};
				let h = self.tracks[idx].handle.as_mut().unwrap();
				macro_rules! both {
					($h:ident => $e:expr) => {
						match h {
							TrackH::Plain($h) => $e,
							TrackH::Spatial($h) => $e,
						}
					};
				}
				match cmd {
					TrackCmd::SetVolume(v, t) => both!(h => h.set_volume(v.k(&r), t.k(&r))),
					TrackCmd::Pause(t) => both!(h => h.pause(t.k(&r))),
					TrackCmd::Resume(t) => both!(h => h.resume(t.k(&r))),
					TrackCmd::ResumeAt(s, t) => both!(h => h.resume_at(s.k(&r), t.k(&r))),
					TrackCmd::SetSend(i, v, t) => {
						if let Some(id) = send_id(*i) {
							let _ = both!(h => h.set_send(id, v.k(&r), t.k(&r)));
						}
					}
					TrackCmd::SetPosition(p, t) => {
						if let TrackH::Spatial(h) = h {
							h.set_position(p.k(&r), t.k(&r));
						}
					}
					TrackCmd::SetStrength(s, t) => {
						if let TrackH::Spatial(h) = h {
							h.set_spatialization_strength(s.k(&r), t.k(&r));
						}
					}
				}
			}
			Op::MainVolume(v, t) => {
				let r = R {
					clocks: &self.clocks,
					mods: &self.mods,
				};
				let (v, t) = (v.k(&r), t.k(&r));
				self.manager.main_track().set_volume(v, t);
			}
			Op::SendVolume { send, volume, tween } => {
				if self.sends.is_empty() {
					o.skipped = true;
					return o;
				}
				let idx = *send % self.sends.len();
				let r = R {
					clocks: &self.clocks,
					mods: &self.mods,
				};
				let (v, t) = (volume.k(&r), tween.k(&r));
				if let Some(h) = self.sends[idx].handle.as_mut() {
					h.set_volume(v, t);
				}
			}
			Op::Clock { clock, cmd } => {
				if self.clocks.is_empty() {
					o.skipped = true;
					return o;
				}
				let idx = *clock % self.clocks.len();
				let r = R {
					clocks: &self.clocks,
					mods: &self.mods,
				};
				let arg = match cmd {
					ClockCmd::SetSpeed(v, t) => Some((v.k(&r), t.k(&r))),
					_ => None,
				};
				if let Some(h) = self.clocks[idx].handle.as_mut() {
					match cmd {
						ClockCmd::Start => h.start(),
						ClockCmd::Pause => h.pause(),
						ClockCmd::Stop => h.stop(),
						ClockCmd::SetSpeed(..) => {
							let (v, t) = arg.unwrap();
							h.set_speed(v, t)
						}
					}
				}
			}
			Op::Mod { modulator, cmd } => {
				if self.mods.is_empty() {
					o.skipped = true;
					return o;
				}
				let idx = *modulator % self.mods.len();
				let r = R {
					clocks: &self.clocks,
					mods: &self.mods,
				};
				enum A {
					T(f64, Tween),
					W(WaveS),
					F(kira::Value<f64>, Tween, u8),
					P(f64),
				}
				let a = match cmd {
					ModCmd::TweenerSet(v, t) => A::T(*v, t.k(&r)),
					ModCmd::LfoWaveform(w) => A::W(*w),
					ModCmd::LfoFrequency(v, t) => A::F(v.k(&r), t.k(&r), 0),
					ModCmd::LfoAmplitude(v, t) => A::F(v.k(&r), t.k(&r), 1),
					ModCmd::LfoOffset(v, t) => A::F(v.k(&r), t.k(&r), 2),
					ModCmd::LfoPhase(p) => A::P(*p),
				};
				match (self.mods[idx].handle.as_mut(), a) {
					(Some(ModH::Tweener(h)), A::T(v, t)) => h.set(v, t),
					(Some(ModH::Lfo(h)), A::W(w)) => h.set_waveform(w.k()),
					(Some(ModH::Lfo(h)), A::F(v, t, 0)) => h.set_frequency(v, t),
					(Some(ModH::Lfo(h)), A::F(v, t, 1)) => h.set_amplitude(v, t),
					(Some(ModH::Lfo(h)), A::F(v, t, _)) => h.set_offset(v, t),
					(Some(ModH::Lfo(h)), A::P(p)) => h.set_phase(p),
					_ => o.skipped = true,
				}
			}
			Op::ListenerPos { listener, position, tween } => {
				if self.listeners.is_empty() {
					o.skipped = true;
					return o;
				}
				let idx = *listener % self.listeners.len();
				let r = R {
					clocks: &self.clocks,
					mods: &self.mods,
				};
				let (p, t) = (position.k(&r), tween.k(&r));
				if let Some(h) = self.listeners[idx].handle.as_mut() {
					h.set_position(p, t);
				}
			}
			Op::ListenerRot { listener, orientation, tween } => {
				if self.listeners.is_empty() {
					o.skipped = true;
					return o;
				}
				let idx = *listener % self.listeners.len();
				let r = R {
					clocks: &self.clocks,
					mods: &self.mods,
				};
				let (p, t) = (orientation.k(&r), tween.k(&r));
				if let Some(h) = self.listeners[idx].handle.as_mut() {
					h.set_orientation(p, t);
				}
			}
			Op::Effect { effect, cmd } => {
				if self.effects.is_empty() {
					o.skipped = true;
					return o;
				}
				let idx = *effect % self.effects.len();
				let r = R {
					clocks: &self.clocks,
					mods: &self.mods,
				};
				apply_effect_cmd(&mut self.effects[idx], cmd, &r, &self.avoid);
			}
			Op::Drop { kind, index } => match kind {
				Kind::Track => {
					if let Some(i) = self.live_track(*index) {
						self.tracks[i].handle = None;
					}
				}
				Kind::Send => {
					if !self.sends.is_empty() {
						let i = *index % self.sends.len();
						self.sends[i].handle = None;
					}
				}
				Kind::Clock => {
					if !self.clocks.is_empty() {
						let i = *index % self.clocks.len();
						self.clocks[i].handle = None;
					}
				}
				Kind::Modulator => {
					if !self.mods.is_empty() {
						let i = *index % self.mods.len();
						self.mods[i].handle = None;
					}
				}
				Kind::Listener => {
					if !self.listeners.is_empty() {
						let i = *index % self.listeners.len();
						self.listeners[i].handle = None;
					}
				}
				Kind::Sound => {
					if !self.sounds.is_empty() {
						let i = *index % self.sounds.len();
						self.sounds[i].handle = None;
					}
				}
			},
			Op::Query => {
				for t in self.tracks.iter().filter_map(|e| e.handle.as_ref()) {
					match t {
						TrackH::Plain(h) => {
							let _: TrackPlaybackState = h.state();
							let _ = (h.num_sounds(), h.num_sub_tracks());
						}
						TrackH::Spatial(h) => {
							let _: TrackPlaybackState = h.state();
							let _ = (h.num_sounds(), h.num_sub_tracks());
						}
					}
				}
				for s in self.sounds.iter_mut().filter_map(|e| e.handle.as_mut()) {
					let _ = (s.state(), s.position());
					if let SoundH::Streaming(h, _) = s {
						let _ = h.pop_error();
					}
				}
				for c in self.clocks.iter().filter_map(|e| e.handle.as_ref()) {
					let _ = (c.time(), c.ticking());
				}
				let _ = (
					self.manager.num_sub_tracks(),
					self.manager.num_send_tracks(),
					self.manager.num_clocks(),
					self.manager.num_modulators(),
				);
			}
			Op::Callback { .. } | Op::ChangeRate { .. } | Op::Decoders { .. } => unreachable!(),
		}
		o
	}
}
