//! A scripted `kira::sound::streaming::Decoder`: packet sizes, early-landing
//! seeks, failures on the k-th call, and a probe that records what the decoder
//! thread did with it (calls, drop).

use std::sync::{
	atomic::{AtomicBool, AtomicU64, Ordering},
	Arc, Mutex,
};

use kira::{sound::streaming::Decoder, Frame};
use serde::{Deserialize, Serialize};

use crate::{
	monitor::{self, Role},
	spec::DataSpec,
};

#[derive(Clone, Debug, Serialize, Deserialize, PartialEq)]
pub struct DecoderSpec {
	pub data: DataSpec,
	/// packet sizes, cycled; 0 = empty packet
	pub packets: Vec<usize>,
	/// seeks land on a multiple of this (>= 1), at or before the requested frame
	pub seek_gran: usize,
	/// 0-based indices of `decode` calls that fail
	pub fail_decode: Vec<u64>,
	/// 0-based indices of `seek` calls that fail (call 0 happens in `into_sound`)
	pub fail_seek: Vec<u64>,
	/// once a call has failed, every later call fails too (broken stream)
	#[serde(default)]
	pub fail_sticky: bool,
	/// extra yield points per `decode` call: under random schedules the decoder is then slow
	/// compared with the audio task (the ring runs low, data arrives while a chunk is rendered)
	#[serde(default)]
	pub slow: u32,
}

impl DecoderSpec {
	pub fn simple(data: DataSpec) -> Self {
		Self {
			data,
			packets: vec![64],
			seek_gran: 1,
			fail_decode: vec![],
			fail_seek: vec![],
			fail_sticky: false,
			slow: 0,
		}
	}
}

#[derive(Clone, Debug, PartialEq, Eq)]
pub enum ScriptErr {
	Decode(u64),
	Seek(u64),
	Eof,
}

#[derive(Default)]
pub struct DecoderProbe {
	pub decode_calls: AtomicU64,
	pub seek_calls: AtomicU64,
	pub errors: AtomicU64,
	pub dropped: AtomicBool,
	pub dropped_by: Mutex<Option<Role>>,
	pub first_error: Mutex<Option<ScriptErr>>,
	pub frames_delivered: AtomicU64,
}

pub struct ScriptedDecoder {
	spec: DecoderSpec,
	cursor: usize,
	packet_no: usize,
	probe: Arc<DecoderProbe>,
}

impl ScriptedDecoder {
	pub fn new(spec: DecoderSpec) -> (Self, Arc<DecoderProbe>) {
		let probe = Arc::new(DecoderProbe::default());
		(
			Self {
				spec,
				cursor: 0,
				packet_no: 0,
				probe: probe.clone(),
			},
			probe,
		)
	}
	fn raise(&self, e: ScriptErr) -> ScriptErr {
		self.probe.errors.fetch_add(1, Ordering::SeqCst);
		let mut first = self.probe.first_error.lock().unwrap();
		if first.is_none() {
			*first = Some(e.clone());
		}
		e
	}
}

impl Decoder for ScriptedDecoder {
	type Error = ScriptErr;

	fn sample_rate(&self) -> u32 {
		self.spec.data.sample_rate
	}

	fn num_frames(&self) -> usize {
		self.spec.data.len
	}

	fn decode(&mut self) -> Result<Vec<Frame>, ScriptErr> {
		// lets the simulator preempt / end a decoder task that is stuck in here
		kira::verif::yield_point("scripted.decode");
		for _ in 0..self.spec.slow {
			kira::verif::yield_point("scripted.decode.slow");
		}
		let call = self.probe.decode_calls.fetch_add(1, Ordering::SeqCst);
		if self.spec.fail_decode.contains(&call) || (self.spec.fail_sticky && self.probe.errors.load(Ordering::SeqCst) > 0) {
			return Err(self.raise(ScriptErr::Decode(call)));
		}
		if self.cursor >= self.spec.data.len {
			return Err(self.raise(ScriptErr::Eof));
		}
		let size = if self.spec.packets.is_empty() {
			64
		} else {
			self.spec.packets[self.packet_no % self.spec.packets.len()]
		};
		self.packet_no += 1;
		let end = (self.cursor + size).min(self.spec.data.len);
		let frames: Vec<Frame> = (self.cursor..end).map(|i| self.spec.data.frame(i)).collect();
		self.cursor = end;
		self.probe.frames_delivered.fetch_add(frames.len() as u64, Ordering::SeqCst);
		Ok(frames)
	}

	fn seek(&mut self, index: usize) -> Result<usize, ScriptErr> {
		let call = self.probe.seek_calls.fetch_add(1, Ordering::SeqCst);
		if self.spec.fail_seek.contains(&call) || (self.spec.fail_sticky && self.probe.errors.load(Ordering::SeqCst) > 0) {
			return Err(self.raise(ScriptErr::Seek(call)));
		}
		let g = self.spec.seek_gran.max(1);
		let landed = (index.min(self.spec.data.len) / g) * g;
		self.cursor = landed;
		Ok(landed)
	}
}

impl Drop for ScriptedDecoder {
	fn drop(&mut self) {
		*self.probe.dropped_by.lock().unwrap() = Some(monitor::role());
		self.probe.dropped.store(true, Ordering::SeqCst);
	}
}
