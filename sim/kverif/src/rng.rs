//! The only source of randomness in the simulator: xoshiro256** seeded through
//! splitmix64. One integer decides everything.

#[derive(Clone, Debug)]
pub struct Rng {
	s: [u64; 4],
}

pub fn splitmix64(x: &mut u64) -> u64 {
	*x = x.wrapping_add(0x9E37_79B9_7F4A_7C15);
	let mut z = *x;
	z = (z ^ (z >> 30)).wrapping_mul(0xBF58_476D_1CE4_E5B9);
	z = (z ^ (z >> 27)).wrapping_mul(0x94D0_49BB_1331_11EB);
	z ^ (z >> 31)
}

/// Derives the seed of case `index` of a batch from the batch seed.
pub fn derive_seed(base: u64, stream: u64, index: u64) -> u64 {
	let mut x = base ^ stream.wrapping_mul(0xA24B_AED4_963E_E407) ^ index.wrapping_mul(0x9FB2_1C65_1E98_DF25);
	let a = splitmix64(&mut x);
	let b = splitmix64(&mut x);
	a ^ b.rotate_left(17)
}

impl Rng {
	pub fn new(seed: u64) -> Self {
		let mut x = seed;
		let s = [
			splitmix64(&mut x),
			splitmix64(&mut x),
			splitmix64(&mut x),
			splitmix64(&mut x),
		];
		Self { s }
	}

	pub fn next_u64(&mut self) -> u64 {
		let result = self.s[1].wrapping_mul(5).rotate_left(7).wrapping_mul(9);
		let t = self.s[1] << 17;
		self.s[2] ^= self.s[0];
		self.s[3] ^= self.s[1];
		self.s[1] ^= self.s[2];
		self.s[0] ^= self.s[3];
		self.s[2] ^= t;
		self.s[3] = self.s[3].rotate_left(45);
		result
	}

	/// Uniform in `0..n` (`n > 0`).
	pub fn below(&mut self, n: u64) -> u64 {
		debug_assert!(n > 0);
		// multiply-shift; bias is irrelevant at these sizes
		((self.next_u64() as u128 * n as u128) >> 64) as u64
	}

	pub fn usize_below(&mut self, n: usize) -> usize {
		self.below(n as u64) as usize
	}

	/// Uniform in `lo..=hi`.
	pub fn range(&mut self, lo: i64, hi: i64) -> i64 {
		debug_assert!(lo <= hi);
		lo + self.below((hi - lo) as u64 + 1) as i64
	}

	pub fn urange(&mut self, lo: usize, hi: usize) -> usize {
		self.range(lo as i64, hi as i64) as usize
	}

	/// Uniform in `[0, 1)`.
	pub fn f64(&mut self) -> f64 {
		(self.next_u64() >> 11) as f64 * (1.0 / (1u64 << 53) as f64)
	}

	pub fn frange(&mut self, lo: f64, hi: f64) -> f64 {
		lo + (hi - lo) * self.f64()
	}

	pub fn chance(&mut self, p: f64) -> bool {
		self.f64() < p
	}

	pub fn pick<'a, T>(&mut self, items: &'a [T]) -> &'a T {
		&items[self.usize_below(items.len())]
	}

	pub fn pick_copy<T: Copy>(&mut self, items: &[T]) -> T {
		items[self.usize_below(items.len())]
	}

	/// Index drawn with the given relative weights.
	pub fn weighted(&mut self, weights: &[u32]) -> usize {
		let total: u64 = weights.iter().map(|w| *w as u64).sum();
		debug_assert!(total > 0);
		let mut x = self.below(total);
		for (i, w) in weights.iter().enumerate() {
			if x < *w as u64 {
				return i;
			}
			x -= *w as u64;
		}
		weights.len() - 1
	}

	pub fn fork(&mut self) -> Rng {
		Rng::new(self.next_u64())
	}
}

/// FNV-1a style incremental hash used for trace / behaviour signatures.
#[derive(Clone, Copy, Debug)]
pub struct Hasher64(pub u64);

impl Default for Hasher64 {
	fn default() -> Self {
		Self(0xcbf2_9ce4_8422_2325)
	}
}

impl Hasher64 {
	pub fn new() -> Self {
		Self::default()
	}
	pub fn u64(&mut self, v: u64) {
		let mut h = self.0;
		for b in v.to_le_bytes() {
			h ^= b as u64;
			h = h.wrapping_mul(0x0000_0100_0000_01B3);
		}
		self.0 = h;
	}
	pub fn bytes(&mut self, v: &[u8]) {
		let mut h = self.0;
		for b in v {
			h ^= *b as u64;
			h = h.wrapping_mul(0x0000_0100_0000_01B3);
		}
		self.0 = h;
	}
	pub fn str(&mut self, v: &str) {
		self.bytes(v.as_bytes());
		self.u64(0xff);
	}
	pub fn f32(&mut self, v: f32) {
		self.u64(v.to_bits() as u64);
	}
	pub fn f64(&mut self, v: f64) {
		self.u64(v.to_bits());
	}
	pub fn finish(&self) -> u64 {
		self.0
	}
}
