#!/usr/bin/env python3
"""Re-runs the catalogue of hand-written mutants (tools/hand_mutants.json: one-line edits of kira's
sources, each aimed at one check) against the current checks: apply to /repo's working tree, rebuild,
run that check at quick tier without evidence, undo. Results: /verif/seeded/hand_mutants_results.json.
A mutant that no longer applies (the source moved on) is reported as such, not as a survivor."""
import json, subprocess, sys, os, glob
# defaults: /repo's working tree and /verif/sim; HM_REPO / HM_SIM / KVERIF_ROOT point a run at a scratch
# worktree of /repo and a scratch copy of /verif/sim (whose shadow manifest names that worktree)
REPO = os.environ.get('HM_REPO', '/repo')
SIM = os.environ.get('HM_SIM', '/verif/sim')
ROOT = os.environ.get('KVERIF_ROOT', '/verif')
cat = json.load(open('/verif/tools/hand_mutants.json'))
only = sys.argv[1:]
results = []
def sh(c, **k): return subprocess.run(c, shell=True, capture_output=True, text=True, **k)
for i, m in enumerate(cat):
    if only and m['check'] not in only: continue
    if sh(f'git -C {REPO} diff --quiet').returncode != 0:
        print('repo dirty'); sys.exit(2)
    status = None; oracle = None
    before = set(glob.glob(f'{ROOT}/replays/*.json'))
    try:
        applied = True
        for e in m['edits']:
            p = f'{REPO}/crates/kira/src/' + e['file']
            s = open(p).read()
            if m['kind'] == 'replace':
                old = e['old'].encode().decode('unicode_escape'); new = e['new'].encode().decode('unicode_escape')
                if old not in s: applied = False; break
                open(p, 'w').write(s.replace(old, new, 1))
            else:
                subprocess.run(['sed', '-i', '-z' if '\\n' in e['sed'] else '-e', e['sed'], p] if False else ['sed', '-i', e['sed'], p])
                if open(p).read() == s: applied = False; break
        if not applied:
            status = 'does-not-apply'
        else:
            b = sh(f'cd {SIM} && CARGO_NET_OFFLINE=true cargo build --release --offline')
            if b.returncode != 0:
                status = 'does-not-compile'
            else:
                r = sh(f'timeout 1800 {SIM}/target/release/kverif check {m["check"]} --tier quick --no-evidence')
                o = [l for l in (r.stdout + r.stderr).split('\n') if l.startswith('oracle')]
                oracle = o[0][:300] if o else None
                status = 'caught' if r.returncode == 1 else ('survived' if r.returncode == 0 else f'harness-exit-{r.returncode}')
    finally:
        sh(f'git -C {REPO} checkout -- .')
        for p in set(glob.glob(f'{ROOT}/replays/*.json')) - before: os.remove(p)
    results.append({'n': i, **m, 'status': status, 'oracle': oracle})
    print(i, m['check'], status, (oracle or '')[:150], flush=True)
sh(f'cd {SIM} && CARGO_NET_OFFLINE=true cargo build --release --offline')
json.dump(results, open('/verif/seeded/hand_mutants_results.json', 'w'), indent=1)
from collections import Counter
print(Counter(r['status'] for r in results))
