#!/usr/bin/env python3
"""usage: seed_run.py <seeded-dir-name> [check ids...]      (SEED_RUN_SKIP_FINAL_REBUILD=1: the caller
rebuilds afterwards - used by batch runs, where the next patch triggers a rebuild anyway)
Stage 2 of seeded-change handling: apply /verif/seeded/<name>/patch.diff to /repo's working tree,
rebuild the simulator, run the given checks (default: all claimed) at quick tier without touching
the evidence files, record the verdicts in /verif/seeded/<name>/caught.json, move the replay files
the runs produced next to it, and ALWAYS undo the patch and rebuild afterwards."""
import json, os, subprocess, sys, time, glob, shutil
# SEED_REPO / SEED_SIM / KVERIF_ROOT redirect a run to a scratch worktree of /repo and a scratch copy of
# /verif/sim (exploratory runs while /repo is busy); the results that count are taken against /repo itself
REPO = os.environ.get('SEED_REPO', '/repo'); SIM = os.environ.get('SEED_SIM', '/verif/sim'); ROOT = os.environ.get('KVERIF_ROOT', '/verif')
name = sys.argv[1]
d = f'/verif/seeded/{name}'
checks = sys.argv[2:] or [c['property_id'] for c in json.load(open('/verif/MANIFEST.json'))['checks']]
if subprocess.run(['git','-C',REPO,'diff','--quiet']).returncode != 0:
    print('repo dirty'); sys.exit(2)
before = set(glob.glob(f'{ROOT}/replays/*.json'))
res = {}
try:
    subprocess.run(['git','-C',REPO,'apply',f'{d}/patch.diff'], check=True)
    b = subprocess.run(f'cd {SIM} && CARGO_NET_OFFLINE=true cargo build --release --offline', shell=True, capture_output=True, text=True)
    if b.returncode != 0:
        print('DOES NOT COMPILE under the shadow manifest'); print(b.stderr[-2000:]); sys.exit(4)
    for c in checks:
        t = time.time()
        r = subprocess.run(f'timeout 1800 {SIM}/target/release/kverif check {c} --tier quick --no-evidence', shell=True, capture_output=True, text=True)
        out = r.stdout + r.stderr
        oracle = [l for l in out.split('\n') if l.startswith('oracle')]
        viol = [l for l in out.split('\n') if l.startswith('VIOLATION')]
        res[c] = {'exit': r.returncode, 'secs': round(time.time()-t,1), 'oracle': oracle[0][:400] if oracle else None, 'violation_line': viol[0] if viol else None}
        print(name, c, 'exit', r.returncode, (oracle[0][:200] if oracle else ''), flush=True)
finally:
    subprocess.run(['git','-C',REPO,'checkout','--','.'])
    if not os.environ.get('SEED_RUN_SKIP_FINAL_REBUILD'):
        subprocess.run(f'cd {SIM} && CARGO_NET_OFFLINE=true cargo build --release --offline', shell=True, capture_output=True)
new = sorted(set(glob.glob(f'{ROOT}/replays/*.json')) - before)
os.makedirs(f'{d}/replays', exist_ok=True)
for p in new:
    shutil.move(p, f'{d}/replays/{os.path.basename(p)}')
# runs against /repo itself are the ones that count (caught.json); runs redirected to a scratch worktree
# are kept apart (caught.scratch.json)
outname = 'caught.json' if REPO == '/repo' else 'caught.scratch.json'
merged = {}
if os.path.exists(f'{d}/{outname}') and os.environ.get('SEED_RUN_MERGE'):
    merged = json.load(open(f'{d}/{outname}')).get('results', {})
merged.update(res)
json.dump({'seeded': name, 'tier': 'quick', 'seed': os.environ.get('VERIF_SEED','default'), 'repo': REPO,
           'repo_head': subprocess.run(['git','-C',REPO,'log','--format=%h','-1'],capture_output=True,text=True).stdout.strip(),
           'results': merged, 'caught_by': [c for c in merged if merged[c]['exit'] == 1]}, open(f'{d}/{outname}','w'), indent=1)
print(name, 'caught_by', [c for c in res if res[c]['exit'] == 1])
