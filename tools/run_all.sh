#!/bin/bash
# usage: run_all.sh [quick|thorough] - runs every claimed check through check.sh, one status line each
TIER="${1:-quick}"
cd /verif
fail=0
for c in $(python3 -c "import json; print(' '.join(x['property_id'] for x in json.load(open('/verif/MANIFEST.json'))['checks']))"); do
  out=$(./check.sh $c $TIER 2>&1); code=$?
  echo "$c exit=$code $(echo "$out" | grep -E "$TIER:" | tail -1)"
  if [ $code -ne 0 ]; then fail=1; echo "$out" | grep -E "VIOLATION|oracle|harness" | head -5; fi
done
exit $fail
