#!/usr/bin/env python3
"""Regenerates the two generated tables of DESIGN.md (between the SEED-TABLE / MUTANT-TABLE markers)
from seeded/*/caught.json, seeded/*/meta.json and seeded/hand_mutants_results.json."""
import json, glob, os, re
from collections import Counter, defaultdict
rows = []
checks = [c['property_id'] for c in json.load(open('/verif/MANIFEST.json'))['checks']]
for d in sorted(glob.glob('/verif/seeded/C*-*')):
    name = os.path.basename(d)
    if not os.path.exists(f'{d}/caught.json'): continue
    c = json.load(open(f'{d}/caught.json'))
    m = json.load(open(f'{d}/meta.json'))
    ran = [k for k in checks if k in c['results']]
    caught = [k for k in ran if c['results'][k]['exit'] == 1]
    other = [k for k in ran if c['results'][k]['exit'] not in (0, 1)]
    tgt = name.split('-')[0]
    o = c['results'].get(caught[0], {}).get('oracle') if caught else None
    o = re.sub(r'^oracle ', '', o or '')[:110].replace('|', '/')
    rows.append(f"| {name} | {m['needs_to_manifest'][:150].replace('|','/')} | {', '.join(caught) or '**none**'}{' (harness exit: ' + ', '.join(other) + ')' if other else ''} | {len(ran)} | {o} |")
seed_tbl = "| seeded change | needs, to manifest | caught by | checks run | first oracle message (truncated) |\n|---|---|---|---|---|\n" + "\n".join(rows)
mut_tbl = '(not run yet)'
p = '/verif/seeded/hand_mutants_results.json'
if os.path.exists(p):
    r = json.load(open(p))
    by = defaultdict(Counter)
    for x in r: by[x['check']][x['status']] += 1
    lines = ["| check | mutants | caught | survived | no longer applies / does not compile |", "|---|---|---|---|---|"]
    for k in sorted(by):
        c = by[k]
        lines.append(f"| {k} | {sum(c.values())} | {c['caught']} | {c['survived']} | {c['does-not-apply'] + c['does-not-compile']} |")
    tot = Counter(x['status'] for x in r)
    lines.append(f"| all | {len(r)} | {tot['caught']} | {tot['survived']} | {tot['does-not-apply'] + tot['does-not-compile']} |")
    surv = [x for x in r if x['status'] == 'survived']
    if surv:
        lines.append("")
        lines.append("Survivors:")
        for x in surv:
            e = x['edits'][0]
            what = e.get('sed') or (e['old'][:70] + ' -> ' + e['new'][:70])
            lines.append(f"- {x['check']} `{e['file']}`: `{what[:160]}`")
    mut_tbl = "\n".join(lines)
s = open('/verif/DESIGN.md').read()
s = re.sub(r'<!-- SEED-TABLE-BEGIN -->.*?<!-- SEED-TABLE-END -->', lambda m: '<!-- SEED-TABLE-BEGIN -->\n' + seed_tbl + '\n<!-- SEED-TABLE-END -->', s, flags=re.S)
s = re.sub(r'<!-- MUTANT-TABLE-BEGIN -->.*?<!-- MUTANT-TABLE-END -->', lambda m: '<!-- MUTANT-TABLE-BEGIN -->\n' + mut_tbl + '\n<!-- MUTANT-TABLE-END -->', s, flags=re.S)
open('/verif/DESIGN.md', 'w').write(s)
print(len(rows), 'seeded rows')
