#!/usr/bin/env python3
"""Regenerates the two generated tables of DESIGN.md (between the SEED-TABLE / MUTANT-TABLE markers)
from seeded/*/caught.json, seeded/*/meta.json and seeded/hand_mutants_results.json."""
import json, glob, os, re
from collections import Counter, defaultdict
rows = []
checks = [c['property_id'] for c in json.load(open('/verif/MANIFEST.json'))['checks']]
def natural(d):
    a, b = os.path.basename(d).split('-')
    return (a, int(b))
NOT_A_VIOLATION = {
    'C11-13': 'judged outside C11 (which compares fixed scenes whose decoders keep ahead; a decoder stall is a timing input) and inside what C10 grants a slow decoder (playback continues from where it stopped to within a frame: the change alters the sub-frame phase after a stall); see 12.1',
    'C15-17': 'a slip in Value arithmetic (impl Sub for Value): a pure function of its inputs, the territory of C19, which is not applicable to this technique (DESIGN section 5); no schedule, fault or history is involved',
    'C18-5': 'judged not to break C18 at its stated precision (one frame after a seek); see 12.1',
    'C05-8': 'judged not decidable by C05 / C06 as stated: the properties do not say in which unit a tween between clock speeds of different units is linear (kira: the target\'s unit; the change: ticks per second); see 12.1',
    'C04-6': 'judged not decidable by C04 as stated: the order in which a loop-region change and a seek written in the same period take effect is not part of the property (per-kind mailboxes; either order is some sequential order of the two calls); see 12.1',
}
LIMIT = {
    'C11-16': 'not caught: after commands on an effect with memory the worlds legitimately differ for a while; C11\'s command prelude is restricted to scenes without effects (see 12.1)',
    'C16-10': 'not caught: the window it opens (a track added while the rate change is fanned out) lies inside the class of schedules the generator avoids while the open finding C16-stale-rate-on-queued-track is listed (on the unchanged tree a track added just before the change is already left at the old rate); see 12.1',
    'C07-4': 'not caught: needs a switch between two loads inside one function (yield-point granularity, section 7)',
}
for d in sorted(glob.glob('/verif/seeded/C*-*'), key=natural):
    name = os.path.basename(d)
    m = json.load(open(f'{d}/meta.json')) if os.path.exists(f'{d}/meta.json') else {'needs_to_manifest': ''}
    main = json.load(open(f'{d}/caught.json')) if os.path.exists(f'{d}/caught.json') else None
    scratch = json.load(open(f'{d}/caught.scratch.json')) if os.path.exists(f'{d}/caught.scratch.json') else None
    if not main and not scratch: continue
    caught = [k for k in checks if main and main['results'].get(k, {}).get('exit') == 1]
    also = [k for k in checks if scratch and scratch['results'].get(k, {}).get('exit') == 1 and k not in caught]
    src = main if caught else scratch
    first = (caught or also or [None])[0]
    o = (src['results'].get(first, {}).get('oracle') if first else None) or ''
    o = re.sub(r'^oracle ', '', o)[:100].replace('|', '/')
    verdict = ', '.join(caught) if caught else ('**none**' if name not in NOT_A_VIOLATION and name not in LIMIT else '**none** - ' + (NOT_A_VIOLATION.get(name) or LIMIT.get(name)))
    rows.append(f"| {name} | {m['needs_to_manifest'][:140].replace('|','/')} | {verdict} | {', '.join(also) or '-'} | {o} |")
seed_tbl = "| seeded change | needs, to manifest | caught by (run against /repo) | also caught by (scratch-worktree run of all 16 checks) | first oracle message (truncated) |\n|---|---|---|---|---|\n" + "\n".join(rows)
mut_tbl = '(not run yet)'
p = '/verif/seeded/hand_mutants_results.json'
if os.path.exists(p):
    r = json.load(open(p))
    by = defaultdict(Counter)
    for x in r: by[x['check']][x['status']] += 1
    lines = ["| check | mutants | caught | survived | no longer applies / does not compile |", "|---|---|---|---|---|"]
    for k in sorted(by):
        c = by[k]
        lines.append(f"| {k} | {sum(c.values())} | {c['caught']} | {c['survived']} | {c['does-not-apply'] + c['does-not-compile']} |")
    tot = Counter(x['status'] for x in r)
    lines.append(f"| all | {len(r)} | {tot['caught']} | {tot['survived']} | {tot['does-not-apply'] + tot['does-not-compile']} |")
    surv = [x for x in r if x['status'] == 'survived']
    if surv:
        lines.append("")
        lines.append("Survivors:")
        for x in surv:
            e = x['edits'][0]
            what = e.get('sed') or (e['old'][:70] + ' -> ' + e['new'][:70])
            lines.append(f"- {x['check']} `{e['file']}`: `{what[:160]}`")
    mut_tbl = "\n".join(lines)
s = open('/verif/DESIGN.md').read()
s = re.sub(r'<!-- SEED-TABLE-BEGIN -->.*?<!-- SEED-TABLE-END -->', lambda m: '<!-- SEED-TABLE-BEGIN -->\n' + seed_tbl + '\n<!-- SEED-TABLE-END -->', s, flags=re.S)
s = re.sub(r'<!-- MUTANT-TABLE-BEGIN -->.*?<!-- MUTANT-TABLE-END -->', lambda m: '<!-- MUTANT-TABLE-BEGIN -->\n' + mut_tbl + '\n<!-- MUTANT-TABLE-END -->', s, flags=re.S)
open('/verif/DESIGN.md', 'w').write(s)
print(len(rows), 'seeded rows')
