#!/bin/bash
# usage: seed_verify.sh <ID> <n>   -- stage 1: confirm a seeded change in its scratch worktree
# (patch applies; workspace tests pass with it; demo passes without and fails with it)
ID=$1; N=$2; W=/tmp/seed/$ID; S=$W/SEEDED/$N
cd $W || exit 2
git checkout -q -- . ; rm -f crates/kira/tests/zz_seed_demo.rs
git apply --check $S/patch.diff || { echo "$ID/$N: patch does not apply"; exit 1; }
cp $S/demo.rs crates/kira/tests/zz_seed_demo.rs
CARGO_NET_OFFLINE=true cargo test -p kira --offline --test zz_seed_demo > $S/verify_demo_clean.log 2>&1; clean=$?
rm -f crates/kira/tests/zz_seed_demo.rs
git apply $S/patch.diff
CARGO_NET_OFFLINE=true cargo test --workspace --no-fail-fast --offline > $S/verify_suite_patched.log 2>&1; suite=$?
cp $S/demo.rs crates/kira/tests/zz_seed_demo.rs
CARGO_NET_OFFLINE=true cargo test -p kira --offline --test zz_seed_demo > $S/verify_demo_patched.log 2>&1; patched=$?
rm -f crates/kira/tests/zz_seed_demo.rs
git checkout -q -- .
echo "$ID/$N: demo_clean_exit=$clean suite_patched_exit=$suite demo_patched_exit=$patched  suite: $(grep -E '^test result' $S/verify_suite_patched.log | awk '{p+=$4; f+=$6} END {print p" passed "f" failed"}')"
