#!/bin/bash
# usage: mutant.sh <check-id> <cases> <file-relative-to-kira-src> <sed-expr> [more file/expr pairs...]
# Applies a deliberate property-breaking edit to /repo's working tree, runs the check, reverts.
ID="$1"; CASES="$2"; shift 2
cd /repo || exit 2
if ! git diff --quiet; then echo "repo dirty"; exit 2; fi
while [ $# -ge 2 ]; do
  F="crates/kira/src/$1"; E="$2"; shift 2
  sed -i "$E" "$F"
done
if git diff --quiet; then echo "MUTANT DID NOT APPLY"; exit 3; fi
cd /verif/sim
if ! cargo build --release --offline >/tmp/kv/mutant-build.log 2>&1; then grep -E "^error" -A6 /tmp/kv/mutant-build.log | head -12; echo "MUTANT DOES NOT COMPILE"; git -C /repo checkout -- .; exit 4; fi
cd /verif && timeout 600 ./sim/target/release/kverif check "$ID" --cases "$CASES" --no-evidence 2>&1 | grep -E "^oracle|VIOLATION|quick:" | cut -c1-300
git -C /repo checkout -- . 
(cd /verif/sim && cargo build --release --offline >/dev/null 2>&1)
