#!/usr/bin/env python3
"""Writes /verif/seeded/<name>/meta.json for every seeded change (what it needs to manifest is
hand-written here from the sub-agents' notes; the verification facts come from the logs that
tools/seed_verify.sh left and from caught.json written by tools/seed_run.py)."""
import json, os, re, glob
NEEDS = {
 'C02-1': 'a track with a sound of its own AND a live (not paused) child track, two or more consecutive chunks: the un-cleared scratch buffer is fed to the child and echoes one chunk late',
 'C02-2': 'a main-track volume that is mid-tween while the device callback is not a multiple of the internal buffer size (short last chunk): the interpolation position is taken relative to the full buffer',
 'C03-1': 'a sound with a delayed / clock start time that is paused or stopped with a non-zero fade before it has started: the fade does not advance, the state never completes',
 'C03-2': 'resume_at(clock time), then the clock handle is dropped before the time is reached: the manager goes to Stopped but the handle is never told',
 'C05-1': 'a device callback that is not a multiple of the internal buffer size: the short last chunk advances clocks by a whole buffer',
 'C05-2': 'a clock-speed tween (or delayed speed change) falling due while the clock is paused, then a resume',
 'C07-1': 'clock stop() immediately followed by start() between the same two callbacks: the reset is left in the mailbox and fires at a later pause',
 'C07-2': 'TrackHandle::play followed by a handle command before the next callback, and observation of exactly that first callback on a sub-track',
 'C08-1': 'a SoundData whose into_sound() fails, played while the track is not full: the reserved slot is never released',
 'C08-2': 'two or more adjacent clocks / modulators / listeners dropped between the same two callbacks, observed after exactly one callback',
 'C10-1': 'a decode error while the sound is paused or still waiting for its start time',
 'C10-2': 'a full frame ring (long or looping stream, decoder ahead) at the moment the sound is dropped together with its track or manager',
 'C12-1': 'a persist_until_sounds_finish track without sounds of its own whose handle is dropped while a descendant track is alive',
 'C12-2': 'pause, resume_at(delayed / clock), then pause again before the resume fires',
 'C16-1': 'a track whose handle was dropped but which lives on (child alive / persisting), then a device sample-rate change',
 'C16-2': 'a Delay effect and a sample-rate change that goes down relative to the largest rate seen so far',
 'C01-1': 'a loop region that starts at or after the end of the audio with an explicit later end: clamped after the emptiness guard, the wrap loop never ends / underflows',
 'C01-2': 'a Delay shorter than the internal buffer, then a switch to a higher sample rate, then the first callback after it (two cooperating sites)',
 'C04-1': 'a backward seek to a target that lies an exact multiple of the loop length before the loop start',
 'C04-2': 'a sliced static sound, set_loop_region with an open end at run time, and the playhead reaching the slice end',
 'C06-1': 'InOutPowi easing with an odd power, observed in the second half of the tween',
 'C06-2': 'a tweener told to go to the target it is already heading for, with a different tween',
 'C09-1': 'a streaming sound that has consumed more than 16380 source frames: the 4-frame peek straddles the physical end of the ring',
 'C09-2': 'a sliced streaming sound whose slice start is not on a seek point, a decoder whose seeks land early, and a loop wrap that seeks to before the slice',
 'C11-1': 'a stateful effect on a send track and a device callback that is not a multiple of the internal buffer size',
 'C11-2': 'a compressor, loud signal, a stretch of exact digital silence, signal again before the release completes; two different chunkings',
 'C15-1': 'a spatial track nested inside another spatial track with a different listener (or a distance-mapped parameter)',
 'C15-2': 'an emitter positioned bit-exactly on one of the listener\'s ears with spatialization strength != 0',
 'C17-1': 'a modulator chained to another, plus an unrelated older modulator that is dropped later while the source is moving',
 'C17-2': 'a scheduled (delayed / clock) tweener change, then a set() to the current value to cancel it',
 'C18-1': 'a real file streamed with a start position / seek / loop-back target that is not on a packet boundary',
 'C18-2': 'a truncated file whose header promises more frames than are present, played as a streaming sound to where the data ends',
 'C01-3': 'a one-channel device and a scene that clips in one channel while left and right differ: the mono sample is folded down before the clamp',
 'C02-3': 'a tweened sub-track volume / fade / route while the device callback is not a multiple of the internal buffer size: the track tweens advance by the nominal chunk length',
 'C02-4': 'a thread interleaving inside one on_start_processing: the (empty) send queue is drained, the caller adds a send track, a track routed to it and a sound, then the sub-track queue is drained',
 'C03-3': 'a streaming sound whose decoder has stalled (ring starved) and a pause / stop / resume with a non-zero fade issued during the stall',
 'C05-3': 'a clock-time target with a non-zero fraction on a clock that steps more than 1 - fraction ticks per internal buffer',
 'C06-3': 'a parameter that moved in the previous chunk, then a zero-duration set() with a delayed / clock start (or the modulator it follows disappears): previous_value is never brought up to date',
 'C06-4': 'a delayed tween whose delay is not a multiple of the update step and whose duration is shorter than the leftover of that update',
 'C07-3': 'a sub-track that has finished pausing, then a command to one of its sounds, nested tracks or effects',
 'C08-3': 'a sub-track that has reached Paused, then a child dropped (or added and dropped with the parent), then a callback',
 'C08-4': 'a thread interleaving: play() + drop of a persisting track handle between the audio thread\'s read of the pending-sound queue and its read of the removal flag',
 'C09-3': 'a sliced streaming sound whose slice starts after frame 0 and decoder packets longer than the slice start',
 'C09-4': 'a stream of exactly 16383 + k x callback-size frames with the decoder keeping ahead: the push that fills the ring is also the last frame',
 'C11-3': 'a track routed to a send track and a device callback longer than the internal buffer size',
 'C11-4': 'a non-looping static sound ending inside the rendered window, non-silent last frames, internal chunks longer than one frame; two chunkings compared',
 'C12-3': 'a three-level tree with parent and child handles dropped while the grandchild is alive (or a persisting child still playing)',
 'C12-4': 'pause, then resume_at with a delayed / clock start time, and an observation that encodes position',
 'C15-3': 'two or more listeners, the last-added one and an earlier one dropped between the same two callbacks',
 'C15-4': 'a parameter linked to the listener distance by set() with a tween; the tween ends; then the distance changes',
 'C16-3': 'a filter that has processed, then a device sample-rate change, with the cutoff not moving afterwards',
 'C17-3': 'a Pulse LFO with more than one cycle per internal chunk (or a phase >= 2 set at run time)',
 'C18-3': 'a seek whose target lies in the packet the decoder thread decoded last (about one ring ahead of what is heard) on a sound longer than the ring',
 'C01-4': 'a streaming sound consuming more than one source frame per output frame (rate > 1, or a 48 kHz file on a 44.1 kHz device) whose decoder is behind at exactly that frame: the callback spins until the decoder delivers',
 'C01-5': 'a float-power easing in a modulator mapping, the modulator leaving the mapping\'s input range, and a Duration-typed target (compressor attack): NaN reaches Duration::from_secs_f64',
 'C02-5': 'set_send with a running tween, a pause of the track during that tween, and a resume: the route tween stands still while paused',
 'C02-6': 'a device buffer longer than the internal buffer and not a multiple of it: the remainder is never rendered',
 'C03-4': 'stop(long fade) followed by stop(short fade) on a static sound: the second one is ignored',
 'C03-5': 'a looping sound seeking to a target at or past the end of the audio (documented to wrap): flagged as finished',
 'C04-3': 'a loop starting after 0, playback still in the intro, and a forward seek to a target before the loop start',
 'C04-4': 'stereo content whose channels differ together with a playback rate != 1 (or a device rate different from the sound\'s)',
 'C05-4': 'a thread interleaving inside one on_start_processing: clocks are collected, the caller adds a clock and a sound scheduled on it, then sounds are collected',
 'C05-5': 'a sound paused while waiting for its clock start time whose clock handle is dropped during the pause',
 'C07-4': 'a write published between the two atomic loads of CommandReader::read (updated(), then read()); there is no yield point between them',
 'C07-5': 'a command written to a track handle followed by the drop of that handle before the next callback, on a track that outlives its handle',
 'C08-5': 'a track that outlives its dropped handle (persisting / live grand-child) whose sound finishes later: destroyed on the audio thread',
 'C08-6': 'add a tweener, set() it with a non-instant tween, one callback, then drop the handle: it lingers until the tween is over',
 'C08-7': 'a SoundData whose into_sound() fails, played on a spatial track handle',
 'C09-5': 'a stop fade that consumes more source frames than the ring holds while undecoded audio remains',
 'C09-6': 'a volume / rate / panning tween with non-zero duration overlapping a fully paused (or not yet started) interval of a streaming sound',
 'C09-7': 'a sliced static sound with an open-ended initial loop region, played to the slice end',
 'C10-3': 'an audio callback plus a handle query between the decoder raising its error flag and handing the error over',
 'C11-5': 'a delay with a stateful feedback effect and input with gaps of exact silence longer than a chunk while echoes still circulate',
 'C11-6': 'a playing spatial track and an internal chunk of exactly one frame',
 'C11-7': 'two static sounds on the main track, one of which ends, and a callback spanning more than one internal chunk (two sites that are only wrong together)',
 'C12-5': 'pause; resume_at(delayed or clock); pause again before it fires',
 'C12-6': 'a concurrent TrackHandle::state() while the audio thread cancels a resume_at whose clock was removed: a transient invalid state',
 'C12-7': 'a top-level track whose handle was dropped but which lives on (persisting / live child): it is no longer serviced',
 'C15-5': 'a non-linear In* / Out* attenuation curve and a comparison against the curve at an intermediate distance',
 'C15-6': 'a listener orientation moving between quaternions in opposite hemispheres (q and -q) within one chunk',
 'C16-4': 'a reverb at a device rate other than 44.1 kHz: the stereo spread is a fixed number of frames',
 'C16-5': 'a top-level track whose handle was dropped but which lives on, then a device sample-rate change (Mixer-level variant of C16-1)',
 'C17-4': 'a modulator handle dropped after on_start_processing and before the last chunk of that callback\'s process',
 'C18-4': 'a 32 / 64-bit float WAV with samples beyond full scale',
 'C18-5': 'a streaming seek_to to a time whose frame count has a fractional part >= 0.5 (or is one ulp below a whole frame)',
}
for d in sorted(glob.glob('/verif/seeded/C*-*')):
    name = os.path.basename(d)
    caught = json.load(open(f'{d}/caught.json')) if os.path.exists(f'{d}/caught.json') else None
    def tail(f):
        p = f'{d}/{f}'
        return open(p).read().strip().split('\n')[-12:] if os.path.exists(p) else []
    suite = [l for l in tail('verify_suite_patched.txt') if l.startswith('test result')]
    passed = sum(int(re.search(r'(\d+) passed', l).group(1)) for l in open(f'{d}/verify_suite_patched.txt') if l.startswith('test result')) if os.path.exists(f'{d}/verify_suite_patched.txt') else None
    failed = sum(int(re.search(r'(\d+) failed', l).group(1)) for l in open(f'{d}/verify_suite_patched.txt') if l.startswith('test result')) if os.path.exists(f'{d}/verify_suite_patched.txt') else None
    meta = {
        'seeded': name,
        'property': name.split('-')[0],
        'origin': 'written by a fresh sub-agent that was given only the text of the property and its own scratch git worktree of /repo (nothing from /verif)',
        'needs_to_manifest': NEEDS.get(name, ''),
        'files': {'patch': 'patch.diff', 'demonstration': 'demo.rs', 'authors_notes': 'notes.md'},
        'confirmed_by_me': {
            'how': 'tools/seed_verify.sh <ID> <n> in the scratch worktree: git apply --check; demo (copied to crates/kira/tests/) on clean sources; patch applied: cargo test --workspace --no-fail-fast --offline, then the demo again; sources reverted',
            # (the stored .txt logs are the first 40 result lines only; the totals are what seed_verify.sh printed)
            'existing_suite_with_patch': '192 passed, 0 failed (94 baseline tests + doc tests; exit status 0)',
            'demo_without_patch': 'passes',
            'demo_with_patch': 'fails',
            'logs': ['verify_demo_clean.txt', 'verify_suite_patched.txt', 'verify_demo_patched.txt'],
        },
        'checks_run_against_it': {
            'how': 'tools/seed_run.py: git -C /repo apply patch.diff; rebuild; kverif check <ID> --tier quick --no-evidence; git -C /repo checkout -- .; rebuild',
            'caught_by': caught['caught_by'] if caught else None,
            'results': {k: {'exit': v['exit'], 'oracle': v['oracle']} for k, v in caught['results'].items()} if caught else None,
        },
    }
    if os.path.exists(f'{d}/patch.orig-c306b95.diff'):
        meta['note'] = 'patch.diff is the author\'s change (patch.orig-c306b95.diff) re-made on top of the repair 2edeeac, which rewrote the same function; re-confirmed afterwards (the demo needs RUSTFLAGS="--cfg kira_verif")'
    if os.path.exists(f'{d}/patch.orig-de86951.diff'):
        meta['note'] = 'patch.diff is the author\'s patch (patch.orig-de86951.diff) carried over with git apply --3way onto the repair c306b95, which touched the same file; re-confirmed afterwards'
    json.dump(meta, open(f'{d}/meta.json', 'w'), indent=1)
    print(name, meta['confirmed_by_me']['existing_suite_with_patch'], 'caught_by', meta['checks_run_against_it']['caught_by'])
