#!/usr/bin/env python3
"""Regenerates /verif/MANIFEST.json from the table below (single source of truth)."""
import json, subprocess
hooks_commits = ["7dd5128", "ff207d8"]
CHECKS = {
 "C01": dict(level="exploration", design="3 C01, 2.6",
   text="Seeded exploration of the whole public API (all resource kinds, all built-in effects incl. nested feedback, static + streaming sounds, every handle command with typical / boundary / extreme finite arguments, drops, sample-rate changes) interleaved with device callbacks of arbitrary size and 1..8 channels, under always-on monitors: panic, heap traffic and CPU-time watchdog in the audio role, sample finiteness / range / channel layout, mono == mean of a 2-channel twin world. Sampling, not proof: the input space is unbounded, so exploration with many short diverse runs is the right level.",
   note="Trusts the counting global allocator (armed by a thread-local only while the audio role runs), catch_unwind and /proc CPU accounting; SimBackend replaces the device; internal_buffer_size >= 1; rates capped at 1000, clock speeds at 1e6 ticks/s.",
   technique="deterministic simulation: seeded op-sequence generation against the real mixer behind a simulated device, runtime monitors as oracle, twin-world differential for the mono fold-down"),
}
NA = [
 ("C13", "pure DSP laws of (parameters, sample rate, input signal): no schedule, clock, fault or interleaving for a simulator to control; see DESIGN.md section 5"),
 ("C14", "conformance of DSP transfer functions to reference algorithms: a pure input->output question, nothing to simulate; see DESIGN.md section 5"),
 ("C19", "unit conversions and clock-time arithmetic are pure functions of their arguments (the property itself asks for exhaustive enumeration over f32 bit patterns); see DESIGN.md section 5"),
]
ALL = ["C%02d" % i for i in range(1, 20)]
claimed = set(CHECKS)
na_ids = {i for i, _ in NA}
pending = [i for i in ALL if i not in claimed and i not in na_ids]
m = {
 "version": 1,
 "setup_cmd": "cd /verif/sim && CARGO_NET_OFFLINE=true cargo build --release --offline",
 "hooks": {
   "guard": "--cfg kira_verif",
   "enable": "rustflags = [\"--cfg\", \"kira_verif\"] in /verif/sim/.cargo/config.toml; kira is compiled in place from /repo/crates/kira/src through the shadow manifest /verif/sim/kira-shadow/Cargo.toml (same package name, no cpal), so every check rebuilds from /repo's working tree",
   "baseline_off_cmd": "cd /repo && cargo test --workspace --no-fail-fast --offline",
   "source_commits": hooks_commits,
   "add_only": True,
 },
 "engines": [
   {"name": "kverif", "path": "/verif/sim/kverif", "serves_properties": sorted(claimed),
    "kind_free_text": "own deterministic simulator: SimBackend (simulated audio device owning the real Renderer), gate scheduler (real OS threads parked at cfg(kira_verif) yield points, one runs at a time, seeded PRNG or controller decides), scripted decoders / faulty media sources, reference models and twin worlds as oracles, child-process workers with CPU watchdog, delta-debugging shrinker, replay files"}
 ],
 "checks": [],
 "not_applicable": [{"property_id": i, "reason": r} for i, r in NA] +
   [{"property_id": i, "reason": "not claimed yet: check under construction in this round (see DESIGN.md section 3 for the planned simulation)"} for i in pending],
 "notes": "quick = check.sh <ID> quick (rebuild + fixed-seed batch, VERIF_SEED overrides); thorough = deeper batch. Exit 0 ok / 1 VIOLATION / 2 harness error. Fixed defects are recorded in /verif/known_findings.jsonl (status fixed: witnesses are replayed on every run and must pass).",
}
for cid in sorted(CHECKS):
    c = CHECKS[cid]
    m["checks"].append({
      "property_id": cid,
      "quick_cmd": f"/verif/check.sh {cid} quick",
      "thorough_cmd": f"/verif/check.sh {cid} thorough",
      "evidence_file": f"/verif/evidence/{cid}.json",
      "replay_cmd_template": "/verif/sim/target/release/kverif replay {path}",
      "engine": "kverif",
      "level_claimed": {"category": c["level"], "text": c["text"], "design_ref": "DESIGN.md section " + c["design"]},
      "level_note": c["note"],
      "technique": c["technique"],
    })
json.dump(m, open('/verif/MANIFEST.json', 'w'), indent=1)
print("claimed:", sorted(claimed), "pending:", pending)
