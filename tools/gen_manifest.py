#!/usr/bin/env python3
"""Regenerates /verif/MANIFEST.json from the table below (single source of truth)."""
import json, subprocess
hooks_commits = ["7dd5128", "ff207d8"]
CHECKS = {
 "C01": dict(level="exploration", design="3 C01, 2.6",
   text="Seeded exploration of the whole public API (all resource kinds, all built-in effects incl. nested feedback, static + streaming sounds, every handle command with typical / boundary / extreme finite arguments, drops, sample-rate changes) interleaved with device callbacks of arbitrary size and 1..8 channels, under always-on monitors: panic, heap traffic and CPU-time watchdog in the audio role, sample finiteness / range / channel layout, mono == mean of a 2-channel twin world. Sampling, not proof: the input space is unbounded, so exploration with many short diverse runs is the right level.",
   note="Trusts the counting global allocator (armed by a thread-local only while the audio role runs), catch_unwind and /proc CPU accounting; SimBackend replaces the device; internal_buffer_size >= 1; rates capped at 1000, clock speeds at 1e6 ticks/s.",
   technique="deterministic simulation: seeded op-sequence generation against the real mixer behind a simulated device, runtime monitors as oracle, twin-world differential for the mono fold-down"),
 "C02": dict(level="exploration", design="3 C02",
   text="Track trees of probe sounds (known positive signals, every process call logged) and probe effects (affine, non-commuting) are rendered through the real manager / renderer on the simulated device while a seeded history adds and removes tracks, sends and sounds, tweens volumes, pauses and resumes tracks. An executable reference mixer recomputes every device buffer from the harness-side mirror (exact point comparison with fixed gains, sound interval bounds while a gain may be mid-tween, exact silence where every contribution is zero); a second oracle checks the call log of every probe: every live sound / effect asked for every output frame exactly once, in order, in slices no longer than the internal buffer, and not at all when removed or paused.",
   note="Probe signals / effects are built on the public Sound / Effect traits; monotone (positive) signals make interval propagation sound; pause+resume of one track in one gap and partial subtree drops are left to C03 / C12.",
   technique="deterministic simulation against an executable reference mixer (refinement with interval-valued gains) + probe call-log invariants"),
 "C05": dict(level="exploration", design="3 C05, appendix A.1",
   text="Two simulated workloads. (ops) Clocks, clock commands, speed tweens (immediate, delayed, scheduled on other clocks) and clock-scheduled events (sound start, resume) run through the real manager on the simulated device next to a reference clock accumulating speed x dt once per internal chunk: handle times must equal the reference to 1e-9 ticks, each scheduled event must begin inside the internal buffer during which the reference clock reaches its time (never earlier, never later, never while paused), a sound waiting on a removed clock must become Stopped within two callbacks. (sched) An audio task and a reader task are interleaved by the seeded gate scheduler at the yield points inside the shared clock words; every value read must be one the clock had and could still show (regular-register semantics over stamped publish / read intervals), successive reads never go backwards.",
   note="Two open known findings are listed (torn two-word time read; speed tween scheduled on the clock's own time never starts): while they are open the pair check is relaxed to a per-word check and own-clock schedules are not generated; their witnesses are replayed on every run. Interleavings are sequentially consistent at yield-point granularity.",
   technique="deterministic simulation: reference clock model + scheduling-window oracle on the simulated device; seeded random thread schedules at guarded yield points with a regular-register history check"),
 "C06": dict(level="exploration", design="3 C06",
   text="kira::Parameter is driven update by update on a simulated audio clock (arbitrary partitions, start times immediate / delayed / on a simulated clock that pauses) for every tweenable type, next to the closed form start + (target - start) * ease(elapsed / duration): old value before the start, closed form during (one update of timing slack only where a start time has to be reached), exactly the target from the end on (strict when updates align with the duration), never outside [start, target], retargeting from the current value, previous_value() == last value(). A quarter of the cases read the per-frame gain envelope of a DC sound instead.",
   note="Clock start times are served by a MockInfo rebuilt per update; tolerance 1e-9 (f64 types) / 1e-5 (f32 types); quaternion slerp is not modelled.",
   technique="deterministic simulation on a simulated clock against a closed-form reference model; seeded partitions and command histories"),
 "C03": dict(level="exploration", design="3 C03",
   text="A static or streaming sound is driven callback by callback on a simulated audio clock under a seeded history of pause / resume / resume_at (delayed, clock, clock that vanishes) / stop / seek commands with arbitrary tweens. The documented 7-state automaton is run twice, with every timed step as early and as late as 'to within one callback' allows; the state reported by the handle must lie on the forward path between the two, Stopped is absorbing, finished() agrees with it, finite sounds reach Stopped once the least possible audio consumption exceeds their length. The gain envelope is read off a looping DC sound: on the fade curve (one callback of slack) when the fade starts from a known value, monotone otherwise, exact silence and frozen position while Paused / WaitingToResume / Stopped, exactly unity when Playing. The thorough tier adds every command sequence of length <= 3 over an 8-command alphabet x 3 timing classes as a workload source.",
   note="Sound driven directly through the public Sound trait (MockInfo clock); at most one life-cycle command per gap between callbacks; unloading / slot reuse after Stopped is checked by C08 through the manager.",
   technique="deterministic simulation against the documented life-cycle automaton run with earliest and latest admissible timing (specification-automaton refinement), envelope read from a DC probe signal"),
 "C04": dict(level="exploration", design="3 C04",
   text="The real Box<dyn Sound> of a static sound is driven chunk by chunk on a simulated audio clock next to an executable reference (integer transport + 4-point Hermite at the accumulated position). Seeded exploration over length, slice, start, loop region, reverse, rate, sample-rate pair, chunk partition and seek / loop commands at chunk boundaries, plus (thorough) the complete small-scope space length <= 6 as a workload source. Bit-exact comparison at rate 1, tolerance 2e-5 otherwise; poison frames outside the slice; end detection and reported position against the model.",
   note="Reference model written from the documentation and the property text; Info is an empty MockInfo; after a seek only what the property promises (within one frame) is demanded. One open known finding: rate 1 is not bit-exact at sample rates with sr*(1/sr) != 1.0 (those rates are then not generated for the bit-exact clause).",
   technique="deterministic simulation of the sound on a simulated audio clock against an executable reference model (refinement check), seeded + small-scope workloads"),
 "C07": dict(level="exploration", design="3 C07, appendix A.2",
   text="Probe resources built on kira's public command module (a Sound, an Effect and a Modulator, placed on the main track, on sub-tracks, three levels deep, and in the modulator arena) carry two command kinds with unique checksummed payloads and log every read. (ops) bursts of writes between callbacks, also before the resource is picked up, checked against the sequential latest-value mailbox model: polled exactly once per callback, exactly the last write applied, nothing applied twice or late. (sched) a gameplay task writes while an audio task runs callbacks under seeded random schedules at the yield points around CommandWriter::write / CommandReader::read; the stamped history is checked for strictly increasing applications, promptness, no time travel, quiescence and intact payloads. (real) bursts of set_volume through real handles (sound, track, main, send, effect, tweener) and seek_by, observed as audio: the value in force is the last write and stays there.",
   note="triple_buffer operations are atomic steps in the simulation; the decoder-side seek / loop-region commands of streaming sounds are exercised by C10 / C18.",
   technique="deterministic simulation: sequential mailbox model over op histories + seeded thread schedules with a stamped-history (linearizability-style) check"),
 "C08": dict(level="exploration", design="3 C08, appendix A.3",
   text="Three simulated workloads. (ops) long create / drop / finish histories over sub-tracks, nested tracks, send tracks, clocks, modulators, listeners and sounds at capacities {0, 1, 2, 3, 5}, with counts queried after every op, against a counter model: creation succeeds iff alive + awaiting removal < capacity, otherwise the documented error and never a panic; removal at the next callback (the one after if not yet picked up); every payload destroyed exactly once and never in the audio role; no heap traffic in the callback. (stale) an id of a removed clock / modulator / send track / listener is left dangling in a one-slot arena while a newcomer takes the slot: it must resolve to 'missing'. (sched) a gameplay task creating, dropping and counting against an audio task under seeded random schedules at the yield points inside try_reserve, insert_with_key, remove_and_add and remove_unused, with interval-based accounting over the stamped history and exact accounting after quiescence.",
   note="atomic-arena / rtrb operations are atomic steps; tracks are dropped with their nested handles (other orders: C12). Three defects found by these workloads were repaired (capacity 0 panic; two races that overflowed / wedged the unused-resource queue); their witnesses are replayed on every run.",
   technique="deterministic simulation: counter reference model over op histories, scripted stale-id fault scenarios, seeded thread schedules at guarded yield points with interval (linearizability-style) accounting"),
 "C09": dict(level="exploration", design="3 C09",
   text="Differential simulation: one generated audio content / settings / command history is played by the static and by the streaming implementation side by side on the same simulated audio clock; the streaming decoder thread is a gated simulator task run until it sleeps or ends before every callback, with generated packet sizes and seek granularities. Outputs must be bit-identical, states identical at every callback, positions within one frame until the sound ends.",
   note="Decoder is a scripted stub; the real DecodeScheduler loop runs on its own (gated) thread. 'Keeps ahead' is enforced by construction (chunks <= 200 frames, rate <= 3).",
   technique="deterministic simulation with a gated decoder thread; differential (static vs streaming) oracle in lock-step"),
 "C10": dict(level="fault_enumeration", design="3 C10, appendix A.4",
   text="The real decode loop runs on its own thread, gated by the simulator (spawn / sleep redirected, yield point at the loop top). For a 12-packet stream the check enumerates (k-th decode fails, k = 0..13; k-th seek fails, k = 0..3 incl. the one inside into_sound; no fault) x (natural end, stop with / without fade, rejected by a full track, track dropped, manager dropped) x (decoder ahead, in time, starving, stalled), with seeded timing, transient and sticky faults; a second half draws everything from the seed, a third of it under seeded random schedules of decoder, audio and gameplay tasks. Oracles: after faults stop and under a fair schedule every decoder task has ended and released its Decoder within a bound; no busy spin (after an error, on a full ring); a decode error stops the sound within two callbacks, nothing is audible after Stopped, the first error is poppable; over index-coded audio the output with silence gaps removed is a contiguous run of the transport order (one frame of slack across a gap).",
   note="Decoder is a scripted stub with injected failures; the 1 ms sleep is an event, never waited for. One open known finding (sound on a dropped track keeps its decoder thread until the next add_sub_track): while it is listed the drain phase makes that call. Four defects found here were repaired (leak on rejection / manager drop, spin after error, frame loss on underrun).",
   technique="deterministic simulation with fault enumeration over decoder calls x ending x pace, gated decoder thread, bounded-liveness and history oracles; seeded thread schedules"),
 "C11": dict(level="exploration", design="3 C11",
   text="Twin-world simulation: a generated scene with constant parameters (all track kinds, sends, every built-in effect incl. nested delay feedback, static and streaming sounds at any rate / loop / pan) is rendered in three worlds that differ only in internal buffer size (1..4096) and callback partition (1-frame, non-multiples, zero-frame, one huge callback). Streams are compared frame by frame: bit-for-bit without recursive effects / spatialization, |d| <= 1e-6 with them.",
   note="Constant parameters only (no modulators, tweens, delayed or clock starts), as the property states; streaming decoders are kept ahead by the gate scheduler.",
   technique="deterministic simulation, metamorphic twin worlds over the device's callback partition and the configured buffer size"),
 "C12": dict(level="exploration", design="3 C12",
   text="Track trees with a probe effect per track, probe sounds (every call logged) and static sounds with start delays run through the real manager on the simulated device under a seeded history of pause (with fades), resume now / delayed / at a clock time, clock start / drop, and handle drops of parents, children and sounds in any order with persistence on or off. Freeze oracle: once a pause fade has surely ended (per-track local clocks with lower and upper bounds) nothing beneath the node is called, static sounds keep their position and their start delays stop counting; no jump after the resume. Removal oracle: a track is processed as long as its handle, a descendant's handle or - if persistent - an unfinished sound keeps it alive, and is gone two callbacks after nothing does. State oracle: TrackHandle::state() never panics, is one of the five states, equals Paused / Playing once the model is sure.",
   note="Pause and resume of one track are not issued in the same gap. Three defects found here were repaired (track removed with a sound / child still queued; state() panic after resume_at on a removed clock).",
   technique="deterministic simulation of op histories against a life-cycle / ownership model with interval-valued local time; probe call logs as observations"),
 "C16": dict(level="exploration", design="3 C16, appendix A.5",
   text="Three simulated workloads. (orders) tracks, nested tracks and send tracks carrying a rate-probe effect are created in every order relative to device sample-rate changes (8 kHz .. 192 kHz) and callbacks; at every process call the rate the effect was last told (init / on_change_sample_rate) must equal 1/dt and the device rate in force. (sched) the add-track paths are preempted by the seeded gate scheduler between reading the shared sample rate and enqueueing the track, against a device task that changes the rate and runs callbacks. (seconds) one scene described in seconds - a finite sound at any source and playback rate, a clock, a volume tween, a delay echo - is rendered in three worlds at different device rates, one of which changes its rate mid-stream; sound duration, clock ticks, tween duration and echo time must agree in seconds within two callbacks.",
   note="One open known finding (a track queued while the rate changes keeps the old rate in its effects): while it is listed, rate changes are not generated while a track is waiting to be picked up and the sched stream runs without rate changes; its witness is replayed on every run. Filter frequency responses are not measured (C14 territory).",
   technique="deterministic simulation: probe effects observing the rate in force over op orders and seeded thread schedules; twin worlds at different device rates compared in the seconds domain"),
 "C17": dict(level="exploration", design="3 C17",
   text="LFOs, tweeners and a counting probe modulator run in the real manager on the simulated device; probe effects on sub-tracks own kira::Parameters linked to them through mappings (normal, inverted and partial input ranges, every easing) and log at every process call the modulator values visible through Info and the parameter values. Reference: closed-form LFO with the phase accumulated once per internal chunk, closed-form tweener, Mapping::map re-implemented. Checked per internal chunk under seeded add / command / drop histories and callback partitions: value == reference in the same chunk (no one-chunk lag), LFO within offset +- |amplitude|, linked parameter == mapping of the current value, held after the modulator is removed and the id no longer resolves, exactly one update per chunk (with the chunk's dt) before any reader.",
   note="LFO parameters change by instant commands; waveform shapes follow the formulas pinned by the repository's unit tests; modulator-to-modulator links are not generated (their update order is creation order).",
   technique="deterministic simulation against closed-form reference models; probe Effect / Modulator observing Info inside the real update order"),
}
NA = [
 ("C13", "pure DSP laws of (parameters, sample rate, input signal): no schedule, clock, fault or interleaving for a simulator to control; see DESIGN.md section 5"),
 ("C14", "conformance of DSP transfer functions to reference algorithms: a pure input->output question, nothing to simulate; see DESIGN.md section 5"),
 ("C19", "unit conversions and clock-time arithmetic are pure functions of their arguments (the property itself asks for exhaustive enumeration over f32 bit patterns); see DESIGN.md section 5"),
]
ALL = ["C%02d" % i for i in range(1, 20)]
claimed = set(CHECKS)
na_ids = {i for i, _ in NA}
pending = [i for i in ALL if i not in claimed and i not in na_ids]
m = {
 "version": 1,
 "setup_cmd": "cd /verif/sim && CARGO_NET_OFFLINE=true cargo build --release --offline",
 "hooks": {
   "guard": "--cfg kira_verif",
   "enable": "rustflags = [\"--cfg\", \"kira_verif\"] in /verif/sim/.cargo/config.toml; kira is compiled in place from /repo/crates/kira/src through the shadow manifest /verif/sim/kira-shadow/Cargo.toml (same package name, no cpal), so every check rebuilds from /repo's working tree",
   "baseline_off_cmd": "cd /repo && cargo test --workspace --no-fail-fast --offline",
   "source_commits": hooks_commits,
   "add_only": True,
 },
 "engines": [
   {"name": "kverif", "path": "/verif/sim/kverif", "serves_properties": sorted(claimed),
    "kind_free_text": "own deterministic simulator: SimBackend (simulated audio device owning the real Renderer), gate scheduler (real OS threads parked at cfg(kira_verif) yield points, one runs at a time, seeded PRNG or controller decides), scripted decoders / faulty media sources, reference models and twin worlds as oracles, child-process workers with CPU watchdog, delta-debugging shrinker, replay files"}
 ],
 "checks": [],
 "not_applicable": [{"property_id": i, "reason": r} for i, r in NA] +
   [{"property_id": i, "reason": "not claimed yet: check under construction in this round (see DESIGN.md section 3 for the planned simulation)"} for i in pending],
 "notes": "quick = check.sh <ID> quick (rebuild + fixed-seed batch, VERIF_SEED overrides); thorough = deeper batch. Exit 0 ok / 1 VIOLATION / 2 harness error. Fixed defects are recorded in /verif/known_findings.jsonl (status fixed: witnesses are replayed on every run and must pass).",
}
for cid in sorted(CHECKS):
    c = CHECKS[cid]
    m["checks"].append({
      "property_id": cid,
      "quick_cmd": f"/verif/check.sh {cid} quick",
      "thorough_cmd": f"/verif/check.sh {cid} thorough",
      "evidence_file": f"/verif/evidence/{cid}.json",
      "replay_cmd_template": "/verif/sim/target/release/kverif replay {path}",
      "engine": "kverif",
      "level_claimed": {"category": c["level"], "text": c["text"], "design_ref": "DESIGN.md section " + c["design"]},
      "level_note": c["note"],
      "technique": c["technique"],
    })
json.dump(m, open('/verif/MANIFEST.json', 'w'), indent=1)
print("claimed:", sorted(claimed), "pending:", pending)
