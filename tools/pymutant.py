#!/usr/bin/env python3
"""usage: pymutant.py <check-id> <cases> <file-relative-to-kira-src> <old> <new> [<file> <old> <new> ...]
Applies exact-string edits to /repo's working tree, rebuilds, runs the check, reverts."""
import subprocess, sys
cid, cases = sys.argv[1], sys.argv[2]
edits = sys.argv[3:]
if subprocess.run(['git','-C','/repo','diff','--quiet']).returncode != 0:
    print('repo dirty'); sys.exit(2)
try:
    for i in range(0, len(edits), 3):
        p = '/repo/crates/kira/src/' + edits[i]
        s = open(p).read()
        old = edits[i+1].encode().decode('unicode_escape'); new = edits[i+2].encode().decode('unicode_escape')
        if s.count(old) < 1:
            print('MUTANT DID NOT APPLY', edits[i]); sys.exit(3)
        open(p,'w').write(s.replace(old, new, 1))
    b = subprocess.run('cd /verif/sim && cargo build --release --offline', shell=True, capture_output=True, text=True)
    if b.returncode != 0:
        print('MUTANT DOES NOT COMPILE'); print('\n'.join([l for l in b.stderr.split('\n') if l.startswith('error')][:5])); sys.exit(4)
    r = subprocess.run(f'cd /verif && timeout 900 ./sim/target/release/kverif check {cid} --cases {cases} --no-evidence', shell=True, capture_output=True, text=True)
    for l in (r.stdout + r.stderr).split('\n'):
        if l.startswith('oracle') or 'VIOLATION' in l or 'quick:' in l or 'thorough:' in l:
            print(l[:300])
finally:
    subprocess.run(['git','-C','/repo','checkout','--','.'])
    subprocess.run('cd /verif/sim && cargo build --release --offline', shell=True, capture_output=True)
