#!/usr/bin/env python3
"""One-off helper that produced the H1/H2 hook commit in /repo (kept for the record).
Inserts `#[cfg(kira_verif)] crate::verif::yield_point("<site>");` before given lines
(1-based line numbers of the pinned commit 02bd5a3). Added lines only."""
import sys, collections
ROOT = '/repo/crates/kira/src/'
Y = []  # (file, line, site)
def y(f, line, site): Y.append((f, line, site))

R='backend/resources.rs'
y(R,55,'res.remove_and_add.begin'); y(R,56,'res.unused.push'); y(R,60,'res.remove_and_add.mid'); y(R,61,'res.new.popped')
y(R,132,'sres.remove_and_add.begin'); y(R,133,'sres.remove_and_add.mid'); y(R,134,'sres.new.popped'); y(R,167,'sres.unused.push')
y(R,202,'res.try_reserve'); y(R,208,'res.insert.begin'); y(R,209,'res.insert.push'); y(R,221,'res.unused.drain')
y('backend/renderer.rs',56,'renderer.rate.begin'); y('backend/renderer.rs',57,'renderer.rate.store'); y('backend/renderer.rs',58,'renderer.rate.fanout')
for f,ls in [('manager.rs',[123,143,161]),('track/sub/handle.rs',[64,82]),('track/sub/spatial_handle.rs',[64,82])]:
    for l in ls:
        y(f,l,'add_track.rate.load'); y(f,l+1,'add_track.insert')
C='clock.rs'
y(C,187,'clock.shared.ticking.load'); y(C,192,'clock.shared.ticks.load'); y(C,197,'clock.shared.fraction.load')
y(C,202,'clock.shared.removed.load'); y(C,206,'clock.shared.removed.store'); y(C,288,'clock.set_ticking.store'); y(C,293,'clock.reset.store')
y(C,304,'clock.update_shared.ticks.store'); y(C,305,'clock.update_shared.fraction.store')
y('clock/handle.rs',64,'clock.handle.stop.ticks.store'); y('clock/handle.rs',65,'clock.handle.stop.fraction.store')
y('command.rs',33,'command.write'); y('command.rs',48,'command.read')
T='track.rs'
y(T,297,'track.shared.state.load'); y(T,308,'track.shared.state.store'); y(T,313,'track.shared.removed.load'); y(T,317,'track.shared.removed.store')
y('listener.rs',98,'listener.removed.load'); y('listener.rs',102,'listener.removed.store')
y('modulator/tweener.rs',107,'tweener.removed.load'); y('modulator/tweener/handle.rs',36,'tweener.removed.store')
y('modulator/lfo.rs',81,'lfo.removed.load'); y('modulator/lfo/handle.rs',52,'lfo.removed.store')
S='sound/static_sound/sound.rs'
y(S,190,'static.position.store'); y(S,258,'static.state.load'); y(S,271,'static.state.store'); y(S,275,'static.position.load')
Q='sound/streaming/sound.rs'
y(Q,47,'stream.state.load'); y(Q,60,'stream.state.store'); y(Q,65,'stream.position.load'); y(Q,70,'stream.reached_end.load'); y(Q,75,'stream.error.load')
y(Q,129,'stream.ring.peek'); y(Q,197,'stream.position.store'); y(Q,239,'stream.ring.slots'); y(Q,265,'stream.ring.pop')
D='sound/streaming/sound/decode_scheduler.rs'
y(D,96,'decoder.loop'); y(D,103,'decoder.error.push'); y(D,104,'decoder.error.flag.store'); y(D,116,'decoder.ring.is_full'); y(D,131,'decoder.ring.push'); y(D,139,'decoder.reached_end.store')
y('sound/streaming/handle.rs',331,'stream.handle.pop_error')

by = collections.defaultdict(list)
for f,l,s in Y: by[f].append((l,s))
for f,items in by.items():
    lines = open(ROOT+f).read().split('\n')
    extra = []
    if f == D:
        extra.append((95, None))  # `use ... as std` before line 95
    for l,s in sorted(items+extra, key=lambda t:(-t[0], 0 if t[1] is None else 1)):
        tgt = lines[l-1]
        indent = tgt[:len(tgt)-len(tgt.lstrip('\t'))]
        if s is None:
            ins = [indent+'#[cfg(kira_verif)]', indent+'use crate::verif::std_shim as std;']
        else:
            ins = [indent+'#[cfg(kira_verif)]', indent+'crate::verif::yield_point("%s");' % s]
        lines[l-1:l-1] = ins
    open(ROOT+f,'w').write('\n'.join(lines))
print(len(Y),'yield points inserted')
