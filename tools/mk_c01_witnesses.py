#!/usr/bin/env python3
"""Writes the hand-minimised C01 witnesses under /verif/replays/known/."""
import json, os
D='/verif/replays/known'
os.makedirs(D, exist_ok=True)
def cfg(**kw):
    c={"caps":{"clocks":2,"listeners":2,"modulators":2,"send_tracks":2,"sub_tracks":4},"internal_buffer_size":128,
       "main_effects":[],"main_sound_capacity":8,"main_volume":{"Fixed":0.0},"sample_rate":48000}
    c.update(kw); return c
def fx(v): return {"Fixed":v}
CB={"Callback":{"channels":2,"frames":256}}
def settings(**kw):
    s={"fade_in":None,"loop_region":None,"panning":fx(0.0),"rate":fx(1.0),"reverse":False,"start":"Immediate",
       "start_position":{"Samples":0},"volume":fx(0.0)}
    s.update(kw); return s
def play(len_=100, sr=48000, slice_=None, track=None, **kw):
    return {"PlayStatic":{"data":{"len":len_,"sample_rate":sr,"signal":{"Dc":0.5}},"settings":settings(**kw),"slice":slice_,"track":track}}
def case(name, cfg_, ops, what):
    doc={"check":"C01","what":what,"case":{"seed":1,"cfg":cfg_,"twin":False,"ops":ops}}
    json.dump(doc, open(f'{D}/{name}.json','w'), indent=1)
case('C01-nan-distortion-silent-drive', cfg(main_effects=[{"Distortion":{"drive":fx(-60.0),"kind":"HardClip","mix":fx(1.0)}}]), [CB],
     'distortion with drive <= -60 dB: 0/0 = NaN on every sample')
case('C01-nan-reverb-width-extreme', cfg(main_effects=[{"Reverb":{"damping":fx(0.5),"feedback":fx(0.9),"mix":fx(0.5),"stereo_width":fx(-1e300)}}]), [CB],
     'reverb stereo_width -1e300 overflows f32: inf * 0 = NaN')
case('C01-nan-huge-gain', cfg(main_volume=fx(800.0)), [CB], 'main track volume 800 dB on silence: inf * 0 = NaN survives the final clamp')
case('C01-nan-compressor-ratio-zero', cfg(main_effects=[{"Compressor":{"attack":fx(0.01),"makeup":fx(0.0),"mix":fx(1.0),"ratio":fx(0.0),"release":fx(0.1),"threshold":fx(0.0)}}]), [CB],
     'compressor ratio 0: 0 * inf = NaN')
case('C01-nan-spatial-equal-distances', cfg(), [
     {"AddListener":{"orientation":fx([0.0,0.0,0.0,1.0]),"position":fx([0.0,0.0,0.0])}},
     {"AddTrack":{"parent":None,"spatial":{"attenuation":"Linear","distances":[5.0,5.0],"listener":0,"position":fx([0.0,0.0,3.0]),"strength":fx(0.75)},
                  "spec":{"effects":[],"persist":False,"sends":[],"sound_capacity":4,"sub_track_capacity":2,"volume":fx(0.0)}}},
     play(track=0), CB], 'spatial track with min_distance == max_distance: 0/0 = NaN')
case('C01-panic-inverted-loop', cfg(), [play(loop_region={"start":{"Samples":60},"end":{"Samples":20}}), CB, CB],
     'inverted loop region (end < start): "attempt to subtract with overflow" on the audio thread')
case('C01-hang-empty-loop', cfg(), [play(loop_region={"start":{"Samples":30},"end":{"Samples":30}}), CB, CB],
     'empty loop region (end == start): the callback never returns')
case('C01-panic-delay-zero-frames', cfg(main_effects=[{"Delay":{"feedback":fx(-6.0),"feedback_effects":[],"mix":fx(0.5),"time":0.0}}]), [CB],
     'delay time shorter than one frame: "chunk size must be non-zero" on the audio thread')
case('C01-panic-slice-out-of-range', cfg(), [play(len_=100, slice_=[50,400]), CB, CB],
     'slice that ends after the audio data: index out of bounds on the audio thread')
